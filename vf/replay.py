"""Replay of a recorded violation.

Verus gives no counterexample, so for Verus obligations the replay re-generates the obligations named in the replay file
from /repo's current working tree and re-runs the verifier on them; for Kani obligations the stored concrete-playback test
(the verifier's counterexample) was already executed against the real function when the violation was reported, and the
replay re-runs the harness. No separate small-scope search against the public API is built (see DESIGN.md section 8)."""
import json
import os
import re
import subprocess
import sys

ROOT = os.path.dirname(os.path.dirname(os.path.abspath(__file__)))


def search(prop, failed_ids, work):
    return None


def rerun(prop, path):
    doc = json.load(open(path))
    want = [o['id'] for o in doc.get('failed_obligations', [])]
    p = subprocess.run([os.path.join(ROOT, 'check'), prop, '--tier', 'quick'], stdout=subprocess.PIPE, stderr=subprocess.STDOUT, text=True)
    still = set(re.findall(r'FAILED obligation (\S+)', p.stdout))
    rc = 0
    for oid in want:
        if oid in still:
            print('REPLAY: obligation %s still fails on the current tree' % oid)
            rc = 1
        else:
            print('REPLAY: obligation %s is discharged on the current tree' % oid)
    if doc.get('failing_input'):
        print('REPLAY: recorded counterexample (Kani concrete playback):')
        print(doc['failing_input'].get('playback_test', ''))
    if rc:
        print('VIOLATION property=%s replay=%s%s' % (prop, path, '' if doc.get('failing_input') else ' no-failing-input-found'))
    return rc
