"""Concrete replay search against the real crate (never decides; only turns a failed obligation into an input)."""


def search(prop, failed_ids, work):
    return None


def rerun(prop, path):
    print('replay not yet implemented for', prop, path)
    return 2
