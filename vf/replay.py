"""Replay of a recorded violation, and the witness search that precedes it.

Verus gives no counterexample. For Verus obligations the replay re-generates the obligations named in the replay file from /repo's current
working tree and re-runs the verifier on them; for Kani obligations the stored concrete-playback test (the verifier's counterexample) was
already executed against the real function when the violation was reported, and the replay re-runs the harness.

For C20 (panic / hang) a failed obligation is followed by a small-scope WITNESS SEARCH against the real code: the public entry points of the
module the obligation lives in are called on every small graph (replays/search/verif_search.rs, a test built in a scratch copy of /repo with
overflow checks on, each call under catch_unwind and a watchdog). For C09, C10 and C12 the same harness compares the results with an oracle
computed from the description of the graph (counts and degrees from the edge list, reachability by Floyd-Warshall, the definition of a partition). A witness is stored in the replay file and replayed by `--replay`; without
one the VIOLATION line ends with no-failing-input-found. The search never decides a verdict and never runs on a tree whose obligations hold."""
import json
import os
import re
import shutil
import subprocess
import sys

ROOT = os.path.dirname(os.path.dirname(os.path.abspath(__file__)))
REPO = os.environ.get('VERIF_REPO', '/repo')

# module of the failed obligation -> entry-point group of the search harness (first match wins)
GROUPS = [
    ('src/algorithms/cluster/square.rs', 'square'),
    ('src/algorithms/cluster/', 'cluster'),
    ('src/algorithms/centrality/eigenvector.rs', 'eigenvector'),
    ('src/algorithms/centrality/betweenness.rs', 'betweenness'),
    ('src/algorithms/centrality/closeness.rs', 'closeness'),
    ('src/algorithms/centrality/degree.rs', 'graph'),
    ('src/algorithms/shortest_path/', 'dijkstra'),
    ('src/algorithms/components/', 'components'),
    ('src/graph/', 'graph'),
]


# properties whose statement has an executable oracle on small graphs: the same harness compares results with the definition
ORACLE_GROUPS = {
    'C10': [('src/algorithms/components/', 'components_oracle'), ('src/graph/query.rs', 'components_oracle')],
    'C01': [('src/graph/', 'queries_oracle')],
    'C02': [('src/graph/', 'queries_oracle')],
    'C03': [('src/graph/', 'sp_oracle')],
    'C09': [('src/graph/', 'counts_oracle')],
    'C12': [('src/algorithms/community/partitions.rs', 'partition_oracle')],
    'C04': [('src/algorithms/shortest_path/', 'sp_oracle')],
    'C08': [('src/algorithms/shortest_path/', 'sp_oracle')],
    'C05': [('src/algorithms/centrality/betweenness.rs', 'betweenness_oracle')],
    'C06': [('src/algorithms/centrality/closeness.rs', 'closeness_oracle')],
    'C15': [('src/graph/convert.rs', 'derived_oracle'), ('src/graph/subgraph.rs', 'derived_oracle')],
    'C16': [('src/generators/', 'generators_oracle')],
    'C18': [('src/algorithms/centrality/eigenvector.rs', 'eigenvector_oracle')],
}


def _group_of(where, prop='C20'):
    table = GROUPS if prop == 'C20' else ORACLE_GROUPS.get(prop, [])
    for prefix, g in table:
        if where and where.startswith(prefix):
            return g
    return None


def _run_group(group, work):
    """build the harness in a scratch copy of the repository under `work` and run one group; returns (witness dict | None, cmd)"""
    src = os.path.join(work, 'search_repo')
    if not os.path.isdir(src):
        shutil.copytree(REPO, src, ignore=shutil.ignore_patterns('target', '.git'))
        shutil.copy(os.path.join(ROOT, 'replays', 'search', 'verif_search.rs'), os.path.join(src, 'tests', 'verif_search.rs'))
    env = dict(os.environ, CARGO_TARGET_DIR=os.path.join(work, 'search_target'), CARGO_NET_OFFLINE='true', VERIF_SEARCH_GROUP=group)
    cmd = ['cargo', 'test', '--offline', '--test', 'verif_search', '--', '--nocapture']
    try:
        p = subprocess.run(cmd, cwd=src, env=env, stdout=subprocess.PIPE, stderr=subprocess.STDOUT, text=True,
                           timeout=int(os.environ.get('VERIF_SEARCH_TIMEOUT', '900')))
    except subprocess.TimeoutExpired:
        return None, ' '.join(cmd)
    m = re.search(r'^FOUND (\{.*\})\s*$', p.stdout, re.M)
    if not m:
        nf = re.search(r'^NOTFOUND tried=(\d+)', p.stdout, re.M)
        _run_group.last_tried = int(nf.group(1)) if nf else None     # None: the harness did not build / finish
        return None, ' '.join(cmd)
    _run_group.last_tried = None
    try:
        return json.loads(m.group(1)), ' '.join(cmd)
    except Exception:
        return {'raw': m.group(1)}, ' '.join(cmd)


_run_group.last_tried = None


def search(prop, failed, work):
    """failed: the failed obligation objects (id, fn, where). Returns a failing-input record or None."""
    if (prop != 'C20' and prop not in ORACLE_GROUPS) or os.environ.get('VERIF_SEARCH', '1') == '0':
        return None
    groups = []
    for o in failed:
        g = _group_of(getattr(o, 'where', '') or '', prop)
        if g and g not in groups:
            groups.append(g)
    for g in groups[:3]:
        w, cmd = _run_group(g, work)
        if w:
            return {'source': 'small-scope witness search against the public API of the real code (Verus gives no counterexample); '
                              'graphs with at most 4 nodes, all 8 kinds, unweighted and weights from {1.0, 0.0, 2.5, f64::MAX}',
                    'group': g, 'witness': w, 'replayed_against_real_code': True,
                    'cmd': 'VERIF_SEARCH_GROUP=%s %s   (in a scratch copy of /repo with replays/search/verif_search.rs under tests/)' % (g, cmd)}
    return None


def rerun(prop, path):
    doc = json.load(open(path))
    want = [o['id'] for o in doc.get('failed_obligations', [])]
    p = subprocess.run([os.path.join(ROOT, 'check'), prop, '--tier', 'quick'], stdout=subprocess.PIPE, stderr=subprocess.STDOUT, text=True)
    still = set(re.findall(r'FAILED obligation (\S+)', p.stdout))
    rc = 0
    for oid in want:
        if oid in still:
            print('REPLAY: obligation %s still fails on the current tree' % oid)
            rc = 1
        else:
            print('REPLAY: obligation %s is discharged on the current tree' % oid)
    fi = doc.get('failing_input') or {}
    if fi.get('playback_test'):
        print('REPLAY: recorded counterexample (Kani concrete playback):')
        print(fi.get('playback_test', ''))
    if fi.get('group'):
        import tempfile
        work = tempfile.mkdtemp(prefix='verif_replay_')
        try:
            w, _ = _run_group(fi['group'], work)
        finally:
            pass
        print('REPLAY: recorded witness: %s' % json.dumps(fi.get('witness')))
        if w:
            print('REPLAY: the witness search still finds a failing input on the current tree: %s' % json.dumps(w))
            rc = 1
        else:
            print('REPLAY: the witness search finds no failing input on the current tree')
        shutil.rmtree(work, ignore_errors=True)
    if rc:
        print('VIOLATION property=%s replay=%s%s' % (prop, path, '' if doc.get('failing_input') else ' no-failing-input-found'))
    return rc
