"""Kani leaf lemmas: harness modules from /verif/kani are appended (#[cfg(kani)]) to a scratch copy of /repo."""
import json
import os
import re
import shutil
import subprocess
import time

ROOT = os.path.dirname(os.path.dirname(os.path.abspath(__file__)))
REPO = os.environ.get('VERIF_REPO', '/repo')

# harness file -> (repo file it is appended to, [(harness fn, obligation id, strength, what)])
HARNESSES = {
    'dijkstra_fringe.rs': ('src/algorithms/shortest_path/dijkstra.rs', [
        ('c04_fringe_total_order', 'C04.fringe.total_order', 'complete'),
        ('c04_fringe_max_is_min_distance', 'C04.fringe.max_is_min_distance', 'complete'),
    ]),
    'spi_interior.rs': ('src/algorithms/shortest_path/shortest_path_info.rs', [
        ('c08_interior_filter_bounded', 'C08.interior.filter_bounded', 'bounded: T=u8, <=2 paths x <=4 nodes, unwind 6'),
    ]),
    'float_facts.rs': ('src/lib.rs', [
        ('a1_float_identities', 'C04.float.a1_identities_hold_on_machine_f64', 'complete'),
        ('a1_float_identities', 'C05.float.a1_identities_hold_on_machine_f64', 'complete'),
        ('a1_float_identities', 'C06.float.a1_identities_hold_on_machine_f64', 'complete'),
    ]),
    'centrality_fringe.rs': ('src/algorithms/centrality/fringe_node.rs', [
        ('c05_fringe_total_preorder', 'C05.fringe.total_preorder', 'complete'),
        ('c05_fringe_max_is_min_distance', 'C05.fringe.max_is_min_distance', 'complete'),
    ]),
}


def lemmas_for(prop):
    res = []
    for f, (target, hs) in HARNESSES.items():
        for (fn, oid, strength) in hs:
            if oid.startswith(prop + '.'):
                res.append((f, target, fn, oid, strength))
    return res


def run(prop, work, repo=None, tier='thorough'):
    repo = repo or REPO
    todo = lemmas_for(prop)
    if tier != 'thorough':
        # bounded stand-ins are cross-checks of assumed std contracts; the complete leaf lemmas run in both tiers
        todo = [t for t in todo if not t[4].startswith('bounded')]
    if not todo:
        return []
    scratch = os.path.join(work, 'kani_repo')
    shutil.rmtree(scratch, ignore_errors=True)
    os.makedirs(scratch)
    for item in ('src', 'Cargo.toml', 'Cargo.lock', 'README.md'):
        s = os.path.join(repo, item)
        d = os.path.join(scratch, item)
        if os.path.isdir(s):
            shutil.copytree(s, d)
        else:
            shutil.copy(s, d)
    os.makedirs(os.path.join(scratch, '.cargo'))
    open(os.path.join(scratch, '.cargo', 'config.toml'), 'w').write('[net]\noffline = true\n')
    for f in sorted(set(t[0] for t in todo)):
        target = HARNESSES[f][0]
        with open(os.path.join(scratch, target), 'a') as out:
            out.write('\n' + open(os.path.join(ROOT, 'kani', f)).read())
    results = []
    env = dict(os.environ, CARGO_NET_OFFLINE='true', CARGO_TARGET_DIR=os.path.join(work, 'kani_target'))
    for (f, target, fn, oid, strength) in todo:
        t0 = time.time()
        cmd = ['cargo', 'kani', '--harness', fn, '--output-format', 'terse']
        try:
            p = subprocess.run(cmd, cwd=scratch, env=env, stdout=subprocess.PIPE, stderr=subprocess.STDOUT, text=True,
                               timeout=int(os.environ.get('VERIF_KANI_TIMEOUT', '900')))
            out = p.stdout
        except subprocess.TimeoutExpired:
            results.append({'id': oid, 'harness': fn, 'strength': strength, 'status': 'unknown', 'detail': 'kani timeout',
                            'where': target, 'wall_s': round(time.time() - t0, 1), 'cmd': ' '.join(cmd)})
            continue
        ok = 'VERIFICATION:- SUCCESSFUL' in out
        failed = 'VERIFICATION:- FAILED' in out
        detail = ''
        cex = None
        if failed:
            detail = '; '.join(re.findall(r'Failed Checks: (.*)', out)[:5])
            cex = counterexample(scratch, env, fn)
        elif not ok:
            detail = 'kani gave no verdict: ' + out[-400:]
        results.append({'id': oid, 'harness': fn, 'strength': strength,
                        'status': 'discharged' if ok else ('failed' if failed else 'unknown'),
                        'detail': detail, 'where': target, 'wall_s': round(time.time() - t0, 1), 'cmd': ' '.join(cmd),
                        'counterexample': cex})
    shutil.rmtree(os.path.join(work, 'kani_target'), ignore_errors=True)
    shutil.rmtree(scratch, ignore_errors=True)
    return results


def counterexample(scratch, env, fn):
    """Kani's counterexample, replayed: the harness is re-run with concrete playback, which writes a unit test with the
    failing concrete values next to the harness (in the scratch copy); that test is then executed with `cargo kani playback`
    against the real function. Returns the test text and whether the replay reproduced the failure."""
    try:
        p = subprocess.run(['cargo', 'kani', '--harness', fn, '-Z', 'concrete-playback', '--concrete-playback=inplace', '--output-format', 'terse'],
                           cwd=scratch, env=env, stdout=subprocess.PIPE, stderr=subprocess.STDOUT, text=True, timeout=1800)
        m = re.search(r'(kani_concrete_playback_\w+)', p.stdout)
        test_text = ''
        name = m.group(1) if m else None
        if name:
            for root, _, files in os.walk(os.path.join(scratch, 'src')):
                for f in files:
                    t = open(os.path.join(root, f)).read()
                    k = t.find('fn ' + name)
                    if k >= 0:
                        a = t.rfind('#[test]', 0, k)
                        b = t.find('\n}', k)
                        test_text = t[a:b + 2]
        replayed = None
        if name:
            q = subprocess.run(['cargo', 'kani', 'playback', '-Z', 'concrete-playback', '--', name],
                               cwd=scratch, env=env, stdout=subprocess.PIPE, stderr=subprocess.STDOUT, text=True, timeout=1800)
            replayed = ('test result: FAILED' in q.stdout) or ('panicked' in q.stdout)
        return {'playback_test': test_text, 'replayed_against_real_function': replayed}
    except Exception as e:  # never let the replay step change the verdict
        return {'error': str(e)}
