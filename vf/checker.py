"""Property-level driver: runs the units that carry a property's obligations, decides, writes evidence."""
import concurrent.futures
import glob
import hashlib
import json
import os
import re
import shutil
import sys
import tempfile
import time

from . import extract, verus

ROOT = os.path.dirname(os.path.dirname(os.path.abspath(__file__)))
REPO = os.environ.get('VERIF_REPO', '/repo')
UNITS_DIR = os.path.join(ROOT, 'contracts', 'units')
EVID_DIR = os.environ.get('VERIF_EVIDENCE_DIR') or os.path.join(ROOT, 'evidence')
REPLAY_DIR = os.environ.get('VERIF_REPLAY_DIR') or os.path.join(ROOT, 'replays')
KNOWN = os.path.join(ROOT, 'known_findings.json')

CLAIMED = ['C01', 'C02', 'C03', 'C04', 'C05', 'C06', 'C08', 'C09', 'C10', 'C16', 'C20']


def unit_text(path):
    """text of the unit with includes expanded; lines coming from include-assumed files are left out"""
    return '\n'.join(t[0] for t in extract.load_template(path) if not t[3])


def units_for(prop):
    res = []
    for p in sorted(glob.glob(os.path.join(UNITS_DIR, '*.rs'))):
        txt = unit_text(p)
        if re.search(r'\[[^\]\n]*\b' + prop + r'\.', txt) or re.search(r'props=[A-Z0-9,]*\b' + prop + r'\b', txt):
            res.append(p)
    return res


def depends_of(path):
    deps = []
    for t in extract.load_template(path):
        m = re.match(r'\s*//@ depends (.*)$', t[0])
        if m:
            deps += m.group(1).split()
    return [os.path.join(UNITS_DIR, d + '.rs') for d in deps]


def load_known():
    if not os.path.exists(KNOWN):
        return {'open': [], 'fixed': []}
    return json.load(open(KNOWN))


class Obligation:
    def __init__(self, oid, unit, fn, kind, where=''):
        self.id, self.unit, self.fn, self.kind, self.where = oid, unit, fn, kind, where
        self.status = 'unknown'   # discharged | failed | unknown
        self.detail = ''
        self.backend = 'verus'


def collect(prop, results):
    """build the obligation list of `prop` from unit results"""
    obls = []
    problems = []
    for r in results:
        if r.gen is None or not r.functions:
            continue
        gen = r.gen
        tf = verus.template_functions(gen)
        # labelled clauses in extracted functions
        for lb, info in gen.labels.items():
            if lb.startswith(prop + '.'):
                f = gen.functions.get(info['fn'])
                where = '%s:%d-%d' % (f['file'], f['repo_lines'][0], f['repo_lines'][1]) if f else ''
                obls.append(Obligation(lb, r.unit, info['fn'], 'clause', where))
        # labelled hand-written lemmas / client functions
        for name, info in tf.items():
            for lb in info['labels']:
                if lb.startswith(prop + '.'):
                    obls.append(Obligation(lb, r.unit, name, 'lemma', '%s(template)' % r.unit))
        # safety obligations: one per extracted function that lists C20
        if prop == 'C20':
            for name, f in gen.functions.items():
                if 'C20' in f['props']:
                    obls.append(Obligation('C20.%s.%s.panic_free' % (r.unit, name), r.unit, name, 'safety',
                                           '%s:%d-%d' % (f['file'], f['repo_lines'][0], f['repo_lines'][1])))
        # decide
    by_unit = {r.unit: r for r in results}
    for o in obls:
        r = by_unit[o.unit]
        fname = r.gen.functions[o.fn]['name'] if o.fn in r.gen.functions else o.fn
        fr = r.functions.get(fname)
        if fr is None:
            o.status = 'unknown'
            o.detail = 'function %s not in verus function breakdown' % fname
            problems.append('registry mismatch: %s (%s) was not checked by verus' % (o.id, fname))
            continue
        errs = [e for e in r.errors if e['fn'] == o.fn and not e.get('resource')]
        undecided = [e for e in r.errors if e['fn'] == o.fn and e.get('resource')]
        if fr['success'] and not errs and not undecided:
            o.status = 'discharged'
            continue
        if not errs and undecided:
            o.status = 'unknown'
            o.detail = 'solver resource limit while checking %s' % fname
            continue
        # the function has errors: which obligations do they hit?
        hit = False
        for e in errs:
            is_post = 'postcondition' in e['message']
            if o.kind == 'safety':
                # safety = everything that is not a failed postcondition / not a pure spec clause
                if not is_post:
                    hit = True
                    o.detail = '%s @ %s' % (e['message'], ','.join(e['where']))
            else:
                if is_post and e['labels']:
                    if o.id in e['labels']:
                        hit = True
                        o.detail = '%s @ %s' % (e['message'], ','.join(e['where']))
                else:
                    # failed invariant / assert / callee precondition / safety condition (or an unlabelled
                    # postcondition): the proof of every clause of this function may rest on it
                    hit = True
                    o.detail = '%s @ %s' % (e['message'], ','.join(e['where']))
        if hit:
            o.status = 'failed'
        elif fr['success'] is False and not errs:
            o.status = 'failed'
            o.detail = 'verus reports function %s as not verified' % fname
        else:
            o.status = 'discharged'
    return obls, problems


def write_replay(prop, failed, results, found):
    os.makedirs(REPLAY_DIR, exist_ok=True)
    h = hashlib.sha1(('|'.join(sorted(o.id for o in failed))).encode()).hexdigest()[:10]
    path = os.path.join(REPLAY_DIR, '%s-%s.json' % (prop, h))
    by_unit = {r.unit: r for r in results}
    doc = {'property': prop, 'failed_obligations': [], 'failing_input': found, 'how_to_replay': './check %s --replay %s' % (prop, path)}
    for o in failed:
        if o.unit == 'search':
            doc['failed_obligations'].append({'id': o.id, 'function': o.fn, 'unit': 'bounded search harness (replays/search/verif_search.rs)', 'repo_location': o.where,
                                              'reason': o.detail, 'verifier_cmd': (getattr(o, 'counterexample', None) or {}).get('cmd', ''),
                                              'verifier_output': [o.detail], 'counterexample': getattr(o, 'counterexample', None)})
            if getattr(o, 'counterexample', None):
                doc['failing_input'] = dict(o.counterexample, source='bounded comparison with an oracle on small graphs against the real code')
            continue
        if o.unit == 'kani':
            doc['failed_obligations'].append({'id': o.id, 'function': o.fn, 'unit': 'kani harness (see /verif/kani)', 'repo_location': o.where,
                                              'reason': o.detail, 'verifier_cmd': 'cargo kani --harness %s (scratch copy of /repo with the harness appended)' % o.fn,
                                              'verifier_output': [o.detail], 'counterexample': getattr(o, 'counterexample', None)})
            if getattr(o, 'counterexample', None) and o.counterexample.get('replayed_against_real_function'):
                doc['failing_input'] = o.counterexample
            continue
        r = by_unit[o.unit]
        rendered = [e['rendered'] for e in r.errors if e['fn'] == o.fn][:6]
        doc['failed_obligations'].append({'id': o.id, 'function': o.fn, 'unit': o.unit, 'repo_location': o.where,
                                          'reason': o.detail, 'verifier_cmd': r.cmd, 'verifier_output': rendered})
    json.dump(doc, open(path, 'w'), indent=1)
    return path


def main(argv):
    import argparse
    ap = argparse.ArgumentParser()
    ap.add_argument('prop')
    ap.add_argument('--tier', default=os.environ.get('VERIF_TIER', 'quick'))
    ap.add_argument('--replay', default=None)
    ap.add_argument('--keep', action='store_true')
    args = ap.parse_args(argv)
    prop = args.prop
    tier = args.tier if args.tier in ('quick', 'thorough') else 'quick'
    seed = int(os.environ.get('VERIF_SEED', '0') or 0)
    t0 = time.time()
    if args.replay:
        from . import replay
        return replay.rerun(prop, args.replay)
    units = units_for(prop)
    if not units:
        print('no unit carries obligations for %s (property not claimed)' % prop)
        return 2
    work = tempfile.mkdtemp(prefix='verif_%s_' % prop)
    try:
        return run(prop, tier, seed, units, work, t0)
    finally:
        if not args.keep:
            shutil.rmtree(work, ignore_errors=True)


def run(prop, tier, seed, units, work, t0):
    from . import thorough as thorough_mod
    known = load_known()
    deps = []
    for u in units:
        for d in depends_of(u):
            if d not in units and d not in deps:
                deps.append(d)
    allu = units + deps
    nthreads = max(2, 16 // max(1, len(allu)))
    with concurrent.futures.ThreadPoolExecutor(max_workers=len(allu)) as ex:
        futs = [ex.submit(verus.run_unit, u, REPO, os.path.join(work, os.path.basename(u)[:-3]), 60, None, None, nthreads) for u in allu]
        allres = [f.result() for f in futs]
    results = allres[:len(units)]
    depres = allres[len(units):]
    inconclusive = [r for r in results if r.status == 'inconclusive']
    obls, problems = collect(prop, results)
    for r in results:
        for why in getattr(r, 'partial', []):
            problems.append('unit %s: %s' % (r.unit, why))
    for r in depres:
        # contracts assumed here (include-assumed) are discharged in the unit they come from
        if r.status != 'ok':
            problems.append('assumed contracts come from unit %s, which is %s there (%s); reported under its own properties'
                            % (r.unit, r.status, (r.reason or '; '.join(e['message'] + ' in ' + str(e['fn']) for e in r.errors[:3]))[:300]))
    extra = {}
    kani_results = []
    # the Kani leaf lemmas do not depend on the Verus units: a definite failure there is reported even when a unit is inconclusive
    try:
        kani_results = thorough_mod.kani_lemmas(prop, tier, work)
    except Exception as e:  # kani infrastructure trouble is never an alarm
        problems.append('kani lemma run failed: %s' % e)
    try:
        kani_results = list(kani_results) + thorough_mod.bounded_search(prop, tier, work)
    except Exception as e:  # search infrastructure trouble is never an alarm
        problems.append('bounded search failed to run: %s' % e)
    if not inconclusive:
        if tier == 'thorough':
            extra = thorough_mod.run_thorough(prop, units, results, work)
            problems += extra.pop('problems', [])
    for k in kani_results:
        is_search = str(k['harness']).startswith('verif_search')
        o = Obligation(k['id'], 'search' if is_search else 'kani', k['harness'], ('search-' if is_search else 'kani-') + k['strength'], k['where'])
        o.backend = 'search_bounded' if is_search else ('kani_complete' if k['strength'] == 'complete' else 'kani_bounded')
        o.status = k['status']
        o.detail = k.get('detail', '')
        o.counterexample = k.get('counterexample')
        obls.append(o)
    failed = [o for o in obls if o.status == 'failed']
    open_known = {(k['property'], k['obligation']): k for k in known.get('open', [])}
    known_hits = [o for o in failed if (prop, o.id) in open_known]
    new_fail = [o for o in failed if (prop, o.id) not in open_known]
    unknown = [o for o in obls if o.status == 'unknown']
    # ---------- evidence
    counted = [o for o in obls if not o.backend.endswith('_bounded')]
    bounded = [o for o in obls if o.backend.endswith('_bounded')]
    trusted = []
    for r in results:
        for t in r.trusted:
            if t not in trusted:
                trusted.append(t)
    fn_under = []
    extraction = {'files': {}, 'items': [], 'rewrites': [], 'splices': 0, 'templates': []}
    solver_ms = 0
    for r in results:
        solver_ms += r.smt_ms
        if r.gen:
            for name, f in r.gen.functions.items():
                fr = r.functions.get(f['name'], {})
                fn_under.append({'function': name, 'file': f['file'], 'lines': f['repo_lines'], 'unit': r.unit,
                                 'verified': bool(fr.get('success')) and not [e for e in r.errors if e['fn'] == name],
                                 'smt_time_us': fr.get('time_us'), 'rlimit': fr.get('rlimit'), 'serves': f['props']})
            extraction['files'].update(r.gen.files)
            extraction['items'] += r.gen.items
            extraction['rewrites'] += r.gen.rewrites
            extraction['splices'] += len(r.gen.splices)
            extraction['templates'] += getattr(r.gen, 'template_files', [])
    cmds = [r.cmd for r in results if r.cmd]
    by_backend = {}
    for o in obls:
        if o.status == 'discharged':
            by_backend[o.backend] = by_backend.get(o.backend, 0) + 1
    cov = {
        'obligations': len(counted),
        'discharged': len([o for o in counted if o.status == 'discharged']),
        'checker_cmd': ' ; '.join(c.replace(work, '<scratch>') for c in cmds) or 'verus <unit>.rs',
        'trusted_base': ['verus 0.2026.09.13 + z3 (bundled)', 'rustc 1.98.1', 'vstd std specifications'] + trusted + meta_for(prop).get('assumed', []),
        'samples': [{'obligation': o.id, 'function': o.fn, 'kind': o.kind, 'backend': o.backend, 'status': o.status, 'repo': o.where}
                    for o in obls][:60],
        'by_backend': by_backend,
        'bounded_standins': [{'obligation': o.id, 'status': o.status, 'detail': o.detail, 'where': o.where} for o in bounded],
        'functions_under_contract': fn_under,
        'solver_time_s': round(solver_ms / 1000.0, 3),
        'unit_wall_s': {r.unit: round(r.wall_s, 2) for r in results},
        'assumed_contracts': [dict(a, unit=r.unit) for r in results if r.gen for a in r.gen.assumed_contracts],
        'dependency_units': {r.unit: r.status for r in depres},
        'anchors_matched_approximately': [dict(a, unit=r.unit) for r in results if r.gen for a in getattr(r.gen, 'approx_anchors', [])],
        'solver_retries': [x for r in results for x in ([getattr(r, 'retried', None)] + [v.get('retried') for v in (getattr(r, 'variants', None) or {}).values()]) if x],
        'extraction': extraction,
        'not_decided': meta_for(prop).get('not_decided', []),
        'known_findings_open': [k for k in known.get('open', []) if k['property'] == prop],
        'failed': [{'obligation': o.id, 'detail': o.detail} for o in failed],
        'inconclusive': [{'unit': r.unit, 'reason': r.reason} for r in inconclusive] + problems,
    }
    cov.update(extra)
    evid = {
        'property_id': prop, 'tier': tier, 'seed': seed, 'level': 'proof', 'coverage': cov,
        'assumptions': meta_for(prop).get('assumptions', []),
        'wall_s': round(time.time() - t0, 2), 'violations': len(new_fail),
    }
    os.makedirs(EVID_DIR, exist_ok=True)
    json.dump(evid, open(os.path.join(EVID_DIR, prop + '.json'), 'w'), indent=1)
    # ---------- verdict
    for r in results:
        print('[%s] unit %s: %s %s (%.1fs, %d fns)' % (prop, r.unit, r.status, r.reason[:300], r.wall_s, len(r.functions)))
    print('[%s] obligations=%d discharged=%d failed=%d bounded-standins=%d solver=%.1fs' % (
        prop, len(counted), cov['discharged'], len(failed), len(bounded), solver_ms / 1000.0))
    for o in known_hits:
        print('KNOWN-FINDING: property=%s %s %s' % (prop, o.id, open_known[(prop, o.id)].get('what', o.detail)))
    if new_fail:
        from . import replay
        found = None
        try:
            found = replay.search(prop, new_fail, work)
        except Exception as e:
            print('[%s] replay search did not run: %s' % (prop, e))
        if not found:
            for o in new_fail:
                c = getattr(o, 'counterexample', None)
                if c and c.get('replayed_against_real_function'):
                    found = c
        path = write_replay(prop, new_fail, results, found)
        for o in new_fail:
            print('[%s] FAILED obligation %s in %s (%s): %s' % (prop, o.id, o.fn, o.where, o.detail))
        tail = '' if found else ' no-failing-input-found'
        print('VIOLATION property=%s replay=%s%s' % (prop, path, tail))
        return 1
    if inconclusive or unknown or problems:
        for p in problems:
            print('[%s] inconclusive: %s' % (prop, p))
        print('[%s] INCONCLUSIVE (no verdict): extraction / front-end / resource problem, see evidence' % prop)
        return 2
    if not counted:
        print('[%s] INCONCLUSIVE: zero obligations generated' % prop)
        return 2
    print('[%s] OK: all %d obligations discharged' % (prop, len(counted)))
    return 0


_META = None


def meta_for(prop):
    global _META
    if _META is None:
        p = os.path.join(ROOT, 'contracts', 'meta.json')
        _META = json.load(open(p)) if os.path.exists(p) else {}
    return _META.get(prop, {})


if __name__ == '__main__':
    sys.exit(main(sys.argv[1:]))
