"""Run Verus on a generated unit file and map its diagnostics back to obligations."""
import json
import os
import re
import subprocess
import time

from . import extract

VERUS = os.environ.get('VERIF_VERUS', 'verus')
TRUST_PAT = re.compile(r'\b(assume\s*\(|admit\s*\(|external_body|assume_specification|external_fn_specification|'
                       r'external_type_specification|axiom\s+fn|broadcast\s+axiom|verifier::external\b|exec_allows_no_decreases_clause)')


class UnitResult:
    def __init__(self, unit):
        self.unit = unit
        self.status = 'ok'          # ok | failed | inconclusive
        self.reason = ''
        self.gen = None
        self.functions = {}         # fn name -> {'success': bool, 'time_us': int, 'rlimit': int, 'mode': str}
        self.errors = []            # dicts: message, fn, labels, repo (file:line) or splice, rendered
        self.smt_ms = 0
        self.total_ms = 0
        self.wall_s = 0.0
        self.trusted = []           # trusted items found in generated text
        self.cmd = ''
        self.out_path = ''
        self.verified = 0
        self.n_errors = 0
        self.resource_fns = []
        self.partial = []          # reasons why some functions / variants are undecided although others are decided


def scan_trusted(gen):
    items = []
    text = gen.lines
    for i, ln in enumerate(text):
        code = ln.split('//')[0]
        if 'proved-by-cases' in ln or 'proved-in-unit' in ln:
            continue
        for m in TRUST_PAT.finditer(code):
            # name the item: look ahead for the next `fn name` / `struct name` / `type`
            name = ''
            for j in range(i, min(i + 8, len(text))):
                mm = re.search(r'\b(fn|struct|type)\s+([A-Za-z_][A-Za-z0-9_:<>]*)', text[j])
                if mm:
                    name = mm.group(2)
                    break
                mm = re.search(r'assume_specification\s*(<[^>]*>)?\s*\[\s*([^\]]+)\]', text[j])
                if mm:
                    name = mm.group(2).strip()
                    break
            kind = m.group(1).rstrip('( ').strip()
            items.append('%s %s' % (kind, name))
    # de-duplicate preserving order
    seen, out = set(), []
    for it in items:
        if it not in seen:
            seen.add(it)
            out.append(it)
    return out


def fn_of_outline(gen, line):
    for name, f in gen.functions.items():
        a, b = f['out_lines']
        if a <= line <= b:
            return name
    return None


TEMPLATE_FN = re.compile(r'\b(?:proof\s+|spec\s+|exec\s+|broadcast\s+|open\s+|closed\s+|pub\s+)*fn\s+([A-Za-z_][A-Za-z0-9_]*)')


def template_functions(gen):
    """hand-written (template) functions: name -> (first_out_line, last_out_line, labels)"""
    res = {}
    text = gen.text()
    masked = extract.mask_code(text)
    pending = []
    offs = 0
    line_starts = [0]
    for ln in gen.lines:
        offs += len(ln) + 1
        line_starts.append(offs)
    for i, ln in enumerate(gen.lines):
        if gen.origin[i].get('kind') != 'template':
            continue
        mm = extract.LABEL.search(ln)
        if mm and ln.strip().startswith('//') and not gen.origin[i].get('assumed'):
            pending += [x.strip() for x in mm.group(1).split(',')]
            continue
        code = masked[line_starts[i]:line_starts[i + 1]]
        m = TEMPLATE_FN.search(code)
        if m and ('proof fn' in code or re.search(r'^\s*(pub\s+)?(exec\s+)?fn\b', code)):
            name = m.group(1)
            try:
                op = extract.find_body_open(masked, line_starts[i] + m.end())
                cl = extract.match_brace(masked, op)
                last = text.count('\n', 0, cl) + 1
            except extract.ExtractError:
                last = i + 1
            res[name] = {'out_lines': [i + 1, last], 'labels': pending, 'kind': 'proof' if 'proof fn' in code else 'exec'}
            pending = []
        elif code.strip() and not code.strip().startswith('#'):
            if pending and not m:
                # label not followed by a fn: drop silently only for blank/attr lines
                pending = pending
    return res


def run_variant(template_path, repo_root, workdir, rlimit=60, extra_args=None, mutate=None, threads=8, variant='main'):
    """one Verus run of one variant; if the only trouble is a solver resource limit, the run is repeated once with a
    larger budget (more solver effort can only turn 'undecided' into 'verified' or into a definite error)"""
    res = _run_variant_once(template_path, repo_root, workdir, rlimit, extra_args, mutate, threads, variant)
    if res.status == 'inconclusive' and res.resource_fns and not [e for e in res.errors if not e.get('resource')]:
        return _retry_variant(res, template_path, repo_root, workdir, rlimit, extra_args, mutate, threads, variant)
    return res


def _retry_variant(res, template_path, repo_root, workdir, rlimit, extra_args, mutate, threads, variant):
    factor = int(os.environ.get('VERIF_RLIMIT_RETRY_FACTOR', '6'))
    if factor <= 1:
        return res
    m_rl = re.search(r'^//@ rlimit (\d+)', open(template_path).read(), re.M)
    base = max(rlimit, int(m_rl.group(1))) if m_rl else rlimit
    big = max(base + 60, min(base * factor, int(os.environ.get('VERIF_RLIMIT_RETRY_CAP', '360'))))
    res2 = _run_variant_once(template_path, repo_root, workdir, big, extra_args, mutate, threads, variant)
    res2.retried = 'solver resource limit at rlimit %d in %s; repeated with rlimit %d' % (base, ', '.join(res.resource_fns), big)
    res2.wall_s += res.wall_s
    return res2


def _run_variant_once(template_path, repo_root, workdir, rlimit=60, extra_args=None, mutate=None, threads=8, variant='main'):
    unit = os.path.splitext(os.path.basename(template_path))[0]
    res = UnitResult(unit)
    res.variant = variant
    t0 = time.time()
    try:
        gen = extract.instantiate(template_path, repo_root, variant)
    except extract.ExtractError as e:
        res.status, res.reason = 'inconclusive', 'extraction: %s' % e
        return res
    if mutate:
        gen = mutate(gen)
    res.gen = gen
    res.trusted = scan_trusted(gen)
    os.makedirs(workdir, exist_ok=True)
    out_path = os.path.join(workdir, unit + ('' if variant == 'main' else '__' + variant) + '.rs')
    with open(out_path, 'w') as f:
        f.write(gen.text())
    res.out_path = out_path
    m_rl = re.search(r'^//@ rlimit (\d+)', open(template_path).read(), re.M)
    if m_rl:
        rlimit = max(rlimit, int(m_rl.group(1)))
    cmd = [VERUS, out_path, '--output-json', '--time', '--multiple-errors', '5', '--rlimit', str(rlimit),
           '--error-format=json', '--num-threads', str(threads)] + (extra_args or [])
    res.cmd = ' '.join(cmd)
    env = dict(os.environ)
    try:
        p = subprocess.run(cmd, stdout=subprocess.PIPE, stderr=subprocess.PIPE, text=True, cwd=workdir,
                           timeout=int(os.environ.get('VERIF_VERUS_TIMEOUT', '900')), env=env)
    except subprocess.TimeoutExpired:
        res.status, res.reason = 'inconclusive', 'verus timeout'
        res.wall_s = time.time() - t0
        return res
    res.wall_s = time.time() - t0
    # --- stdout json
    data = None
    try:
        data = json.loads(p.stdout)
    except Exception:
        # sometimes non-json noise precedes
        k = p.stdout.find('{')
        try:
            data = json.loads(p.stdout[k:]) if k >= 0 else None
        except Exception:
            data = None
    diags = []
    for ln in p.stderr.split('\n'):
        ln = ln.strip()
        if ln.startswith('{'):
            try:
                d = json.loads(ln)
                if d.get('$message_type') == 'diagnostic':
                    diags.append(d)
            except Exception:
                pass
    errors = [d for d in diags if d.get('level') == 'error' and not d.get('message', '').startswith('aborting due')]
    if data is None:
        res.status = 'inconclusive'
        res.reason = 'verus produced no json (exit %d): %s' % (p.returncode, (p.stderr or p.stdout)[-600:])
        return res
    vr = data.get('verification-results', {})
    res.verified = vr.get('verified', 0)
    res.n_errors = vr.get('errors', 0)
    tm = data.get('times-ms', {})
    res.total_ms = tm.get('total', 0)
    smt = tm.get('smt', {})
    res.smt_ms = smt.get('smt-run', 0) + smt.get('smt-init', 0)
    for mod in smt.get('smt-run-module-times', []):
        for fb in mod.get('function-breakdown', []):
            full = fb['function']
            name = '::'.join(full.split('::')[1:])  # drop the crate (= unit) name
            ent = res.functions.setdefault(name, {'success': True, 'time_us': 0, 'rlimit': 0, 'mode': fb.get('mode:', ''), 'full': full})
            ent['success'] = ent['success'] and bool(fb.get('success'))
            ent['time_us'] += fb.get('time-micros', 0)
            ent['rlimit'] += fb.get('rlimit', 0)
    compile_error = vr.get('encountered-vir-error') or (vr.get('encountered-error') and not res.functions and errors)
    # classify diagnostics
    tfuncs = template_functions(gen)
    for d in errors:
        msg = d.get('message', '')
        spans = d.get('spans', [])
        ours = [s for s in spans if os.path.basename(s.get('file_name', '')) == os.path.basename(out_path)]
        prim = [s for s in ours if s.get('is_primary')] or ours
        e = {'message': msg, 'fn': None, 'labels': [], 'where': [], 'rendered': d.get('rendered', '')[:1500], 'aux': False}
        for s in ours:
            li = s['line_start']
            if (s.get('label') or '').startswith('at the end of the function body') or (s.get('label') or '').startswith('at this exit'):
                continue
            if 1 <= li <= len(gen.origin):
                o = gen.origin[li - 1]
                for lb in o.get('labels', []):
                    if lb not in e['labels']:
                        e['labels'].append(lb)
                if o.get('kind') == 'repo':
                    e['where'].append('%s:%d' % (o['file'], o['line']))
                elif o.get('kind') == 'splice':
                    e['where'].append('%s:%d(splice)' % (o['unit'], o['line']))
                else:
                    e['where'].append('%s:%d(template)' % (o.get('unit'), o.get('line', 0)))
        for s in prim:
            fn = fn_of_outline(gen, s['line_start'])
            if fn:
                e['fn'] = fn
                break
        if e['fn'] is None:
            for s in ours:
                fn = fn_of_outline(gen, s['line_start'])
                if fn:
                    e['fn'] = fn
                    break
        if e['fn'] is None:
            for s in ours:
                for name, tf in tfuncs.items():
                    if tf['out_lines'][0] <= s['line_start'] <= tf['out_lines'][1]:
                        e['fn'] = name
                        for lb in tf['labels']:
                            if lb not in e['labels']:
                                e['labels'].append(lb)
                        break
                if e['fn']:
                    break
        res.errors.append(e)
    RESOURCE = ('resource limit', 'rlimit', 'timed out', 'could not finish')
    COMPILE_HINT = ('cannot find', 'mismatched types', 'expected', 'unresolved', 'not supported', 'unsupported',
                    'no method named', 'no field', 'cannot be used', 'is not supported', 'The verifier does not yet support',
                    'borrow', 'trait bound', 'mode ', 'cannot call', 'syntax')
    for e in res.errors:
        if any(r in e['message'].lower() for r in RESOURCE):
            e['resource'] = True   # undecided for that function, never a failure
    res.resource_fns = sorted(set(str(e['fn']) for e in res.errors if e.get('resource')))
    if compile_error or (p.returncode != 0 and not res.functions):
        res.status = 'inconclusive'
        res.reason = 'verus front-end error (not a verification result): ' + '; '.join(
            (e['message'] + ' @ ' + ','.join(e['where'][:1])) for e in res.errors[:4]) or p.stderr[-400:]
        return res
    definite = [e for e in res.errors if not e.get('resource')]
    if definite:
        res.status = 'failed'
    elif res.resource_fns:
        res.status, res.reason = 'inconclusive', 'solver resource limit in ' + ', '.join(res.resource_fns)
    elif [n for n, f in res.functions.items() if not f['success']] or res.n_errors:
        res.status = 'failed'
    return res


def run_unit(template_path, repo_root, workdir, rlimit=60, extra_args=None, mutate=None, threads=8):
    """runs every variant of the unit (in parallel) and merges them into one UnitResult:
    a function counts as verified only if every variant that checks it verifies it"""
    import concurrent.futures
    names, vargs = extract.template_variants(template_path)
    if names == ['main'] and not vargs:
        return run_variant(template_path, repo_root, workdir, rlimit, extra_args, mutate, threads, 'main')
    t0 = time.time()
    with concurrent.futures.ThreadPoolExecutor(max_workers=len(names)) as ex:
        futs = [ex.submit(_run_variant_once, template_path, repo_root, workdir, rlimit,
                          (extra_args or []) + vargs.get(v, []), mutate, max(2, threads // 2), v) for v in names]
        parts = [f.result() for f in futs]
    # a variant whose only trouble is a solver resource limit is repeated with a larger budget - unless another variant
    # already reports a definite error in the same function (the verdict is settled then, more solver time changes nothing)
    definite_fns = set(str(e['fn']) for p in parts for e in p.errors if not e.get('resource'))
    redo = [i for i, p in enumerate(parts) if p.status == 'inconclusive' and p.resource_fns
            and not [e for e in p.errors if not e.get('resource')] and not (set(p.resource_fns) <= definite_fns)]
    if redo:
        with concurrent.futures.ThreadPoolExecutor(max_workers=len(redo)) as ex:
            futs = {i: ex.submit(_retry_variant, parts[i], template_path, repo_root, workdir, rlimit,
                                 (extra_args or []) + vargs.get(names[i], []), mutate, max(2, threads // 2), names[i]) for i in redo}
            for i, f in futs.items():
                parts[i] = f.result()
    main = parts[0]
    main.variants = {p.variant: {'status': p.status, 'reason': p.reason, 'wall_s': round(p.wall_s, 2), 'cmd': p.cmd,
                                 'functions': {k: v['success'] for k, v in p.functions.items()}, 'retried': getattr(p, 'retried', None)} for p in parts}
    main.cmd = ' ; '.join(p.cmd for p in parts if p.cmd)
    for p in parts[1:]:
        if p.status != 'inconclusive' and not p.functions:
            p.status, p.reason = 'inconclusive', 'variant verified no function'
        if p.status == 'inconclusive':
            main.partial.append('variant %s: %s' % (p.variant, p.reason))
            if p.gen is None or not p.functions:
                # extraction / front-end trouble: nothing of this variant can be used
                if main.status != 'inconclusive':
                    main.status, main.reason = 'inconclusive', 'variant %s: %s' % (p.variant, p.reason)
                continue
        for fn_ in p.resource_fns:
            if fn_ not in main.resource_fns:
                main.resource_fns.append(fn_)
        for k, v in p.functions.items():
            ent = main.functions.get(k)
            if ent is None:
                main.functions[k] = dict(v)
            else:
                ent['success'] = ent['success'] and v['success']
                ent['time_us'] += v['time_us']
                ent['rlimit'] += v['rlimit']
        for e in p.errors:
            e = dict(e)
            e['message'] = '[case %s] %s' % (p.variant, e['message'])
            main.errors.append(e)
        main.smt_ms += p.smt_ms
        if p.status == 'failed' and main.status == 'ok':
            main.status = 'failed'
        for t in p.trusted:
            if t not in main.trusted:
                main.trusted.append(t)
    main.wall_s = time.time() - t0
    return main
