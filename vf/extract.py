"""Mechanical extraction of real graphrs items into Verus unit files.

A *unit template* (contracts/units/<name>.rs) is a Verus source file containing directive
lines that start with `//@`.  Everything that is not inside an `//@ extract ... //@ end`
block is copied to the output as is (prelude, spec functions, lemmas, impl headers).

    //@ extract fn <repo-relative file> <name> [nth=<k>] [props=C01,C03] [keep_vis]
    //@ rewrite [count=<n>]          (E5: exact-match substitution of executable text)
    <before text>
    //@ with
    <after text>
    //@ spec                          (E4: inserted between the signature and the body `{`)
    <requires/ensures/decreases lines, `// [Cxx.label]` comment lines label what follows>
    //@ loop <n>                      (E4: inserted before the `{` of the n-th loop, 1-based)
    <invariant/decreases lines>
    //@ before <anchor text>          (E4: inserted before the line containing the anchor)
    <proof { ... } lines>
    //@ after <anchor text>           (E4: inserted after the line containing the anchor)
    //@ endloop <n>                   (E4: inserted after the line that closes the body of the n-th loop)
    //@ bodyend <n>                   (E4: inserted as the last thing inside the body of the n-th loop)
    //@ tail                          (E4: inserted before the closing `}` of the body)
    //@ body                          (E4: inserted right after the opening `{` of the body)
    //@ end

    //@ extract struct|enum <file> <name> [attrs=<text>] [pubfields]
    //@ end

What extraction does to the repository text (closed list, see DESIGN.md 2.1):
  E1 the item is located with a small lexer and copied byte for byte;
  E2 leading doc comments / attributes of the item are dropped (attrs= re-adds stated ones);
  E3 struct fields are widened to `pub` when `pubfields` is given;
  E4 splices only add text;  E5 rewrites must match exactly `count` times (default 1).
  E6 the generator re-assembles the source from its segment list and compares it with the
     repository text (round trip).
Any failure raises ExtractError -> the check is inconclusive (exit 2), never an alarm.
"""
import hashlib
import os
import re


class ExtractError(Exception):
    pass


# ---------------------------------------------------------------- lexer ------

def mask_code(src):
    """Return a string of the same length where comments, string literals and char literals
    are replaced by spaces (newlines kept).  Lifetimes ('a) are left alone."""
    out = list(src)
    i, n = 0, len(src)

    def blank(a, b):
        for k in range(a, b):
            if out[k] != '\n':
                out[k] = ' '

    while i < n:
        c = src[i]
        if src.startswith('//', i):
            j = src.find('\n', i)
            j = n if j < 0 else j
            blank(i, j)
            i = j
        elif src.startswith('/*', i):
            depth, j = 1, i + 2
            while j < n and depth:
                if src.startswith('/*', j):
                    depth += 1
                    j += 2
                elif src.startswith('*/', j):
                    depth -= 1
                    j += 2
                else:
                    j += 1
            blank(i, j)
            i = j
        elif c == '"' or (c in 'rb' and re.match(r'(b?r#*"|b")', src[i:i + 8]) and
                          (i == 0 or not (src[i - 1].isalnum() or src[i - 1] == '_'))):
            m = re.match(r'b?r(#*)"', src[i:])
            if m:
                hashes = m.group(1)
                end = src.find('"' + hashes, i + m.end())
                j = n if end < 0 else end + 1 + len(hashes)
            else:
                j = i + (2 if c == 'b' else 1)
                while j < n and src[j] != '"':
                    j += 2 if src[j] == '\\' else 1
                j += 1
            blank(i + 1, j - 1)  # keep the quotes so that literals stay visible as tokens
            i = j
        elif c == "'":
            m = re.match(r"'(\\.[^']*|[^'\\])'", src[i:])
            if m:
                blank(i + 1, i + m.end() - 1)
                i += m.end()
            else:
                i += 1  # lifetime
        else:
            i += 1
    return ''.join(out)


def match_brace(masked, open_idx):
    assert masked[open_idx] == '{'
    depth = 0
    for k in range(open_idx, len(masked)):
        ch = masked[k]
        if ch == '{':
            depth += 1
        elif ch == '}':
            depth -= 1
            if depth == 0:
                return k
    raise ExtractError('unbalanced braces')


def find_body_open(masked, start):
    """first `{` at paren/bracket depth 0 after start"""
    depth = 0
    for k in range(start, len(masked)):
        ch = masked[k]
        if ch in '([':
            depth += 1
        elif ch in ')]':
            depth -= 1
        elif ch == '{' and depth == 0:
            return k
        elif ch == ';' and depth == 0:
            raise ExtractError('item has no body')
    raise ExtractError('no body found')


def line_of(src, idx):
    return src.count('\n', 0, idx) + 1


def line_start(src, idx):
    k = src.rfind('\n', 0, idx)
    return k + 1


# ------------------------------------------------------------ item lookup ----

def locate_item(src, masked, kind, name, nth=1):
    if kind == 'fn':
        pat = re.compile(r'\bfn\s+' + re.escape(name) + r'\b')
    elif kind in ('struct', 'enum'):
        pat = re.compile(r'\b' + kind + r'\s+' + re.escape(name) + r'\b')
    elif kind == 'const' or kind == 'static':
        pat = re.compile(r'\b' + kind + r'\s+' + re.escape(name) + r'\b')
    else:
        raise ExtractError('unknown kind ' + kind)
    hits = [m for m in pat.finditer(masked)]
    # ignore hits inside #[cfg(test)] mod tests { ... }
    tests = re.search(r'#\[cfg\(test\)\]\s*mod\s+\w+\s*\{', masked)
    if tests:
        t_open = tests.end() - 1
        t_close = match_brace(masked, t_open)
        hits = [m for m in hits if not (t_open < m.start() < t_close)]
    if len(hits) < nth:
        raise ExtractError('lost anchor: %s %s (occurrence %d) not found' % (kind, name, nth))
    m = hits[nth - 1]
    start = line_start(src, m.start())
    if kind in ('const', 'static'):
        end = masked.index(';', m.end()) + 1
        return start, end, None
    body_open = find_body_open(masked, m.end())
    body_close = match_brace(masked, body_open)
    return start, body_close + 1, body_open


def ws_pattern(text):
    """regex that matches `text` up to the amount of whitespace between its tokens (a reformatted repository still matches)"""
    chunks = text.split()
    if not chunks:
        return re.compile(re.escape(text))
    out = re.escape(chunks[0])
    for prev, c in zip(chunks, chunks[1:]):
        # between two identifier characters whitespace is mandatory, next to punctuation it is optional
        wordy = (prev[-1].isalnum() or prev[-1] == '_') and (c[0].isalnum() or c[0] == '_')
        out += (r'\s+' if wordy else r'\s*') + re.escape(c)
    return re.compile(out)


LOOP_KW = re.compile(r'\b(while|for|loop)\b')


def loop_heads(masked_fn, body_open):
    """positions of the `{` that opens each loop body, in source order"""
    res = []
    for m in LOOP_KW.finditer(masked_fn, body_open):
        # `for` inside `impl ... for` or HRTB cannot occur inside a fn body we extract
        try:
            res.append(find_body_open(masked_fn, m.end()))
        except ExtractError:
            continue
    return res


# ------------------------------------------------------------- templates -----

class Block:
    def __init__(self, kind, arg, lineno):
        self.kind, self.arg, self.lineno = kind, arg, lineno
        self.lines = []
        self.with_lines = None  # for rewrite

    def text(self):
        return '\n'.join(self.lines)


class Extract:
    def __init__(self, kind, file, name, opts, lineno):
        self.kind, self.file, self.name, self.opts, self.lineno = kind, file, name, opts, lineno
        self.blocks = []


def parse_opts(tokens):
    opts = {}
    for t in tokens:
        if '=' in t:
            k, v = t.split('=', 1)
            opts[k] = v
        else:
            opts[t] = True
    return opts


LABEL = re.compile(r'//\s*\[([A-Za-z0-9_.\-]+(?:\s*,\s*[A-Za-z0-9_.\-]+)*)\]')


class Generated:
    """result of instantiating a unit template"""

    def __init__(self):
        self.lines = []          # output lines
        self.origin = []         # per output line: dict
        self.functions = {}      # fn name -> dict(file, first_line, last_line, props, out_first, out_last)
        self.labels = {}         # label -> dict(fn, out_lines:[...])
        self.rewrites = []       # dicts
        self.approx_anchors = []  # anchors matched approximately (the anchored line was edited)
        self.splices = []        # dicts
        self.items = []          # dicts (file, kind, name, repo_lines, sha256)
        self.files = {}          # file -> sha256
        self.assumed_contracts = []

    def add(self, text, origin):
        for ln in text.split('\n'):
            self.lines.append(ln)
            self.origin.append(origin)

    def text(self):
        return '\n'.join(self.lines) + '\n'


def clean_struct(text, pubfields):
    if not pubfields:
        return text
    masked = mask_code(text)
    op = masked.index('{')
    cl = match_brace(masked, op)
    body = text[op + 1:cl]
    out = []
    for ln in body.split('\n'):
        s = ln.strip()
        if s.startswith('///') or s.startswith('//'):
            continue
        m = re.match(r'^(\s*)(pub(\([a-z]+\))?\s+)?([A-Za-z_][A-Za-z0-9_]*\s*:.*)$', ln)
        if m:
            out.append(m.group(1) + 'pub ' + m.group(4))
        else:
            out.append(ln)
    return text[:op + 1] + '\n'.join(out) + text[cl:]


def template_variants(template_path):
    """`//@ variants a b c` declares that the unit is instantiated once per name; `//@ variant-args <name> <verus args>`
    gives extra verus arguments for one variant.  Lines between `//@ if <names>` and `//@ fi` are kept only in those variants."""
    names, vargs = ['main'], {}
    for ln in open(template_path).read().split('\n'):
        t = ln.strip()
        if t.startswith('//@ variants '):
            names = t.split()[2:]
        elif t.startswith('//@ variant-args '):
            parts = t.split()
            vargs[parts[2]] = parts[3:]
    return names, vargs


def load_template(template_path, depth=0, variant='main', assumed=False):
    """returns list of (text, unit, lineno); `//@ include <file>` is expanded in place
    (path relative to the contracts/ directory, i.e. the parent of units/)"""
    if depth > 5:
        raise ExtractError('include depth')
    unit = os.path.basename(template_path)
    out = []
    base = os.path.dirname(os.path.abspath(template_path))
    croot = base if os.path.basename(base) != 'units' else os.path.dirname(base)
    keep = True
    for i, ln in enumerate(open(template_path).read().split('\n')):
        s = ln.strip()
        if s.startswith('//@ if '):
            keep = variant in s.split()[2:]
            continue
        if s == '//@ fi':
            keep = True
            continue
        if s.startswith('//@ variants') or s.startswith('//@ variant-args'):
            continue
        if not keep:
            continue
        if s.startswith('//@') and s[3:].strip().startswith('include '):
            inc = s[3:].strip().split()[1]
            out += load_template(os.path.join(croot, inc), depth + 1, variant, assumed)
        elif s.startswith('//@') and s[3:].strip().startswith('include-assumed '):
            # the functions of that file keep their contracts but are not verified in this unit
            # (#[verifier::external_body]); they are verified in the unit named after the file name
            toks = s[3:].strip().split()
            out += load_template(os.path.join(croot, toks[1]), depth + 1, variant, toks[2] if len(toks) > 2 else True)
        else:
            out.append((ln, unit, i + 1, assumed))
    return out


def instantiate(template_path, repo_root, variant='main'):
    tl = load_template(template_path, 0, variant)
    tlines = [t[0] for t in tl]
    gen = Generated()
    gen.template_files = sorted(set(t[1] for t in tl))
    unit = os.path.basename(template_path)
    i = 0
    cur = None
    blk = None
    in_with = False
    while i < len(tlines):
        ln = tlines[i]
        s = ln.strip()
        if s.startswith('//@'):
            toks = s[3:].strip().split()
            cmd = toks[0] if toks else ''
            if cmd == 'extract':
                if cur is not None:
                    raise ExtractError('%s:%d nested extract' % (unit, tl[i][2]))
                kind, file, name = toks[1], toks[2], toks[3]
                cur = Extract(kind, file, name, parse_opts(toks[4:]), tl[i][2])
                cur.unit = tl[i][1]
                cur.assumed = tl[i][3]
                blk = None
            elif cmd == 'end':
                if cur is None:
                    raise ExtractError('%s:%d stray end' % (unit, tl[i][2]))
                emit_extract(gen, cur, repo_root, cur.unit)
                cur, blk, in_with = None, None, False
            elif cmd in ('spec', 'loop', 'endloop', 'bodyend', 'before', 'after', 'tail', 'rewrite', 'head', 'body'):
                if cur is None:
                    raise ExtractError('%s:%d directive outside extract' % (unit, tl[i][2]))
                arg = s[3:].strip()[len(cmd):].strip()
                blk = Block(cmd, arg, tl[i][2])
                cur.blocks.append(blk)
                in_with = False
            elif cmd == 'with':
                if blk is None or blk.kind != 'rewrite':
                    raise ExtractError('%s:%d with outside rewrite' % (unit, tl[i][2]))
                blk.with_lines = []
                in_with = True
            elif cmd in ('unit', 'rlimit', 'depends') or cmd == '':
                pass
            else:
                raise ExtractError('%s:%d unknown directive %s' % (unit, tl[i][2], cmd))
        else:
            if cur is None:
                gen.add(ln, {'kind': 'template', 'unit': tl[i][1], 'line': tl[i][2], 'assumed': bool(tl[i][3])})
            elif blk is not None:
                if in_with:
                    blk.with_lines.append(ln)
                else:
                    blk.lines.append(ln)
            elif s:
                raise ExtractError('%s:%d text inside extract but outside a block' % (unit, tl[i][2]))
        i += 1
    if cur is not None:
        raise ExtractError('%s: unterminated extract' % unit)
    return gen


def emit_extract(gen, ex, repo_root, unit):
    path = os.path.join(repo_root, ex.file)
    if not os.path.exists(path):
        raise ExtractError('lost anchor: file %s missing' % ex.file)
    src = open(path).read()
    gen.files[ex.file] = hashlib.sha256(src.encode()).hexdigest()
    masked = mask_code(src)
    nth = int(ex.opts.get('nth', 1))
    start, end, body_open = locate_item(src, masked, ex.kind, ex.name, nth)
    item = src[start:end]
    first_line = line_of(src, start)
    last_line = line_of(src, end - 1)
    gen.items.append({'file': ex.file, 'kind': ex.kind, 'name': ex.name,
                      'repo_lines': [first_line, last_line],
                      'sha256': hashlib.sha256(item.encode()).hexdigest()})
    if ex.kind in ('struct', 'enum', 'const', 'static'):
        text = item
        if ex.kind == 'struct':
            text = clean_struct(text, ex.opts.get('pubfields'))
        for b in ex.blocks:
            if b.kind == 'head':
                gen.add(b.text(), {'kind': 'splice', 'unit': unit, 'line': b.lineno})
            elif b.kind == 'rewrite':
                before, after = b.text(), '\n'.join(b.with_lines or [])
                cnt = int(parse_opts(b.arg.split()).get('count', 1))
                if text.count(before) != cnt:
                    raise ExtractError('rewrite at %s:%d matches %d times (expected %d) in %s %s'
                                       % (unit, b.lineno, text.count(before), cnt, ex.kind, ex.name))
                text = text.replace(before, after)
                gen.rewrites.append({'item': ex.name, 'before': before, 'after': after, 'count': cnt})
            else:
                raise ExtractError('%s:%d only head/rewrite allowed for %s' % (unit, b.lineno, ex.kind))
        gen.add(text, {'kind': 'repo', 'file': ex.file, 'line': first_line, 'approx': True})
        return

    # ---- fn ----
    bodyless = bool(ex.opts.get('nobody') or getattr(ex, 'assumed', False))
    if bodyless:
        # E8: a function that is only *assumed* (external_body) keeps its signature; the body is not copied, so that edits
        # inside it can neither be seen nor break the build of the unit
        item = item[:body_open - start] + '{ unimplemented!() }'
        end = start + len(item)
    assumed = getattr(ex, 'assumed', False)
    if assumed:
        b0 = Block('head', '', ex.lineno)
        b0.lines = ['    #[verifier::external_body] // proved-in-unit: %s' % (assumed if isinstance(assumed, str) else 'u_graph')]
        ex.blocks = [b0] + ex.blocks
        gen.assumed_contracts.append({'function': ex.name, 'file': ex.file, 'proved_in': assumed if isinstance(assumed, str) else 'u_graph'})
    m_item = masked[start:end]
    rel_open = body_open - start
    # segments: list of [pos_in_item, kind, text, meta]; we collect insertions and replacements
    inserts = []   # (pos, order, text, meta)
    replaces = []  # (pos, endpos, before, after)
    heads = None
    for order, b in enumerate(ex.blocks):
        if b.kind == 'rewrite':
            before, after = b.text(), '\n'.join(b.with_lines or [])
            cnt_opt = parse_opts(b.arg.split()).get('count', 1)
            found = [m for m in ws_pattern(before).finditer(item)]
            if cnt_opt == 'opt' and len(found) <= 1:
                # an optional rewrite: applied when its text is present, skipped when the repository no longer has that construct
                if not found:
                    continue
                cnt = 1
            else:
                cnt = len(found) if (cnt_opt == 'any' and found) else (-1 if cnt_opt in ('any', 'opt') else int(cnt_opt))
            occ = [m.start() for m in found]
            if bodyless and len(occ) == 0:
                continue  # a rewrite of body text: the body of an assumed function is not copied
            if len(occ) != cnt:
                raise ExtractError('rewrite at %s:%d matches %d times (expected %d) in fn %s: %r'
                                   % (unit, b.lineno, len(occ), cnt, ex.name, before[:60]))
            for m in found:
                replaces.append((m.start(), m.end(), m.group(0), after) + (('any',) if cnt_opt == 'any' else ()))
            gen.rewrites.append({'item': ex.name, 'before': before, 'after': after, 'count': cnt,
                                 'at': '%s:%d' % (ex.file, line_of(src, start + occ[0]))})
        elif bodyless and b.kind in ('loop', 'endloop', 'bodyend', 'before', 'after', 'tail', 'body'):
            continue  # proof splices are meaningless in an unverified body
        elif b.kind == 'spec':
            # before the body `{`, after the where clause
            inserts.append((rel_open, order, '\n' + b.text() + '\n', b))
        elif b.kind == 'loop':
            if heads is None:
                heads = loop_heads(m_item, rel_open + 1)
            k = int(b.arg.split()[0])
            if k < 1 or k > len(heads):
                raise ExtractError('lost anchor: loop %d of fn %s (%d loops found)' % (k, ex.name, len(heads)))
            inserts.append((heads[k - 1], order, '\n' + b.text() + '\n', b))
        elif b.kind == 'bodyend':
            # last thing inside the body of the n-th loop (before the line of its closing brace)
            if heads is None:
                heads = loop_heads(m_item, rel_open + 1)
            k = int(b.arg.split()[0])
            if k < 1 or k > len(heads):
                raise ExtractError('lost anchor: loop %d of fn %s (%d loops found)' % (k, ex.name, len(heads)))
            close = match_brace(m_item, heads[k - 1])
            pos = item.rfind('\n', 0, close) + 1
            inserts.append((pos, order, b.text() + '\n', b))
        elif b.kind == 'endloop':
            # right after the `}` that closes the body of the n-th loop (still inside the enclosing block)
            if heads is None:
                heads = loop_heads(m_item, rel_open + 1)
            k = int(b.arg.split()[0])
            if k < 1 or k > len(heads):
                raise ExtractError('lost anchor: loop %d of fn %s (%d loops found)' % (k, ex.name, len(heads)))
            close = match_brace(m_item, heads[k - 1])
            pos = item.find('\n', close)
            pos = len(item) if pos < 0 else pos + 1
            inserts.append((pos, order, b.text() + '\n', b))
        elif b.kind in ('before', 'after'):
            anchor = b.arg
            nth_a = 1
            ma = re.match(r'^#(\d+)\s+(.*)$', anchor)
            if ma:
                nth_a, anchor = int(ma.group(1)), ma.group(2)
            if anchor.startswith('='):
                # exact-line anchor: a line of the function whose stripped text equals the anchor
                want = anchor[1:].strip()
                occ, off = [], 0
                for ln_ in item.split('\n'):
                    if ln_.strip() == want:
                        occ.append(off + (len(ln_) - len(ln_.lstrip())))
                    off += len(ln_) + 1
            else:
                occ = [m.start() for m in ws_pattern(anchor).finditer(item)]
            if ma is None and len(occ) == 0 and not anchor.startswith('='):
                # the anchored line was edited: fall back to the one line of the function that is clearly the closest to the
                # anchor text (similarity >= 0.72 and well ahead of the runner-up); recorded in gen.approx_anchors
                import difflib
                norm = lambda t: ' '.join(t.split())
                cands, off = [], 0
                for ln_ in item.split('\n'):
                    if ln_.strip():
                        cands.append((difflib.SequenceMatcher(None, norm(anchor), norm(ln_)).ratio(), off + (len(ln_) - len(ln_.lstrip())), ln_.strip()))
                    off += len(ln_) + 1
                cands.sort(reverse=True)
                if cands and cands[0][0] >= 0.72 and (len(cands) == 1 or cands[0][0] - cands[1][0] >= 0.12):
                    occ = [cands[0][1]]
                    gen.approx_anchors.append({'item': ex.name, 'anchor': anchor, 'matched': cands[0][2], 'similarity': round(cands[0][0], 2),
                                               'at': '%s:%d' % (unit, b.lineno)})
            if ma is None and len(occ) != 1:
                raise ExtractError('lost anchor: %r occurs %d times in fn %s (%s:%d)'
                                   % (anchor, len(occ), ex.name, unit, b.lineno))
            if len(occ) < nth_a:
                raise ExtractError('lost anchor: %r occurrence %d in fn %s' % (anchor, nth_a, ex.name))
            p = occ[nth_a - 1]
            if b.kind == 'before':
                pos = item.rfind('\n', 0, p) + 1
                inserts.append((pos, order, b.text() + '\n', b))
            else:
                pos = item.find('\n', p)
                pos = len(item) if pos < 0 else pos + 1
                inserts.append((pos, order, b.text() + '\n', b))
        elif b.kind == 'tail':
            pos = item.rfind('\n', 0, len(item) - 1) + 1
            inserts.append((pos, order, b.text() + '\n', b))
        elif b.kind == 'head':
            inserts.append((0, order, b.text() + '\n', b))
        elif b.kind == 'body':
            # right after the `{` that opens the function body
            inserts.append((rel_open + 1, order, '\n' + b.text(), b))
    if not bodyless:
        # marker right after the opening brace of the body (used by the vacuity canaries of the thorough tier)
        mk = Block('body', '', ex.lineno)
        inserts.append((rel_open + 1, -1, '/*@BODY:%s@*/' % ex.name, mk))
    # an occurrence of a `count=any` rewrite that lies inside the range of a specific rewrite belongs to that rewrite
    specific = [r_ for r_ in replaces if len(r_) == 4]
    replaces = specific + [r_[:4] for r_ in replaces if len(r_) == 5 and not any(q[0] <= r_[0] and r_[1] <= q[1] for q in specific)]
    # no insert may fall inside a replaced range
    for (p, q, _, _) in replaces:
        for (pos, _, _, b) in inserts:
            if p < pos < q:
                raise ExtractError('splice at %s:%d falls inside a rewrite' % (unit, b.lineno))
    replaces.sort()
    for a, b2 in zip(replaces, replaces[1:]):
        if a[1] > b2[0]:
            raise ExtractError('overlapping rewrites in fn %s' % ex.name)
    # build the segment list
    events = [(p, 0, o, ('ins', t, b)) for (p, o, t, b) in inserts] + \
             [(p, 1, 0, ('rep', q, bf, af)) for (p, q, bf, af) in replaces]
    events.sort(key=lambda e: (e[0], e[1], e[2]))
    segs = []  # (kind, text, src_offset or None, meta)
    cur = 0
    for (p, _, _, ev) in events:
        if p < cur:
            raise ExtractError('internal: overlapping edits in fn %s' % ex.name)
        if p > cur:
            segs.append(('src', item[cur:p], cur, None))
            cur = p
        if ev[0] == 'ins':
            segs.append(('ins', ev[1], None, ev[2]))
        else:
            segs.append(('rep', ev[3], cur, ev[2]))
            cur = ev[1]
    if cur < len(item):
        segs.append(('src', item[cur:], cur, None))
    # E6 round trip
    back = ''.join(t if k == 'src' else (m if k == 'rep' else '') for (k, t, _, m) in segs)
    if back != item:
        raise ExtractError('round-trip mismatch for fn %s' % ex.name)
    # emit with source map
    out_first = len(gen.lines)
    props = [p for p in str(ex.opts.get('props', '')).split(',') if p] if not getattr(ex, 'assumed', False) else []
    buf_line = ''
    buf_repo = None     # origin of the first non-blank repo text on the current output line
    buf_splice = None   # origin of the first non-blank splice text on the current output line
    buf_any = None

    def flush():
        nonlocal buf_line, buf_repo, buf_splice, buf_any
        gen.lines.append(buf_line)
        gen.origin.append(buf_splice or buf_repo or buf_any or
                          {'kind': 'repo', 'file': ex.file, 'line': first_line, 'fn': ex.name})
        buf_line, buf_repo, buf_splice, buf_any = '', None, None, None

    for (k, t, off, meta) in segs:
        parts = t.split('\n')
        for pi, part in enumerate(parts):
            if pi > 0:
                flush()
            if k in ('src', 'rep'):
                o = {'kind': 'repo', 'file': ex.file, 'fn': ex.name,
                     'line': line_of(src, start + off) + (pi if k == 'src' else 0)}
                if k == 'rep':
                    o['rewritten'] = True
                if part.strip() and buf_repo is None:
                    buf_repo = o
            else:
                o = {'kind': 'splice', 'unit': unit, 'fn': ex.name, 'block': meta.kind, 'arg': meta.arg,
                     'line': meta.lineno + pi + (0 if meta.kind in ('spec', 'loop', 'body') else 1)}
                if part.strip() and buf_splice is None:
                    buf_splice = o
            if buf_any is None:
                buf_any = o
            buf_line += part
    flush()
    out_last = len(gen.lines) - 1
    # labels: scan the emitted lines of this fn
    label = None
    for li in (range(out_first, out_last + 1) if not assumed else []):
        o = gen.origin[li]
        if o.get('kind') != 'splice':
            label = None
            continue
        mm = LABEL.search(gen.lines[li])
        if mm:
            label = [x.strip() for x in mm.group(1).split(',')]
            for lb in label:
                gen.labels.setdefault(lb, {'fn': ex.name, 'out_lines': [], 'unit': unit, '_pending': id(ex)})
            continue
        if label and gen.lines[li].strip():
            for lb in label:
                gen.labels[lb]['out_lines'].append(li + 1)
            o = dict(o)
            o['labels'] = label
            gen.origin[li] = o
    ty = ex.opts.get('ty')
    fkey = ('%s::%s' % (ty, ex.name)) if ty else ex.name
    if fkey in gen.functions:
        raise ExtractError('duplicate function key %s (give ty=<Type> on the extract line)' % fkey)
    for lb_info in gen.labels.values():
        if lb_info.get('_pending') == id(ex):
            lb_info['fn'] = fkey
            del lb_info['_pending']
    if assumed:
        return
    gen.functions[fkey] = {
        'file': ex.file, 'repo_lines': [first_line, last_line], 'props': props,
        'out_lines': [out_first + 1, out_last + 1], 'name': fkey}
    for b in ex.blocks:
        if b.kind != 'rewrite':
            gen.splices.append({'fn': ex.name, 'kind': b.kind, 'arg': b.arg, 'lines': len(b.lines)})
