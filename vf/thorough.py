"""Thorough-tier extras: vacuity canaries, second solver configuration, Kani leaf lemmas."""
import concurrent.futures
import os
import re

from . import extract, verus

REPO = os.environ.get('VERIF_REPO', '/repo')


def kani_lemmas(prop, tier, work):
    from . import kani
    return kani.run(prop, work, tier=tier)


def _canary(gen):
    """append `assert(false)` at the top of every function under contract: each must then FAIL to verify;
    one that still verifies has contradictory preconditions / axioms (vacuous proof)"""
    gen.lines = [re.sub(r'/\*@BODY:[A-Za-z0-9_]+@\*/', ' proof { assert(false); } ', ln) for ln in gen.lines]
    # labelled spec-level lemmas: a twin with the same premises and `ensures false` must fail as well
    text = '\n'.join(gen.lines)
    twins = []
    for name, info in verus.template_functions(gen).items():
        if info['kind'] != 'proof' or not info['labels']:
            continue
        a, b = info['out_lines']
        body = '\n'.join(gen.lines[a - 1:b])
        m = re.search(r'\n\s*ensures\b', body)
        k = body.find('requires')
        if not m or k < 0 or k > m.start():
            continue
        head = body[:m.start()].replace('fn ' + name, 'fn ' + name + '__canary', 1)
        twins.append(head + '\n    ensures false,\n{\n}\n')
    if twins:
        idx = max(i for i, ln in enumerate(gen.lines) if ln.strip().startswith('} // verus!'))
        new_lines = ('\n'.join(twins)).split('\n')
        gen.lines = gen.lines[:idx] + new_lines + gen.lines[idx:]
        gen.origin = gen.origin[:idx] + [{'kind': 'template', 'unit': 'canary', 'line': 0}] * len(new_lines) + gen.origin[idx:]
    return gen


def run_thorough(prop, units, results, work):
    out = {'canaries': {}, 'problems': []}
    # 1. canaries
    with concurrent.futures.ThreadPoolExecutor(max_workers=max(1, len(units))) as ex:
        futs = {u: ex.submit(verus.run_unit, u, REPO, os.path.join(work, 'canary_' + os.path.basename(u)[:-3]), 60, None, _canary, 4) for u in units}
        for u, f in futs.items():
            r = f.result()
            name = os.path.basename(u)[:-3]
            if r.status == 'inconclusive' or r.gen is None:
                out['problems'].append('canary run of %s inconclusive: %s' % (name, r.reason[:200]))
                continue
            alive, dead = [], []
            for fn, f_ in r.gen.functions.items():
                fr = r.functions.get(f_['name'])
                errs = [e for e in r.errors if e['fn'] == fn]
                if fr is None:
                    continue
                if fr['success'] and not errs:
                    alive.append(fn)      # assert(false) verified: vacuous
                else:
                    dead.append(fn)
            for fn, fr in r.functions.items():
                if fn.endswith('__canary'):
                    (alive if fr['success'] else dead).append(fn)
            out['canaries'][name] = {'functions_with_canary': len(alive) + len(dead), 'canary_failed_as_expected': len(dead), 'vacuous': alive}
            for fn in alive:
                out['problems'].append('VACUOUS: assert(false) verifies inside %s (unit %s): contradictory precondition or axiom' % (fn, name))
    # 2. second solver configuration (different rlimit / thread count): a unit that flips is reported inconclusive
    with concurrent.futures.ThreadPoolExecutor(max_workers=max(1, len(units))) as ex:
        futs = {u: ex.submit(verus.run_unit, u, REPO, os.path.join(work, 'alt_' + os.path.basename(u)[:-3]), 90, None, None, 2) for u in units}
        flips = []
        for u, f in futs.items():
            r2 = f.result()
            r1 = [r for r in results if r.unit == os.path.basename(u)[:-3]][0]
            if r2.status != r1.status:
                flips.append('%s: %s vs %s' % (r1.unit, r1.status, r2.status))
        out['second_configuration'] = {'rlimit': 90, 'threads': 2, 'flips': flips}
        for f_ in flips:
            out['problems'].append('unstable proof (verdict differs between solver configurations): ' + f_)
    return out


# Bounded stand-ins (thorough tier only, labelled bounded, never counted as proved): parts of a property that no contract within reach decides are
# compared with an oracle on every graph with at most 4 nodes by the witness-search harness (replays/search/verif_search.rs) against the real code.
BOUNDED_SEARCH = {
    'C10': [('C10.scc.same_set_iff_mutually_reachable_bounded', 'components_oracle', 'src/algorithms/components/strong_connectivity.rs',
             'component functions, breadth_first_search and bfs_equal_size_partitions against reachability by Floyd-Warshall')],
    'C04': [('C04.dijkstra.reported_distances_are_minimal_bounded', 'sp_oracle', 'src/algorithms/shortest_path/dijkstra.rs',
             'single_source (fast path and with paths) and all_pairs against the minimum walk length by Floyd-Warshall')],
    'C08': [('C08.entry_points_agree_bounded', 'sp_oracle', 'src/algorithms/shortest_path/dijkstra.rs',
             'all_pairs[x][y] and single_source(x)[y] both equal the Floyd-Warshall minimum, with and without paths'),
            ('C08.cutoff_and_target_restrict_but_do_not_change_bounded', 'sp_options_oracle', 'src/algorithms/shortest_path/dijkstra.rs',
             'single_source with a cutoff (every distinct distance value from the source and a value 0.25 above it: exactly the entries with distance <= c, unchanged) and with a target '
             '(every node: the unrestricted distance for the target, other reported nodes unchanged), for with_paths / first_only in {(false,false),(true,false),(true,true)}')],
    'C05': [('C05.betweenness_equals_the_pair_sum_bounded', 'betweenness_oracle', 'src/algorithms/centrality/betweenness.rs',
             'betweenness_centrality (hop counts and strictly positive weights 1.0 / 2.5 / 3.5, normalized or not, single-edge graphs) against the sum over ordered pairs of the '
             'fraction of shortest paths through the node computed by brute force, tolerance 1e-9')],
    'C06': [('C06.closeness_equals_the_formula_over_minimal_distances_bounded', 'closeness_oracle', 'src/algorithms/centrality/closeness.rs',
             'closeness_centrality (both wf_improved settings) against the documented formula over Floyd-Warshall distances TO each node')],
    'C18': [('C18.result_equals_the_documented_iteration_bounded', 'eigenvector_oracle', 'src/algorithms/centrality/eigenvector.rs',
             'eigenvector_centrality for (max_iter, tolerance) in {(0,1e-6),(1,1e-6),(1,0.3),(2,0.3),(3,1e-2),(100,1e-6),(100,1e-12)} against the documented power iteration replayed over the '
             'added edges: same verdict (Ok / PowerIterationFailedConvergence; WrongMethod on multi-edge graphs), one entry per node, no negative entry, values within 1e-9, Euclidean norm 1 within 1e-9')],
    'C15': [('C15.rebuilds_do_not_fail_and_match_their_definitions_bounded', 'derived_oracle', 'src/graph/convert.rs',
             'reverse (and reverse twice), get_subgraph for every subset of the names, set_all_edge_weights, to_single_edges against edge multisets computed from the added edge list')],
    'C16': [('C16.generators_match_their_definitions_bounded', 'generators_oracle', 'src/generators/classic.rs',
             'complete_graph(n, directed) for n <= 7 (exactly the nodes 0..n-1, exactly one edge per pair of distinct nodes); fast_gnp_random_graph for n in {1, 2, 5, 12}, '
             'p in {0.05, 0.5, 0.95}, seeds 0..199 (nodes 0..n-1, no self-loop, no repeated pair, mean number of edges within p*pairs/(n-1) + 5 standard errors), '
             'InvalidArgument for p outside (0, 1); karate_club_graph has 34 nodes and 78 edges')],
    'C02': [('C02.queries_agree_with_the_added_edges_bounded', 'queries_oracle', 'src/graph/query.rs',
             'get_all_edges, get_edge / get_edges for every ordered pair of names plus an absent one (error kinds, symmetry, insertion order of parallel edges), '
             'successor / predecessor / neighbour nodes and has_node against the list of added edges')],
    'C03': [('C03.weighted_distances_equal_those_from_the_edge_list_bounded', 'sp_oracle', 'src/graph/creation.rs',
             'single_source and all_pairs distances against Floyd-Warshall over the added edges (parallel edges: the smaller weight)')],
    'C09': [('C09.degrees_agree_with_the_edge_list_bounded', 'counts_oracle', 'src/graph/degree.rs',
             'node / edge counts, size(false), per-node degrees and the degree map against counts over the added edge list (handshake identities follow)')],
}


def bounded_search(prop, tier, work):
    if tier != 'thorough' or prop not in BOUNDED_SEARCH or os.environ.get('VERIF_SEARCH', '1') == '0':
        return []
    from . import replay
    out = []
    for oid, group, where, what in BOUNDED_SEARCH[prop]:
        w, cmd = replay._run_group(group, work)
        tried = getattr(replay._run_group, 'last_tried', None)
        bound = ('bounded: %s' % what) if group == 'generators_oracle' else 'bounded: all graphs with <= 4 nodes (8 kinds, <= 5 edges for n <= 3, <= 3 edges for n = 4, unweighted, weights 1.0 / 0.0 / 2.5 / f64::MAX where the oracle allows them, strictly positive weights 1.0 / 2.5 / 3.5 in three arrangements and weights below 1.0), %s' % what
        if w:
            out.append({'id': oid, 'harness': 'verif_search:' + group, 'strength': 'bounded', 'where': where, 'status': 'failed',
                        'detail': '%s; witness: %s' % (bound, str(w)[:400]),
                        'counterexample': {'replayed_against_real_function': True, 'witness': w, 'group': group, 'cmd': cmd}})
        elif tried is None:
            out.append({'id': oid, 'harness': 'verif_search:' + group, 'strength': 'bounded', 'where': where, 'status': 'skipped',
                        'detail': 'the search harness did not build or did not finish: this bounded stand-in was not run (never an alarm)'})
        else:
            out.append({'id': oid, 'harness': 'verif_search:' + group, 'strength': 'bounded', 'where': where, 'status': 'discharged',
                        'detail': '%s; %d comparisons, no disagreement' % (bound, tried)})
    return out
