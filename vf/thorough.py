"""Thorough-tier extras (canaries, second solver seed, Kani leaf lemmas). Filled in later."""


def kani_lemmas(prop, tier, work):
    from . import kani
    return kani.run(prop, work)


def run_thorough(prop, units, results, work):
    return {}
