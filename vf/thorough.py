"""Thorough-tier extras: vacuity canaries, second solver configuration, Kani leaf lemmas."""
import concurrent.futures
import os
import re

from . import extract, verus

REPO = os.environ.get('VERIF_REPO', '/repo')


def kani_lemmas(prop, tier, work):
    from . import kani
    return kani.run(prop, work, tier=tier)


def _canary(gen):
    """append `assert(false)` at the top of every function under contract: each must then FAIL to verify;
    one that still verifies has contradictory preconditions / axioms (vacuous proof)"""
    gen.lines = [re.sub(r'/\*@BODY:[A-Za-z0-9_]+@\*/', ' proof { assert(false); } ', ln) for ln in gen.lines]
    # labelled spec-level lemmas: a twin with the same premises and `ensures false` must fail as well
    text = '\n'.join(gen.lines)
    twins = []
    for name, info in verus.template_functions(gen).items():
        if info['kind'] != 'proof' or not info['labels']:
            continue
        a, b = info['out_lines']
        body = '\n'.join(gen.lines[a - 1:b])
        m = re.search(r'\n\s*ensures\b', body)
        k = body.find('requires')
        if not m or k < 0 or k > m.start():
            continue
        head = body[:m.start()].replace('fn ' + name, 'fn ' + name + '__canary', 1)
        twins.append(head + '\n    ensures false,\n{\n}\n')
    if twins:
        idx = max(i for i, ln in enumerate(gen.lines) if ln.strip().startswith('} // verus!'))
        new_lines = ('\n'.join(twins)).split('\n')
        gen.lines = gen.lines[:idx] + new_lines + gen.lines[idx:]
        gen.origin = gen.origin[:idx] + [{'kind': 'template', 'unit': 'canary', 'line': 0}] * len(new_lines) + gen.origin[idx:]
    return gen


def run_thorough(prop, units, results, work):
    out = {'canaries': {}, 'problems': []}
    # 1. canaries
    with concurrent.futures.ThreadPoolExecutor(max_workers=max(1, len(units))) as ex:
        futs = {u: ex.submit(verus.run_unit, u, REPO, os.path.join(work, 'canary_' + os.path.basename(u)[:-3]), 60, None, _canary, 4) for u in units}
        for u, f in futs.items():
            r = f.result()
            name = os.path.basename(u)[:-3]
            if r.status == 'inconclusive' or r.gen is None:
                out['problems'].append('canary run of %s inconclusive: %s' % (name, r.reason[:200]))
                continue
            alive, dead = [], []
            for fn, f_ in r.gen.functions.items():
                fr = r.functions.get(f_['name'])
                errs = [e for e in r.errors if e['fn'] == fn]
                if fr is None:
                    continue
                if fr['success'] and not errs:
                    alive.append(fn)      # assert(false) verified: vacuous
                else:
                    dead.append(fn)
            for fn, fr in r.functions.items():
                if fn.endswith('__canary'):
                    (alive if fr['success'] else dead).append(fn)
            out['canaries'][name] = {'functions_with_canary': len(alive) + len(dead), 'canary_failed_as_expected': len(dead), 'vacuous': alive}
            for fn in alive:
                out['problems'].append('VACUOUS: assert(false) verifies inside %s (unit %s): contradictory precondition or axiom' % (fn, name))
    # 2. second solver configuration (different rlimit / thread count): a unit that flips is reported inconclusive
    with concurrent.futures.ThreadPoolExecutor(max_workers=max(1, len(units))) as ex:
        futs = {u: ex.submit(verus.run_unit, u, REPO, os.path.join(work, 'alt_' + os.path.basename(u)[:-3]), 90, None, None, 2) for u in units}
        flips = []
        for u, f in futs.items():
            r2 = f.result()
            r1 = [r for r in results if r.unit == os.path.basename(u)[:-3]][0]
            if r2.status != r1.status:
                flips.append('%s: %s vs %s' % (r1.unit, r1.status, r2.status))
        out['second_configuration'] = {'rlimit': 90, 'threads': 2, 'flips': flips}
        for f_ in flips:
            out['problems'].append('unstable proof (verdict differs between solver configurations): ' + f_)
    return out
