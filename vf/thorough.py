"""Thorough-tier extras (canaries, second solver seed, Kani leaf lemmas). Filled in later."""


def kani_lemmas(prop, tier, work):
    return []


def run_thorough(prop, units, results, work):
    return {}
