#!/usr/bin/env python3
"""Regenerates MANIFEST.json from contracts/meta.json (single source for level texts / n-a reasons)."""
import json, os
ROOT = os.path.dirname(os.path.abspath(__file__))
meta = json.load(open(os.path.join(ROOT, 'contracts', 'meta.json')))
checks, na = [], []
for pid in sorted(meta):
    m = meta[pid]
    if m.get('claimed'):
        checks.append({
            'property_id': pid,
            'quick_cmd': './check %s --tier quick' % pid,
            'thorough_cmd': './check %s --tier thorough' % pid,
            'evidence_file': 'evidence/%s.json' % pid,
            'replay_cmd_template': './check %s --replay {path}' % pid,
            'engine': 'verus-contracts',
            'level_claimed': {'category': 'proof', 'text': m['level_text'], 'design_ref': m.get('design_ref', 'DESIGN.md §3')},
            'level_note': m['level_note'],
            'technique': m['technique'],
        })
    else:
        na.append({'property_id': pid, 'reason': m['na_reason']})
man = {
    'version': 1,
    'setup_cmd': 'true',
    'hooks': {
        'guard': 'none in /repo: Verus reads the sources; Kani harness modules are appended as #[cfg(kani)] to a scratch copy at check time',
        'enable': 'nothing to enable; checks extract from /repo working tree on every run',
        'baseline_off_cmd': 'cd /repo && cargo test --workspace --no-fail-fast --offline',
        'source_commits': [],
        'add_only': True,
    },
    'engines': [
        {'name': 'verus-contracts', 'path': 'vf/ + contracts/', 'serves_properties': [c['property_id'] for c in checks],
         'kind_free_text': 'contract-based deductive verification: real functions are extracted mechanically from /repo on every run, '
                           'spliced with requires/ensures/invariants from contracts/units/*.rs and discharged by Verus (Z3); '
                           'a few comparison-only float leaf lemmas by Kani/CBMC'},
        {'name': 'bounded-search-harness', 'path': 'replays/search/verif_search.rs + vf/replay.py + vf/thorough.py',
         'serves_properties': ['C01', 'C02', 'C03', 'C04', 'C05', 'C06', 'C08', 'C09', 'C10', 'C12', 'C15', 'C16', 'C20'],
         'kind_free_text': 'NOT a deciding engine: a test built in a scratch copy of /repo that calls the public API on every graph with at most 4 nodes and compares '
                           'with an oracle (or only watches for panics / hangs). Used (a) after a failed obligation, to attach a concrete failing input to the VIOLATION '
                           'line, and (b) in the thorough tier as bounded stand-ins for the parts of a property no contract decides - labelled bounded in the evidence '
                           'and never counted as proved (DESIGN.md 2.5, 2.7)'},
    ],
    'checks': checks,
    'not_applicable': na,
    'notes': 'exit 0 = all obligations of the property discharged; exit 1 + VIOLATION = a registered obligation failed; '
             'exit 2 = inconclusive (lost anchor, front-end error, solver resource limit) - never an alarm. See DESIGN.md.',
}
json.dump(man, open(os.path.join(ROOT, 'MANIFEST.json'), 'w'), indent=1)
print('MANIFEST.json: %d checks, %d not applicable' % (len(checks), len(na)))
