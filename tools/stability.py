#!/usr/bin/env python3
"""Stability sweep (development aid, not part of the checks): every unit is verified from /repo under several Z3 random seeds
with the check's own resource limit; a unit whose verdict changes with the seed, that needed the larger-budget retry, or that
has a function slower than 15 s is listed - brittle proofs are repaired before they become inconclusive runs.
usage: stability.py [unit ...]   (env: STAB_SEEDS="1 2 3", STAB_JOBS=3)"""
import concurrent.futures
import glob
import os
import sys
import tempfile

sys.path.insert(0, os.path.dirname(os.path.dirname(os.path.abspath(__file__))))
from vf import verus  # noqa: E402

ROOT = os.path.dirname(os.path.dirname(os.path.abspath(__file__)))
REPO = os.environ.get('VERIF_REPO', '/repo')


def one(job):
    u, seed, work = job
    tpl = os.path.join(ROOT, 'contracts', 'units', u + '.rs')
    r = verus.run_unit(tpl, REPO, os.path.join(work, '%s_%d' % (u, seed)), 60, ['--smt-option', 'smt.random_seed=%d' % seed], None, 4)
    retried = [k for k, v in (getattr(r, 'variants', None) or {}).items() if v.get('retried')]
    slow = sorted(((v['time_us'] // 1000, k) for k, v in r.functions.items() if v['time_us'] > 15_000_000), reverse=True)[:4]
    errs = ['%s: %s' % (e['fn'], e['message'][:80]) for e in r.errors[:4]]
    return u, seed, r.status, round(r.wall_s), retried or getattr(r, 'retried', None), slow, errs


def main(argv):
    units = argv or [os.path.basename(p)[:-3] for p in sorted(glob.glob(os.path.join(ROOT, 'contracts', 'units', '*.rs')))]
    seeds = [int(x) for x in os.environ.get('STAB_SEEDS', '1 2 3').split()]
    work = tempfile.mkdtemp(prefix='stab_')
    jobs = [(u, s, work) for u in units for s in seeds]
    with concurrent.futures.ThreadPoolExecutor(max_workers=int(os.environ.get('STAB_JOBS', '3'))) as ex:
        for u, seed, status, wall, retried, slow, errs in ex.map(one, jobs):
            flag = '' if status == 'ok' and not retried and not slow else '   <<<'
            print('%-8s seed=%d %-12s %4ds retried=%s slow=%s %s%s' % (u, seed, status, wall, retried, slow, ' | '.join(errs), flag), flush=True)
    import shutil
    shutil.rmtree(work, ignore_errors=True)


if __name__ == '__main__':
    main(sys.argv[1:])
