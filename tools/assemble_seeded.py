#!/usr/bin/env python3
"""Assembles /verif/seeded/<prop>-<X>/ from a sub-agent's deliverables, my validation record and the check's verdict.
usage: assemble_seeded.py <prop> <X> <src dir> <validation jsonl> <detection log>"""
import json, os, re, shutil, sys
prop, x, src, valfile, detfile = sys.argv[1:6]
tag = sys.argv[6] if len(sys.argv) > 6 else ''
dst = '/verif/seeded/%s-%s%s' % (prop, tag, x)
os.makedirs(dst, exist_ok=True)
shutil.copy(os.path.join(src, x + '.patch.diff'), os.path.join(dst, 'patch.diff'))
shutil.copy(os.path.join(src, x + '.demo.rs'), os.path.join(dst, 'demo.rs'))
agent = {}
for cand in (os.path.join(src, x + '.meta.json'), '/tmp/seed_%s_out/%s.meta.json' % (prop, x)) if not tag else (os.path.join(src, x + '.meta.json'),):
    if os.path.exists(cand):
        try:
            agent = json.load(open(cand))
        except Exception:
            agent = {}
        break
val = None
for l in open(valfile):
    d = json.loads(l)
    if d['id'] == prop and d['x'] == x:
        val = d
det = open(detfile).read() if os.path.exists(detfile) else ''
m = re.search(r'SEED \S+ prop=%s exit=(\d)' % prop, det)
meta = {
    'property': prop,
    'summary': agent.get('summary', ''),
    'needs_to_manifest': agent.get('needs_to_manifest', ''),
    'origin': 'fresh sub-agent given only the property text and its own scratch worktree (never /verif)' + (
        '; hand-ported to the repaired tree (the original patch conflicts with a fix: commit), same idea' if 'ports' in src else ''),
    'what_i_ran': {
        'validation': 'tools/validate_seed.sh %s %s <dir>  (scratch worktree of /repo: suite without demo, demo without patch, git apply, demo with patch, suite with patch)' % (prop, x),
        'patch_applies': val and val['applies'],
        'demo_without_change': val and val['demo_clean'],
        'demo_with_change': val and val['demo_mut'],
        'suite_identical_per_test': val and val['suite_clean'] == val['suite_mut'],
        'detection': 'tools/run_seed.sh seeded/%s-%s/patch.diff %s   (git -C /repo apply; ./check %s; git -C /repo checkout -- .)' % (prop, x, prop, prop),
    },
    'check_exit_with_change': int(m.group(1)) if m else None,
    'check_output_with_change': [l for l in det.split('\n') if l.strip()][:10],
    'how_to_run_demo': 'copy demo.rs to /repo/tests/demo_%s_%s.rs; cargo test --offline --test demo_%s_%s' % (prop, x, prop, x),
}
json.dump(meta, open(os.path.join(dst, 'meta.json'), 'w'), indent=1)
print(dst, meta['check_exit_with_change'])
