#!/bin/bash
# usage: run_seed.sh <patch> <prop> [tier]  — applies the patch to /repo, runs the check, reverts. Prints the verdict lines.
P=$1; PROP=$2; TIER=${3:-quick}
cd /repo || exit 9
if ! git apply --check "$P" 2>/dev/null; then echo "SEED $P: does not apply"; exit 8; fi
git apply "$P"
cd /verif && ./check $PROP --tier $TIER > /tmp/seed_run.out 2>&1; rc=$?
git -C /repo checkout -- . 
echo "SEED $(basename $(dirname $P))/$(basename $P) prop=$PROP exit=$rc"
grep -E "VIOLATION|KNOWN-FINDING|INCONCLUSIVE|FAILED obligation|inconclusive|OK:" /tmp/seed_run.out | cut -c1-300 | head -8
