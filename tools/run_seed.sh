#!/bin/bash
# usage: run_seed.sh <patch> <prop> [tier]
# Applies the patch to a scratch copy of /repo's working tree (VERIF_REPO points the check at it, so /repo itself is
# not disturbed while other work goes on), runs the check, removes the copy. Equivalent to
#   git -C /repo apply <patch>; ./check <prop>; git -C /repo checkout -- .
P=$1; PROP=$2; TIER=${3:-quick}
S=$(mktemp -d /tmp/seedrepo_XXXX)
rsync -a --exclude target --exclude .git /repo/ $S/
cd $S || exit 9
if ! patch -p1 --dry-run -s < "$P" >/dev/null 2>&1; then echo "SEED $P: does not apply"; rm -rf $S; exit 8; fi
patch -p1 -s < "$P"
cd /verif && VERIF_EVIDENCE_DIR=$S/.evidence VERIF_REPLAY_DIR=/tmp/seed_replays VERIF_REPO=$S ./check $PROP --tier $TIER > /tmp/seed_run_$$.out 2>&1; rc=$?
rm -rf $S
echo "SEED $(basename $(dirname $P))/$(basename $P) prop=$PROP exit=$rc"
grep -E "KNOWN-FINDING|INCONCLUSIVE|FAILED obligation|inconclusive|OK:" /tmp/seed_run_$$.out | cut -c1-300 | head -7
grep -E "^VIOLATION" /tmp/seed_run_$$.out | cut -c1-300 | head -2
rm -f /tmp/seed_run_$$.out
