#!/bin/bash
# usage: validate_seed.sh <Cxx> <A|B> <dir with X.patch.diff X.demo.rs>   -> prints a JSON line with the verdict
# Confirms in a scratch worktree of /repo HEAD: patch applies, crate builds, suite results == baseline,
# demo passes without the patch and fails with it.
set -u
ID=$1; X=$2; SRC=$3
WT=/tmp/val_${ID}_${X}
export CARGO_TARGET_DIR=/tmp/val_target
export CARGO_NET_OFFLINE=true
git -C /repo worktree remove --force $WT >/dev/null 2>&1
git -C /repo worktree add --detach $WT ${SEED_BASE:-HEAD} >/dev/null 2>&1 || { echo "{\"id\":\"$ID\",\"x\":\"$X\",\"error\":\"worktree\"}"; exit 1; }
cd $WT
suite_clean=$(cargo test --offline --no-fail-fast 2>&1 | grep -E "^test .* \.\.\. " | grep -v "(line " | sort | md5sum | cut -c1-12)
cp $SRC/$X.demo.rs tests/demo_${ID}_${X}.rs
demo_clean=$(cargo test --offline --test demo_${ID}_${X} 2>&1 | grep -E "^test result" | head -1)
if git apply --check $SRC/$X.patch.diff 2>/dev/null; then
  git apply $SRC/$X.patch.diff; applies=true
else
  applies=false
fi
if $applies; then
  demo_mut=$(cargo test --offline --test demo_${ID}_${X} 2>&1 | grep -E "^test result|error\[|error:" | head -1)
  rm -f tests/demo_${ID}_${X}.rs
  suite_mut=$(cargo test --offline --no-fail-fast 2>&1 | grep -E "^test .* \.\.\. " | grep -v "demo_\|(line " | sort | md5sum | cut -c1-12)
else
  demo_mut="n/a"; suite_mut="n/a"
fi
cd /; git -C /repo worktree remove --force $WT >/dev/null 2>&1
echo "{\"id\":\"$ID\",\"x\":\"$X\",\"applies\":$applies,\"demo_clean\":\"$demo_clean\",\"demo_mut\":\"$demo_mut\",\"suite_clean\":\"$suite_clean\",\"suite_mut\":\"$suite_mut\"}"
