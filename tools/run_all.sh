#!/bin/bash
# runs every claimed check (quick tier) in parallel and validates MANIFEST / evidence against the schemas; exit 0 only if all is well
cd /verif
ids=$(python3 -c "import json;print(' '.join(c['property_id'] for c in json.load(open('MANIFEST.json'))['checks']))")
rc=0
# at most 5 checks at a time: 14 at once (each Verus run uses 8 threads) pushed single units past the wall-clock limit of 900 s (exit 2, no verdict)
echo $ids | tr ' ' '\n' | xargs -P ${VERIF_PAR:-5} -I{} sh -c './check {} --tier '${1:-quick}' > /tmp/chk_{}.out 2>&1; echo "{} exit=$?"' > /tmp/run_all.out
cat /tmp/run_all.out | sort | tr '\n' ' '; echo
grep -qv "exit=0" /tmp/run_all.out && rc=1
python3-vt -c "
import json,jsonschema,glob
jsonschema.validate(json.load(open('/verif/MANIFEST.json')), json.load(open('/root/.vp/MANIFEST.schema.json')))
s=json.load(open('/root/.vp/EVIDENCE.schema.json'))
for f in glob.glob('/verif/evidence/*.json'): jsonschema.validate(json.load(open(f)), s)
print('schemas ok')" || rc=1
exit $rc
