#!/bin/bash
# runs every claimed check (quick tier) in parallel and validates MANIFEST / evidence against the schemas; exit 0 only if all is well
cd /verif
ids=$(python3 -c "import json;print(' '.join(c['property_id'] for c in json.load(open('MANIFEST.json'))['checks']))")
rc=0
for p in $ids; do ( ./check $p --tier ${1:-quick} > /tmp/chk_$p.out 2>&1; echo "$p exit=$?" ) & done > /tmp/run_all.out; wait
cat /tmp/run_all.out | sort | tr '\n' ' '; echo
grep -qv "exit=0" /tmp/run_all.out && rc=1
python3-vt -c "
import json,jsonschema,glob
jsonschema.validate(json.load(open('/verif/MANIFEST.json')), json.load(open('/root/.vp/MANIFEST.schema.json')))
s=json.load(open('/root/.vp/EVIDENCE.schema.json'))
for f in glob.glob('/verif/evidence/*.json'): jsonschema.validate(json.load(open(f)), s)
print('schemas ok')" || rc=1
exit $rc
