#!/usr/bin/env python3
"""Kill matrix: one-token mutations of the *extracted repository text* inside the generated unit files.

For every function under contract, each applicable mutation operator is applied at each site of the repository-origin
lines of that function (one mutant = one changed token), the unit (variant) is re-verified for that function only, and
the mutant counts as killed if Verus reports an error in it, as survived if the function still verifies, and as
invalid if the mutant does not compile.  Survivors are contract weaknesses (or equivalent mutants) and are listed.

Nothing in /repo is touched: mutation happens on the generated text, which is the repository text (E1-E6).
usage: kill_matrix.py [unit ...]   -> writes /verif/kill_matrix.json
"""
import concurrent.futures
import json
import os
import re
import shutil
import subprocess
import sys
import tempfile
import time

sys.path.insert(0, os.path.dirname(os.path.dirname(os.path.abspath(__file__))))
from vf import extract, verus  # noqa: E402

ROOT = os.path.dirname(os.path.dirname(os.path.abspath(__file__)))
REPO = os.environ.get('VERIF_REPO', '/repo')

OPS = [
    (r'(?<![<>=!\-])<(?![=<])', '<=', 'lt->le'),
    (r'(?<![<>=!\-])<=(?!=)', '<', 'le->lt'),
    (r'(?<![<>=!\-\w])>(?![=>])', '>=', 'gt->ge'),
    (r'>=(?!=)', '>', 'ge->gt'),
    (r'==', '!=', 'eq->ne'),
    (r'!=', '==', 'ne->eq'),
    (r'&&', '||', 'and->or'),
    (r'\|\|', '&&', 'or->and'),
    (r'\+ 1\b', '+ 2', 'plus1->plus2'),
    (r'- 1\b', '- 0', 'minus1->minus0'),
    (r'\btrue\b', 'false', 'true->false'),
    (r'\bfalse\b', 'true', 'false->true'),
    (r'\+=', '-=', 'pluseq->minuseq'),
    (r'-=', '+=', 'minuseq->pluseq'),
    (r'\bordered_edge_u\b', 'ordered_edge_v', 'swap u->v'),
    (r'\bu_node_index\b', 'v_node_index', 'swap uidx->vidx'),
    (r'\bedge\.u\b', 'edge.v', 'swap edge.u->edge.v'),
    (r'\bedge\.v\b', 'edge.u', 'swap edge.v->edge.u'),
    (r'\bv_node_index\b', 'u_node_index', 'swap vidx->uidx'),
    (r'\bordered_edge_v\b', 'ordered_edge_u', 'swap v->u'),
    (r'\.is_ok\(\)', '.is_err()', 'is_ok->is_err'),
    (r'\.is_none\(\)', '.is_some()', 'is_none->is_some'),
    (r'\.is_some\(\)', '.is_none()', 'is_some->is_none'),
    (r'!self\.', 'self.', 'drop-not'),
    (r'\breturn Ok\(\(\)\);', '', 'drop-early-return'),
    (r'\bcontinue;', '', 'drop-continue'),
    (r'\bbreak;', '', 'drop-break'),
]


def sites(gen, fn):
    f = gen.functions[fn]
    a, b = f['out_lines']
    res = []
    for li in range(a - 1, b):
        o = gen.origin[li]
        if o.get('kind') != 'repo' or o.get('rewritten'):
            continue
        ln = gen.lines[li]
        code = ln.split('//')[0]
        if re.match(r'\s*(pub\s+)?(fn|where|T:|A:|\)|\{|\})', code) and 'fn ' in code:
            continue
        if 'message' in code or 'format!' in code or code.strip().startswith('"'):
            continue
        for (pat, rep, name) in OPS:
            for m in re.finditer(pat, code):
                if name in ('true->false', 'false->true') and re.match(r'\s*=>', code[m.end():]):
                    continue  # a match-arm pattern, not a value
                # skip generic brackets / arrows
                if name in ('lt->le', 'gt->ge') and re.search(r'(Vec|Option|Result|Arc|HashMap|HashSet|IntMap|IntSet|BinaryHeap|VecDeque|::)\s*$', code[:m.start()]):
                    continue
                if name in ('gt->ge',) and code[max(0, m.start() - 1):m.start()] in ('-', '='):
                    continue
                res.append((li, m.start(), m.end(), rep, name, o.get('file'), o.get('line')))
    return res


def run_one(job):
    (text, out_dir, idx, fnname, args, rlimit) = job
    path = os.path.join(out_dir, 'm%d.rs' % idx)
    open(path, 'w').write(text)
    cmd = ['verus', path, '--rlimit', str(rlimit), '--verify-root', '--verify-function', fnname, '--output-json', '--error-format=json'] + args
    try:
        p = subprocess.run(cmd, stdout=subprocess.PIPE, stderr=subprocess.PIPE, text=True, timeout=600, cwd=out_dir)
    except subprocess.TimeoutExpired:
        return idx, 'timeout'
    try:
        data = json.loads(p.stdout[p.stdout.find('{'):])
    except Exception:
        return idx, 'invalid'
    vr = data.get('verification-results', {})
    if vr.get('encountered-vir-error') or (vr.get('encountered-error') and vr.get('verified', 0) == 0 and vr.get('errors', 0) == 0):
        return idx, 'invalid'
    if 'esource limit' in p.stderr:
        return idx, 'rlimit'
    if vr.get('errors', 0) > 0:
        return idx, 'killed'
    if vr.get('verified', 0) >= 1 and not vr.get('encountered-error'):
        return idx, 'survived'
    return idx, 'invalid'


def kani_pass(sv):
    from vf import kani
    file, line = sv['at'].rsplit(':', 1)
    scratch = tempfile.mkdtemp(prefix='verif_killk_')
    try:
        subprocess.run(['rsync', '-a', '--exclude', 'target', '--exclude', '.git', REPO + '/', scratch + '/repo/'], check=True)
        path = os.path.join(scratch, 'repo', file)
        lines = open(path).read().split('\n')
        li = int(line) - 1
        for (pat, rep, name) in OPS:
            if name == sv['op']:
                new = re.sub(pat, rep, lines[li], count=1)
                if new == lines[li]:
                    return 'not-applicable'
                lines[li] = new
        open(path, 'w').write('\n'.join(lines))
        prop = 'C04' if 'shortest_path' in file else 'C05'
        res = kani.run(prop, os.path.join(scratch, 'work'), repo=os.path.join(scratch, 'repo'))
        if any(r['status'] == 'failed' for r in res):
            return 'killed'
        if all(r['status'] == 'discharged' for r in res):
            return 'survived'
        return 'unknown'
    finally:
        shutil.rmtree(scratch, ignore_errors=True)


def main(argv):
    units = argv or [os.path.basename(p)[:-3] for p in sorted(os.listdir(os.path.join(ROOT, 'contracts', 'units'))) if p.endswith('.rs')]
    out = {'generated_at_repo_head': subprocess.run(['git', '-C', REPO, 'rev-parse', '--short', 'HEAD'], stdout=subprocess.PIPE, text=True).stdout.strip(),
           'operators': [o[2] for o in OPS], 'units': {}}
    work = tempfile.mkdtemp(prefix='verif_kill_')
    t0 = time.time()
    for unit in units:
        tpath = os.path.join(ROOT, 'contracts', 'units', unit + '.rs')
        names, vargs = extract.template_variants(tpath)
        jobs, meta = [], []
        for variant in names:
            gen = extract.instantiate(tpath, REPO, variant)
            base = gen.lines
            fns = list(gen.functions)
            if variant != 'main' and vargs.get(variant):
                # a case variant verifies only the function named in its --verify-function argument
                vf = [a for a in vargs.get(variant, []) if '::' in a or a.isidentifier()]
                fns = [f for f in fns if f in vargs.get(variant, [])]
            elif variant == 'main':
                # functions marked proved-by-cases are external_body in main
                fns = [f for f in fns if 'proved-by-cases' not in '\n'.join(base[max(0, gen.functions[f]['out_lines'][0] - 3):gen.functions[f]['out_lines'][0] + 1])]
            if os.environ.get('KILL_FNS'):
                fns = [f for f in fns if re.search(os.environ['KILL_FNS'], f)]
            for fn in fns:
                for (li, a, b, rep, name, file, line) in sites(gen, fn):
                    lines = list(base)
                    lines[li] = lines[li][:a] + rep + lines[li][b:]
                    idx = len(jobs)
                    d = os.path.join(work, unit + '_' + variant)
                    os.makedirs(d, exist_ok=True)
                    jobs.append(('\n'.join(lines) + '\n', d, idx, fn, [], int(os.environ.get('KILL_RLIMIT', '0')) or (400 if unit == 'u_graph' else 360)))
                    meta.append({'fn': fn, 'variant': variant, 'op': name, 'at': '%s:%s' % (file, line), 'before': base[li].strip()[:120]})
        res = {}
        with concurrent.futures.ThreadPoolExecutor(max_workers=int(os.environ.get('KILL_JOBS', '12'))) as ex:
            for idx, verdict in ex.map(run_one, jobs):
                res[idx] = verdict
        # a mutant of add_edge is killed if ANY case variant kills it: group by (fn, op, at)
        groups = {}
        for i, m in enumerate(meta):
            key = (m['fn'], m['op'], m['at'], m['before'])
            groups.setdefault(key, []).append(res[i])
        summary = {'killed': 0, 'survived': 0, 'invalid': 0, 'other': 0, 'survivors': []}
        per_fn = {}
        for key, vs in groups.items():
            if 'killed' in vs:
                v = 'killed'
            elif all(x == 'invalid' for x in vs):
                v = 'invalid'
            elif 'survived' in vs and all(x in ('survived', 'invalid') for x in vs):
                v = 'survived'
            else:
                v = 'other'
            summary[v] += 1
            pf = per_fn.setdefault(key[0], {'killed': 0, 'survived': 0, 'invalid': 0, 'other': 0})
            pf[v] += 1
            if v in ('survived', 'other'):
                summary['survivors'].append({'fn': key[0], 'op': key[1], 'at': key[2], 'line': key[3], 'verdicts': vs})
        # survivors inside FringeNode's comparison impls are the business of the Kani order lemmas: replay them there
        for sv in list(summary['survivors']):
            if not sv['fn'].startswith('FringeNode::'):
                continue
            verdict = kani_pass(sv)
            sv['kani'] = verdict
            if verdict == 'killed':
                summary['survived'] -= 1
                summary['killed'] += 1
                summary.setdefault('killed_by_kani', []).append(sv)
                summary['survivors'].remove(sv)
                per_fn[sv['fn']]['survived'] -= 1
                per_fn[sv['fn']]['killed'] += 1
        summary['per_function'] = per_fn
        out['units'][unit] = summary
        print('%s: %d mutants: killed %d, survived %d, invalid %d, other %d (%.0fs)' % (
            unit, len(groups), summary['killed'], summary['survived'], summary['invalid'], summary['other'], time.time() - t0))
        shutil.rmtree(os.path.join(work), ignore_errors=True)
        os.makedirs(work, exist_ok=True)
    shutil.rmtree(work, ignore_errors=True)
    # merge with an existing file so single-unit reruns keep the rest
    path = os.path.join(ROOT, 'kill_matrix.json')
    if os.path.exists(path) and argv:
        old = json.load(open(path))
        old['units'].update(out['units'])
        old['generated_at_repo_head'] = out['generated_at_repo_head']
        out = old
    json.dump(out, open(path, 'w'), indent=1)


if __name__ == '__main__':
    main(sys.argv[1:])
