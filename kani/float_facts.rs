// Appended (at check time, in a scratch copy only) to src/lib.rs
// A1 value facts and operator identities of contracts/float.rs, checked on the machine's f64 for ALL bit patterns
// (complete: loop-free harness over two symbolic f64): `<` is irreflexive, negation is an involution on the bit pattern,
// f64::MAX == f64::MAX, a > b is b < a, a >= b is b <= a, a != b is !(a == b); 0.0 != MAX, x + 1.0 == MAX only if x == MAX,
// == is Euclidean; the order facts about f64::MAX used by the termination argument of the Dijkstra kernels.
#[cfg(kani)]
mod verif_kani_float {
    #[kani::proof]
    fn a1_float_identities() {
        let a: f64 = kani::any();
        let b: f64 = kani::any();
        assert!(!(a < a));
        assert!((-(-a)).to_bits() == a.to_bits());
        assert!(f64::MAX == f64::MAX);
        assert!((a > b) == (b < a));
        assert!((a >= b) == (b <= a));
        assert!((a != b) == !(a == b));
        // the level facts of the hop-count kernels
        let c: f64 = kani::any();
        assert!(!(0.0f64 == f64::MAX));
        if !(a == f64::MAX) { assert!(!(a + 1.0 == f64::MAX)); }
        if a == b && a == c { assert!(b == c); }
        // order facts about the constant (termination of the Dijkstra kernels)
        if a < b && b <= f64::MAX { assert!(a < f64::MAX); }
        if a < f64::MAX { assert!(!(a == f64::MAX) && a <= f64::MAX); }
        assert!(f64::MAX <= f64::MAX && 0.0f64 <= f64::MAX);
        if a == f64::MAX { assert!(!(a < f64::MAX)); }
    }
}
