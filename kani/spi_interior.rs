// Appended (at check time, in a scratch copy only) to src/algorithms/shortest_path/shortest_path_info.rs
// C08.interior.filter — BOUNDED stand-in (Verus cannot take the function: `continue` inside a for loop, slice range
// indexing and <[T]>::contains): T = u8, at most 2 paths of at most 4 nodes each, every content. Not counted as proved.
#[cfg(kani)]
mod verif_kani {
    use super::*;

    fn any_path() -> Vec<u8> {
        let len: usize = kani::any();
        kani::assume(len <= 4);
        let mut v = Vec::new();
        let mut i = 0;
        while i < len {
            v.push(kani::any());
            i += 1;
        }
        v
    }

    #[kani::proof]
    #[kani::unwind(6)]
    fn c08_interior_filter_bounded() {
        let npaths: usize = kani::any();
        kani::assume(npaths <= 2);
        let mut paths: Vec<Vec<u8>> = Vec::new();
        let mut k = 0;
        while k < npaths {
            paths.push(any_path());
            k += 1;
        }
        let x: u8 = kani::any();
        // oracle: some path has x at an index strictly between the first and the last
        let mut expected = false;
        let mut p = 0;
        while p < paths.len() {
            let mut i = 1;
            while i + 1 < paths[p].len() {
                if paths[p][i] == x {
                    expected = true;
                }
                i += 1;
            }
            p += 1;
        }
        let spi = ShortestPathInfo { distance: 0.0, paths };
        assert!(spi.contains_path_through_node(x) == expected);
    }
}
