// Appended (at check time, in a scratch copy only) to src/algorithms/centrality/fringe_node.rs
// C05.fringe.* : same lemma for the FringeNode used by the betweenness / closeness Dijkstra kernels. Complete (loop-free).
#[cfg(kani)]
mod verif_kani {
    use super::*;

    fn any_node() -> FringeNode {
        let d: f64 = kani::any();
        kani::assume(!d.is_nan());
        FringeNode { distance: d, pred: kani::any(), v: kani::any() }
    }

    #[kani::proof]
    fn c05_fringe_total_preorder() {
        let a = any_node();
        let b = any_node();
        let c = any_node();
        assert!(a.cmp(&b) == b.cmp(&a).reverse());
        if a.cmp(&b) != Ordering::Greater && b.cmp(&c) != Ordering::Greater {
            assert!(a.cmp(&c) != Ordering::Greater);
        }
        assert!((a.cmp(&b) == Ordering::Equal) == (a == b));
        assert!(a.partial_cmp(&b) == Some(a.cmp(&b)));
    }

    #[kani::proof]
    fn c05_fringe_max_is_min_distance() {
        let a = any_node();
        let b = any_node();
        if a.cmp(&b) != Ordering::Less {
            assert!(-a.distance <= -b.distance);
        }
    }
}
