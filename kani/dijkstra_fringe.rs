// Appended (at check time, in a scratch copy only) to src/algorithms/shortest_path/dijkstra.rs
// C04.fringe.*: the max-heap on FringeNode pops a smallest real distance first. Loop-free, full domain of the three
// fields (distance ranges over every non-NaN f64 bit pattern): a complete proof, not a bounded stand-in.
#[cfg(kani)]
mod verif_kani {
    use super::*;

    fn any_node() -> FringeNode {
        let d: f64 = kani::any();
        kani::assume(!d.is_nan());
        FringeNode { node_index: kani::any(), count: kani::any(), distance: d }
    }

    #[kani::proof]
    fn c04_fringe_total_order() {
        let a = any_node();
        let b = any_node();
        let c = any_node();
        // antisymmetric
        assert!(a.cmp(&b) == b.cmp(&a).reverse());
        // transitive
        if a.cmp(&b) != Ordering::Greater && b.cmp(&c) != Ordering::Greater {
            assert!(a.cmp(&c) != Ordering::Greater);
        }
        // Equal exactly when == says so; partial_cmp agrees with cmp
        assert!((a.cmp(&b) == Ordering::Equal) == (a == b));
        assert!(a.partial_cmp(&b) == Some(a.cmp(&b)));
    }

    #[kani::proof]
    fn c04_fringe_max_is_min_distance() {
        let a = any_node();
        let b = any_node();
        // the heap stores negated distances: if a is not below b in heap order, a's real distance is not larger
        if a.cmp(&b) != Ordering::Less {
            assert!(-a.distance <= -b.distance);
        }
        // and a strictly larger heap key on the distance component means a strictly smaller real distance
        if a.distance > b.distance {
            assert!(a.cmp(&b) == Ordering::Greater && -a.distance < -b.distance);
        }
    }
}
