// Small-scope witness search for C20 violations (panic / hang), run ONLY after a Verus obligation has already failed: Verus gives no
// counterexample, so the check looks for a concrete failing input by calling the public entry points of the module the failed obligation
// lives in on every small graph (<= 4 nodes, all 8 kinds, unweighted and a weight pattern that includes 0.0 and f64::MAX), built with
// overflow checks on, each call under catch_unwind and a watchdog. It is a bounded search, never a proof, and it never decides a verdict:
// a witness makes the VIOLATION line carry a failing input replayed against the real code, no witness leaves it `no-failing-input-found`.
// Copied by vf/replay.py to <scratch copy of /repo>/tests/verif_search.rs; group selected by VERIF_SEARCH_GROUP.
use graphrs::algorithms::centrality::{betweenness, closeness, degree, eigenvector};
use graphrs::algorithms::shortest_path::dijkstra;
use graphrs::algorithms::{cluster, components};
use graphrs::{Edge, EdgeDedupeStrategy, Graph, GraphSpecs, MissingNodeStrategy, Node};
use std::panic::{catch_unwind, AssertUnwindSafe};
use std::sync::atomic::{AtomicU64, Ordering};
use std::sync::{Arc, Mutex};

static BEAT: AtomicU64 = AtomicU64::new(0);
// inserted in this order: the sort order of the names differs from their insertion order (positions), as C02 demands
const NAMES: [&str; 4] = ["n2", "n0", "n3", "n1"];

#[derive(Clone)]
struct Desc {
    n: usize,
    directed: bool,
    multi: bool,
    loops: bool,
    // the edges the graph holds after the history (what the oracles compare with)
    edges: Vec<(usize, usize, Option<f64>)>,
    // the add_edge calls of the history, in order (a superset of `edges` when a duplicate is ignored or replaces a stored edge)
    raw: Vec<(usize, usize, Option<f64>)>,
    // 0: duplicates are an error (no duplicate in `raw`), 1: KeepFirst, 2: KeepLast
    dedupe: u8,
}
impl Desc {
    fn show(&self) -> String {
        let es: Vec<String> = self
            .raw
            .iter()
            .map(|(u, v, w)| match w {
                None => format!("[\"{}\",\"{}\",null]", NAMES[*u], NAMES[*v]),
                Some(x) if *x == f64::MAX => format!("[\"{}\",\"{}\",\"f64::MAX\"]", NAMES[*u], NAMES[*v]),
                Some(x) => format!("[\"{}\",\"{}\",{}]", NAMES[*u], NAMES[*v], x),
            })
            .collect();
        format!(
            "{{\"nodes\":{},\"directed\":{},\"multi_edges\":{},\"self_loops\":{},\"duplicates\":\"{}\",\"add_edge_calls\":[{}]}}",
            self.n, self.directed, self.multi, self.loops, ["Error", "KeepFirst", "KeepLast"][self.dedupe as usize], es.join(",")
        )
    }
    fn build(&self) -> Option<Graph<&'static str, ()>> {
        let mut specs = if self.directed { GraphSpecs::directed() } else { GraphSpecs::undirected() };
        specs.multi_edges = self.multi;
        specs.self_loops = self.loops;
        specs.missing_node_strategy = MissingNodeStrategy::Error;
        specs.edge_dedupe_strategy = match self.dedupe { 0 => EdgeDedupeStrategy::Error, 1 => EdgeDedupeStrategy::KeepFirst, _ => EdgeDedupeStrategy::KeepLast };
        let mut g: Graph<&'static str, ()> = Graph::new(specs);
        for i in 0..self.n {
            g.add_node(Node::from_name(NAMES[i]));
        }
        for (u, v, w) in &self.raw {
            let e = match w {
                None => Edge::new(NAMES[*u], NAMES[*v]),
                Some(x) => Edge::with_weight(NAMES[*u], NAMES[*v], *x),
            };
            if g.add_edge(e).is_err() {
                return None;
            }
        }
        Some(g)
    }
}

fn subsets(pairs: &[(usize, usize)], cap: usize) -> Vec<Vec<(usize, usize)>> {
    let mut out = vec![vec![]];
    for p in pairs {
        let mut more = vec![];
        for s in &out {
            if s.len() < cap {
                let mut t = s.clone();
                t.push(*p);
                more.push(t);
            }
        }
        out.extend(more);
    }
    out
}

fn all_descs() -> Vec<Desc> {
    let pattern = [1.0, 0.0, 2.5, f64::MAX];
    let positive = [1.0, 2.5, 1.0, 3.5];
    let small = [0.25, 0.5, 0.25, 0.125];
    let mut out = vec![];
    for n in 0..=4usize {
        let cap = if n <= 3 { 5 } else { 3 };
        for directed in [false, true] {
            for multi in [false, true] {
                for loops in [false, true] {
                    let mut pairs = vec![];
                    for u in 0..n {
                        for v in 0..n {
                            if u == v && !loops {
                                continue;
                            }
                            if !directed && u > v {
                                continue;
                            }
                            pairs.push((u, v));
                        }
                    }
                    for s in subsets(&pairs, cap) {
                        for weighting in 0..6 {
                            // 0: unweighted, 1: the pattern with 0.0 and f64::MAX, 2..4: strictly positive weights in three arrangements, 5: weights below 1.0
                            let mut edges: Vec<(usize, usize, Option<f64>)> = s
                                .iter()
                                .enumerate()
                                .map(|(i, (u, v))| (*u, *v, match weighting { 0 => None, 1 => Some(pattern[i % 4]), 2 => Some(positive[i % 4]), 3 => Some(positive[(i + 1) % 4]), 4 => Some(positive[(i + 3) % 4]), _ => Some(small[i % 4]) }))
                                .collect();
                            if weighting >= 2 && s.is_empty() { continue; }
                            out.push(Desc { n, directed, multi, loops, edges: edges.clone(), raw: edges.clone(), dedupe: 0 });
                            if multi && !edges.is_empty() {
                                // a parallel copy of the first edge
                                let e0 = edges[0];
                                edges.push(e0);
                                out.push(Desc { n, directed, multi, loops, edges: edges.clone(), raw: edges, dedupe: 0 });
                            } else if !multi && !edges.is_empty() && weighting >= 1 && weighting <= 2 {
                                // the first pair added once more at the end with another weight (for undirected graphs in the other orientation):
                                // ignored under KeepFirst, replacing the stored edge under KeepLast
                                let (u0, v0, _) = edges[0];
                                let dup = if directed { (u0, v0, Some(0.5)) } else { (v0, u0, Some(0.5)) };
                                let mut raw = edges.clone();
                                raw.push(dup);
                                out.push(Desc { n, directed, multi, loops, edges: edges.clone(), raw: raw.clone(), dedupe: 1 });
                                let mut kept = edges.clone();
                                kept[0] = (u0, v0, Some(0.5));
                                out.push(Desc { n, directed, multi, loops, edges: kept, raw, dedupe: 2 });
                            }
                        }
                    }
                }
            }
        }
    }
    out
}

type Call = (String, Box<dyn Fn(&Graph<&'static str, ()>) -> Result<(), String> + Send>);

fn calls_for(group: &str, d: &Desc) -> Vec<Call> {
    let mut c: Vec<Call> = vec![];
    let names: Vec<&'static str> = NAMES[..d.n].to_vec();
    // a call that is only required not to panic / hang
    macro_rules! call {
        ($label:expr, move |$g:ident| $body:block) => {
            c.push(($label.to_string(), Box::new(move |$g: &Graph<&'static str, ()>| -> Result<(), String> { $body; Ok(()) })));
        };
        ($label:expr, |$g:ident| $body:block) => {
            c.push(($label.to_string(), Box::new(move |$g: &Graph<&'static str, ()>| -> Result<(), String> { $body; Ok(()) })));
        };
    }
    // a call whose result is compared with an oracle computed from the description of the graph
    macro_rules! oracle {
        ($label:expr, $f:expr) => {
            c.push(($label.to_string(), Box::new($f)));
        };
    }
    let dd = d.clone();
    match group {
        "square" => {
            call!("cluster::square_clustering(&g, None)", |g| { let _ = cluster::square_clustering(g, None); });
            for x in names.clone() {
                call!(format!("cluster::square_clustering(&g, Some(&[\"{}\"]))", x), move |g| { let _ = cluster::square_clustering(g, Some(&[x])); });
            }
        }
        "cluster" => {
            call!("cluster::transitivity(&g)", |g| { let _ = cluster::transitivity(g); });
            call!("cluster::triangles(&g, None)", |g| { let _ = cluster::triangles(g, None); });
            call!("cluster::generalized_degree(&g, None)", |g| { let _ = cluster::generalized_degree(g, None); });
            call!("cluster::clustering(&g, false, None)", |g| { let _ = cluster::clustering(g, false, None); });
            call!("cluster::average_clustering(&g, false, None, true)", |g| { let _ = cluster::average_clustering(g, false, None, true); });
            for x in names.clone() {
                call!(format!("cluster::triangles(&g, Some(&[\"{}\"]))", x), move |g| { let _ = cluster::triangles(g, Some(&[x])); });
                call!(format!("cluster::generalized_degree(&g, Some(&[\"{}\"]))", x), move |g| { let _ = cluster::generalized_degree(g, Some(&[x])); });
                call!(format!("cluster::clustering(&g, false, Some(&[\"{}\"]))", x), move |g| { let _ = cluster::clustering(g, false, Some(&[x])); });
            }
        }
        "eigenvector" => {
            for w in [false, true] {
                call!(format!("eigenvector::eigenvector_centrality(&g, {}, Some(20), None)", w), move |g| { let _ = eigenvector::eigenvector_centrality(g, w, Some(20), None); });
            }
        }
        "betweenness" => {
            for w in [false, true] {
                call!(format!("betweenness::betweenness_centrality(&g, {}, true)", w), move |g| { let _ = betweenness::betweenness_centrality(g, w, true); });
            }
        }
        "closeness" => {
            for w in [false, true] {
                call!(format!("closeness::closeness_centrality(&g, {}, true)", w), move |g| { let _ = closeness::closeness_centrality(g, w, true); });
            }
        }
        "dijkstra" => {
            for w in [false, true] {
                call!(format!("dijkstra::all_pairs(&g, {}, None, None, false, true)", w), move |g| { let _ = dijkstra::all_pairs(g, w, None, None, false, true); });
                call!(format!("dijkstra::all_pairs(&g, {}, Some(\"zz\"), None, false, false)", w), move |g| { let _ = dijkstra::all_pairs(g, w, Some("zz"), None, false, false); });
                for x in names.clone() {
                    call!(format!("dijkstra::single_source(&g, {}, \"{}\", None, None, false, false)", w, x), move |g| { let _ = dijkstra::single_source(g, w, x, None, None, false, false); });
                    call!(format!("dijkstra::single_source(&g, {}, \"{}\", None, None, false, true)", w, x), move |g| { let _ = dijkstra::single_source(g, w, x, None, None, false, true); });
                    call!(format!("dijkstra::single_source(&g, {}, \"{}\", None, Some(1.5), true, true)", w, x), move |g| { let _ = dijkstra::single_source(g, w, x, None, Some(1.5), true, true); });
                    call!(format!("dijkstra::multi_source(&g, {}, vec![\"{}\"], None, None, false, true)", w, x), move |g| { let _ = dijkstra::multi_source(g, w, vec![x], None, None, false, true); });
                    call!(format!("dijkstra::get_all_shortest_paths_involving(&g, \"{}\", {})", x, w), move |g| { let _ = dijkstra::get_all_shortest_paths_involving(g, x, w); });
                }
            }
        }
        "components" => {
            call!("components::connected_components(&g)", |g| { let _ = components::connected_components(g); });
            call!("components::number_of_connected_components(&g)", |g| { let _ = components::number_of_connected_components(g); });
            call!("components::weakly_connected_components(&g)", |g| { let _ = components::weakly_connected_components(g); });
            call!("components::strongly_connected_components(&g)", |g| { let _ = components::strongly_connected_components(g); });
            for k in 1..=3usize {
                call!(format!("components::bfs_equal_size_partitions(&g, {})", k), move |g| { let _ = components::bfs_equal_size_partitions(g, k); });
            }
            for x in names.clone() {
                call!(format!("components::node_connected_component(&g, &\"{}\")", x), move |g| { let _ = components::node_connected_component(g, &x); });
            }
        }
        "graph" => {
            call!("degree::degree_centrality(&g)", |g| { let _ = degree::degree_centrality(g); });
            call!("g.get_density()", |g| { let _ = g.get_density(); });
            call!("g.size(true)", |g| { let _ = g.size(true); });
            call!("g.get_degree_for_all_nodes()", |g| { let _ = g.get_degree_for_all_nodes(); });
            call!("g.get_weighted_degree_for_all_nodes()", |g| { let _ = g.get_weighted_degree_for_all_nodes(); });
            call!("g.get_in_degree_for_all_nodes()", |g| { let _ = g.get_in_degree_for_all_nodes(); });
            call!("g.get_out_degree_for_all_nodes()", |g| { let _ = g.get_out_degree_for_all_nodes(); });
            for x in names.clone() {
                call!(format!("g.breadth_first_search(&\"{}\")", x), move |g| { let _ = g.breadth_first_search(&x); });
                call!(format!("g.get_node_degree(\"{}\")", x), move |g| { let _ = g.get_node_degree(x); });
                call!(format!("g.get_node_weighted_degree(\"{}\")", x), move |g| { let _ = g.get_node_weighted_degree(x); });
                call!(format!("g.get_neighbor_nodes(\"{}\")", x), move |g| { let _ = g.get_neighbor_nodes(x); });
                call!(format!("g.get_successor_nodes(\"{}\")", x), move |g| { let _ = g.get_successor_nodes(x); });
                call!(format!("g.get_edges_for_node(\"{}\")", x), move |g| { let _ = g.get_edges_for_node(x); });
            }
        }

        "components_oracle" => {
            // reachability by Floyd-Warshall over the description
            let n = d.n;
            let mut reach = vec![vec![false; n]; n];
            for i in 0..n { reach[i][i] = true; }
            for (u, v, _) in &d.edges { reach[*u][*v] = true; if !d.directed { reach[*v][*u] = true; } }
            for k in 0..n { for i in 0..n { for j in 0..n { if reach[i][k] && reach[k][j] { reach[i][j] = true; } } } }
            let mut weak = vec![vec![false; n]; n];
            for i in 0..n { weak[i][i] = true; }
            for (u, v, _) in &d.edges { weak[*u][*v] = true; weak[*v][*u] = true; }
            for k in 0..n { for i in 0..n { for j in 0..n { if weak[i][k] && weak[k][j] { weak[i][j] = true; } } } }
            fn check_partition(sets: &Vec<std::collections::HashSet<&'static str>>, n: usize, same: &dyn Fn(usize, usize) -> bool) -> Result<(), String> {
                let idx = |s: &str| NAMES.iter().position(|x| *x == s).unwrap();
                let mut seen = vec![0usize; n];
                for (ci, c) in sets.iter().enumerate() {
                    if c.is_empty() { return Err(format!("set {} is empty", ci)); }
                    for x in c { if idx(x) >= n { return Err(format!("{} is not a node", x)); } seen[idx(x)] += 1; }
                    for x in c { for y in 0..n { if same(idx(x), y) != c.contains(NAMES[y]) { return Err(format!("set {} and node {} / {} disagree with the path relation", ci, x, NAMES[y])); } } }
                }
                for i in 0..n { if seen[i] != 1 { return Err(format!("node {} occurs {} times", NAMES[i], seen[i])); } }
                Ok(())
            }
            let (r1, w1, r2) = (reach.clone(), weak.clone(), reach.clone());
            let directed = d.directed;
            oracle!("components::connected_components(&g)", move |g| match components::connected_components(g) {
                Ok(sets) => if directed { Err("Ok on a directed graph".to_string()) } else { check_partition(&sets, n, &|a, b| r1[a][b]) },
                Err(_) => if directed { Ok(()) } else { Err("Err on an undirected graph".to_string()) },
            });
            oracle!("components::weakly_connected_components(&g)", move |g| match components::weakly_connected_components(g) {
                Ok(sets) => if !directed { Err("Ok on an undirected graph".to_string()) } else { check_partition(&sets, n, &|a, b| w1[a][b]) },
                Err(_) => if !directed { Ok(()) } else { Err("Err on a directed graph".to_string()) },
            });
            oracle!("components::strongly_connected_components(&g)", move |g| match components::strongly_connected_components(g) {
                Ok(sets) => if !directed { Err("Ok on an undirected graph".to_string()) } else { check_partition(&sets, n, &|a, b| r2[a][b] && r2[b][a]) },
                Err(_) => if !directed { Ok(()) } else { Err("Err on a directed graph".to_string()) },
            });
            let r3 = reach.clone();
            oracle!("components::number_of_connected_components(&g)", move |g| match components::number_of_connected_components(g) {
                Ok(k) => { let mut reps = 0; for i in 0..n { if (0..i).all(|j| !r3[i][j]) { reps += 1; } } if directed { Err("Ok on a directed graph".to_string()) } else if k == reps { Ok(()) } else { Err(format!("{} components reported, {} exist", k, reps)) } }
                Err(_) => if directed { Ok(()) } else { Err("Err on an undirected graph".to_string()) },
            });
            for (xi, x) in names.clone().into_iter().enumerate() {
                let r4 = reach.clone();
                oracle!(format!("components::node_connected_component(&g, &\"{}\")", x), move |g| match components::node_connected_component(g, &x) {
                    Ok(set) => { if directed { return Err("Ok on a directed graph".to_string()); } for y in 0..n { if r4[xi][y] != set.contains(NAMES[y]) { return Err(format!("{} wrongly in / out of the component of {}", NAMES[y], x)); } } Ok(()) }
                    Err(_) => if directed { Ok(()) } else { Err("Err on an undirected graph".to_string()) },
                });
                let r5 = reach.clone();
                oracle!(format!("g.breadth_first_search(&\"{}\")", x), move |g| {
                    let l = g.breadth_first_search(&x);
                    if l.first() != Some(&x) { return Err("start node is not listed first".to_string()); }
                    for y in 0..n { let c = l.iter().filter(|z| **z == NAMES[y]).count(); if c != (if r5[xi][y] { 1 } else { 0 }) { return Err(format!("{} listed {} times", NAMES[y], c)); } }
                    Ok(())
                });
            }
            for k in 1..=3usize {
                oracle!(format!("components::bfs_equal_size_partitions(&g, {})", k), move |g| {
                    let parts = components::bfs_equal_size_partitions(g, k);
                    if parts.len() != k { return Err(format!("{} parts", parts.len())); }
                    for p in &parts { if p.len() > n / k + 1 { return Err(format!("a part of {} nodes", p.len())); } }
                    for y in 0..n { let c: usize = parts.iter().map(|p| p.iter().filter(|z| **z == NAMES[y]).count()).sum(); if c != 1 { return Err(format!("{} placed {} times", NAMES[y], c)); } }
                    Ok(())
                });
            }
        }

        "sp_oracle" => {
            // minimal walk lengths by Floyd-Warshall over the description (weights 1.0 / 0.0 / 2.5 add exactly; graphs with an f64::MAX weight are skipped);
            // parallel edges: the smaller weight; unweighted graphs: hop counts
            if dd.edges.iter().any(|(_, _, w)| *w == Some(f64::MAX)) { return c; }
            let n = dd.n;
            let weighted = dd.edges.iter().any(|(_, _, w)| w.is_some());
            let inf = f64::INFINITY;
            let mut dist = vec![vec![inf; n]; n];
            for i in 0..n { dist[i][i] = 0.0; }
            for (u, v, w) in &dd.edges {
                let x = w.unwrap_or(1.0);
                if x < dist[*u][*v] { dist[*u][*v] = x; }
                if !dd.directed && x < dist[*v][*u] { dist[*v][*u] = x; }
            }
            for k in 0..n { for i in 0..n { for j in 0..n { if dist[i][k] + dist[k][j] < dist[i][j] { dist[i][j] = dist[i][k] + dist[k][j]; } } } }
            for (xi, x) in names.clone().into_iter().enumerate() {
                for with_paths in [false, true] {
                    let dm = dist.clone();
                    oracle!(format!("dijkstra::single_source(&g, {}, \"{}\", None, None, false, {})", weighted, x, with_paths), move |g| {
                        let r = match dijkstra::single_source(g, weighted, x, None, None, false, with_paths) { Ok(r) => r, Err(e) => return Err(format!("Err({:?})", e.kind)) };
                        for y in 0..n {
                            match r.get(NAMES[y]) {
                                Some(info) => { if dm[xi][y] == inf { return Err(format!("{} reported at {} but is not reachable", NAMES[y], info.distance)); }
                                                if info.distance != dm[xi][y] { return Err(format!("distance to {} is {}, the minimum over all walks is {}", NAMES[y], info.distance, dm[xi][y])); } }
                                None => if dm[xi][y] != inf { return Err(format!("{} is reachable at {} but not reported", NAMES[y], dm[xi][y])); },
                            }
                        }
                        Ok(())
                    });
                }
            }
            let dm = dist.clone();
            oracle!(format!("dijkstra::all_pairs(&g, {}, None, None, false, false)", weighted), move |g| {
                let r = match dijkstra::all_pairs(g, weighted, None, None, false, false) { Ok(r) => r, Err(e) => return Err(format!("Err({:?})", e.kind)) };
                for x in 0..n { for y in 0..n {
                    let got = r.get(NAMES[x]).and_then(|m| m.get(NAMES[y])).map(|i| i.distance);
                    let want = if dm[x][y] == inf { None } else { Some(dm[x][y]) };
                    if got != want { return Err(format!("all_pairs[{}][{}] = {:?}, the minimum over all walks is {:?}", NAMES[x], NAMES[y], got, want)); }
                } }
                Ok(())
            });
        }

        "sp_options_oracle" => {
            // C08: a cutoff keeps exactly the entries with distance <= c (unchanged), a target is reported with the unrestricted distance (other reported
            // nodes: a subset with unchanged values), with and without paths; distances by Floyd-Warshall over the description as in sp_oracle
            if dd.edges.iter().any(|(_, _, w)| *w == Some(f64::MAX)) { return c; }
            let n = dd.n;
            let weighted = dd.edges.iter().any(|(_, _, w)| w.is_some());
            let inf = f64::INFINITY;
            let mut dist = vec![vec![inf; n]; n];
            for i in 0..n { dist[i][i] = 0.0; }
            for (u, v, w) in &dd.edges {
                let x = w.unwrap_or(1.0);
                if x < dist[*u][*v] { dist[*u][*v] = x; }
                if !dd.directed && x < dist[*v][*u] { dist[*v][*u] = x; }
            }
            for k in 0..n { for i in 0..n { for j in 0..n { if dist[i][k] + dist[k][j] < dist[i][j] { dist[i][j] = dist[i][k] + dist[k][j]; } } } }
            for (xi, x) in names.clone().into_iter().enumerate() {
                // every distinct distance value from x and a value between / above them
                let mut cuts: Vec<f64> = vec![];
                for y in 0..n { let dv = dist[xi][y]; if dv != inf { for cv in [dv, dv + 0.25] { if !cuts.contains(&cv) { cuts.push(cv); } } } }
                for with_paths in [false, true] {
                    for first_only in [false, true] {
                        if first_only && !with_paths { continue; }
                        for cv in cuts.clone() {
                            let dm = dist.clone();
                            oracle!(format!("dijkstra::single_source(&g, {}, \"{}\", None, Some({:?}), {}, {})", weighted, x, cv, first_only, with_paths), move |g| {
                                let r = match dijkstra::single_source(g, weighted, x, None, Some(cv), first_only, with_paths) { Ok(r) => r, Err(e) => return Err(format!("Err({:?})", e.kind)) };
                                for y in 0..n {
                                    match r.get(NAMES[y]) {
                                        Some(info) => { if !(dm[xi][y] <= cv) { return Err(format!("{} reported at {} but its distance {} is above the cutoff", NAMES[y], info.distance, dm[xi][y])); }
                                                        if info.distance != dm[xi][y] { return Err(format!("distance to {} is {}, the unrestricted search gives {}", NAMES[y], info.distance, dm[xi][y])); }
                                                        if !with_paths && !info.paths.is_empty() { return Err(format!("paths to {} reported with with_paths=false", NAMES[y])); } }
                                        None => if dm[xi][y] <= cv { return Err(format!("{} has distance {} <= cutoff but is not reported", NAMES[y], dm[xi][y])); },
                                    }
                                }
                                Ok(())
                            });
                        }
                        for (ti, t) in names.clone().into_iter().enumerate() {
                            let dm = dist.clone();
                            oracle!(format!("dijkstra::single_source(&g, {}, \"{}\", Some(\"{}\"), None, {}, {})", weighted, x, t, first_only, with_paths), move |g| {
                                let r = match dijkstra::single_source(g, weighted, x, Some(t), None, first_only, with_paths) { Ok(r) => r, Err(e) => return Err(format!("Err({:?})", e.kind)) };
                                match r.get(t) {
                                    Some(info) => if info.distance != dm[xi][ti] { return Err(format!("distance to the target {} is {}, the unrestricted search gives {:?}", t, info.distance, dm[xi][ti])); },
                                    None => if dm[xi][ti] != inf { return Err(format!("the target {} is reachable at {} but not reported", t, dm[xi][ti])); },
                                }
                                for y in 0..n {
                                    if let Some(info) = r.get(NAMES[y]) {
                                        if info.distance != dm[xi][y] { return Err(format!("with a target, distance to {} is {}, the unrestricted search gives {}", NAMES[y], info.distance, dm[xi][y])); }
                                    }
                                }
                                Ok(())
                            });
                        }
                    }
                }
            }
        }

        "closeness_oracle" => {
            // closeness of x from the minimal distances TO x (Floyd-Warshall over the description), by the documented formula, same operation order
            if dd.edges.iter().any(|(_, _, w)| *w == Some(f64::MAX)) { return c; }
            let n = dd.n;
            let weighted = dd.edges.iter().any(|(_, _, w)| w.is_some());
            let inf = f64::INFINITY;
            let mut dist = vec![vec![inf; n]; n];
            for i in 0..n { dist[i][i] = 0.0; }
            for (u, v, w) in &dd.edges {
                let x = w.unwrap_or(1.0);
                if x < dist[*u][*v] { dist[*u][*v] = x; }
                if !dd.directed && x < dist[*v][*u] { dist[*v][*u] = x; }
            }
            for k in 0..n { for i in 0..n { for j in 0..n { if dist[i][k] + dist[k][j] < dist[i][j] { dist[i][j] = dist[i][k] + dist[k][j]; } } } }
            for wf in [false, true] {
                let dm = dist.clone();
                oracle!(format!("closeness::closeness_centrality(&g, {}, {})", weighted, wf), move |g| {
                    let r = match closeness::closeness_centrality(g, weighted, wf) { Ok(r) => r, Err(e) => return Err(format!("Err({:?})", e.kind)) };
                    if r.len() != n { return Err(format!("{} entries for {} nodes", r.len(), n)); }
                    for x in 0..n {
                        let ds: Vec<f64> = (0..n).filter(|y| dm[*y][x] != inf).map(|y| dm[y][x]).collect();
                        let tot: f64 = ds.iter().sum();
                        let mut want = 0.0;
                        if tot > 0.0 && n > 1 {
                            let s = (ds.len() - 1) as f64;
                            want = s / tot;
                            if wf { want *= s / (n - 1) as f64; }
                        }
                        match r.get(NAMES[x]) { Some(got) if (*got - want).abs() <= 1e-12 * (1.0 + want.abs()) => {}, other => return Err(format!("closeness of {} is {:?}, the formula over minimal incoming distances gives {}", NAMES[x], other, want)) }
                    }
                    Ok(())
                });
            }
        }
        "eigenvector_oracle" => {
            // the documented power iteration replayed over the description (uniform start, x <- x + sum over out-steps, L2 normalisation, L1 change
            // test against n * tolerance): same verdict (Ok at the same iteration / PowerIterationFailedConvergence), same values up to summation order,
            // one entry per node, no negative entry, Euclidean norm 1. Multi-edge graphs must be refused with WrongMethod.
            if dd.edges.iter().any(|(_, _, w)| *w == Some(f64::MAX)) { return c; }
            let n = dd.n;
            let weighted = dd.edges.iter().any(|(_, _, w)| w.is_some());
            if dd.multi {
                oracle!(format!("eigenvector::eigenvector_centrality(&g, {}, Some(50), None)", weighted), move |g| {
                    match eigenvector::eigenvector_centrality(g, weighted, Some(50), None) { Err(e) if format!("{:?}", e.kind) == "WrongMethod" => Ok(()), Err(e) => Err(format!("Err({:?}) on a multi-edge graph", e.kind)), Ok(_) => Err("Ok on a multi-edge graph".to_string()) }
                });
                return c;
            }
            // steps a -> b with their weight, each stored pair once per direction it can be walked
            let mut steps: Vec<(usize, usize, f64)> = vec![];
            for (u, v, w) in &dd.edges {
                let x = if weighted { w.unwrap_or(1.0) } else { 1.0 };
                steps.push((*u, *v, x));
                if !dd.directed && u != v { steps.push((*v, *u, x)); }
            }
            for (max_iter, tol) in [(0u32, 1.0e-6f64), (1, 1.0e-6), (1, 0.3), (2, 0.3), (3, 1.0e-2), (100, 1.0e-6), (100, 1.0e-12)] {
                let st = steps.clone();
                oracle!(format!("eigenvector::eigenvector_centrality(&g, {}, Some({}), Some({:e}))", weighted, max_iter, tol), move |g| {
                    // oracle run; `None` = exhausted; knife-edge comparisons (y within 1e-9 relative of the threshold) make the input undecidable for the oracle: skipped
                    let mut x = vec![1.0 / n as f64; n];
                    let mut want: Option<Vec<f64>> = None;
                    for _ in 0..max_iter {
                        let xl = x.clone();
                        for (a, b, w) in &st { x[*b] += xl[*a] * w; }
                        let mut norm = x.iter().map(|v| v * v).sum::<f64>().sqrt();
                        if norm == 0.0 { norm = 1.0; }
                        for v in x.iter_mut() { *v /= norm; }
                        let y: f64 = x.iter().zip(xl.iter()).map(|(a, b)| (a - b).abs()).sum();
                        let thr = n as f64 * tol;
                        if (y - thr).abs() <= 1e-9 * thr.abs() { return Ok(()); }
                        if y < thr { want = Some(x.clone()); break; }
                    }
                    match (eigenvector::eigenvector_centrality(g, weighted, Some(max_iter), Some(tol)), want) {
                        (Err(e), None) => if format!("{:?}", e.kind) == "PowerIterationFailedConvergence" { Ok(()) } else { Err(format!("Err({:?}) where the iteration is exhausted", e.kind)) },
                        (Err(e), Some(_)) => Err(format!("Err({:?}) although the documented iteration converges within max_iter", e.kind)),
                        (Ok(r), None) => Err(format!("Ok({:?}) although the documented iteration does not pass the convergence test within max_iter", r)),
                        (Ok(r), Some(w)) => {
                            if r.len() != n { return Err(format!("{} entries for {} nodes", r.len(), n)); }
                            let mut sq = 0.0;
                            for i in 0..n {
                                match r.get(NAMES[i]) {
                                    Some(got) if *got >= 0.0 && (*got - w[i]).abs() <= 1e-9 => { sq += got * got; }
                                    other => return Err(format!("centrality of {} is {:?}, the documented iteration gives {}", NAMES[i], other, w[i])),
                                }
                            }
                            if n > 0 && (sq.sqrt() - 1.0).abs() > 1e-9 && sq != 0.0 { return Err(format!("Euclidean norm is {}", sq.sqrt())); }
                            Ok(())
                        }
                    }
                });
            }
        }
        "derived_oracle" => {
            // reverse / get_subgraph / set_all_edge_weights / to_single_edges against their definitions over the description (edge multisets as sorted lists)
            let n = dd.n;
            let directed = dd.directed;
            let multi = dd.multi;
            fn key(u: &str, v: &str, w: f64, directed: bool) -> (String, String, u64) {
                let (a, b) = if directed || u <= v { (u, v) } else { (v, u) };
                (a.to_string(), b.to_string(), if w.is_nan() { u64::MAX } else { w.to_bits() })
            }
            fn edges_of(g: &Graph<&'static str, ()>, directed: bool) -> Vec<(String, String, u64)> {
                let mut v: Vec<_> = g.get_all_edges().iter().map(|e| key(e.u, e.v, e.weight, directed)).collect();
                v.sort();
                v
            }
            let orig: Vec<(usize, usize, Option<f64>)> = dd.edges.clone();
            let o1 = orig.clone();
            oracle!("g.reverse() and g.reverse().reverse()", move |g| match g.reverse() {
                Err(_) => if directed { Err("Err on a directed graph".to_string()) } else { Ok(()) },
                Ok(r) => {
                    if !directed { return Err("Ok on an undirected graph".to_string()); }
                    let mut want: Vec<_> = o1.iter().map(|(u, v, w)| key(NAMES[*v], NAMES[*u], w.unwrap_or(f64::NAN), true)).collect();
                    want.sort();
                    if edges_of(&r, true) != want { return Err("reverse() is not the graph with every edge flipped".to_string()); }
                    if r.number_of_nodes() != n { return Err("reverse() changed the node set".to_string()); }
                    let rr = match r.reverse() { Ok(x) => x, Err(_) => return Err("reverse of the reverse fails".to_string()) };
                    if edges_of(&rr, true) != edges_of(g, true) { return Err("reverse applied twice does not restore the edges".to_string()); }
                    Ok(())
                }
            });
            for mask in 0..(1u32 << n) {
                let sel: Vec<&'static str> = (0..n).filter(|i| mask & (1 << i) != 0).map(|i| NAMES[i]).collect();
                let o2 = orig.clone();
                oracle!(format!("g.get_subgraph(&{:?})", sel), move |g| {
                    let sg = g.get_subgraph(&sel);
                    let mut want: Vec<_> = o2.iter().filter(|(u, v, _)| sel.contains(&NAMES[*u]) && sel.contains(&NAMES[*v])).map(|(u, v, w)| key(NAMES[*u], NAMES[*v], w.unwrap_or(f64::NAN), directed)).collect();
                    want.sort();
                    if sg.number_of_nodes() != sel.len() { return Err(format!("{} nodes in the subgraph of {} names", sg.number_of_nodes(), sel.len())); }
                    if edges_of(&sg, directed) != want { return Err("the subgraph does not hold exactly the edges between the selected nodes".to_string()); }
                    Ok(())
                });
            }
            let o3 = orig.clone();
            oracle!("g.set_all_edge_weights(7.0)", move |g| {
                let r = g.set_all_edge_weights(7.0);
                let mut want: Vec<_> = o3.iter().map(|(u, v, _)| key(NAMES[*u], NAMES[*v], 7.0, directed)).collect();
                want.sort();
                if edges_of(&r, directed) != want || r.number_of_nodes() != n { return Err("set_all_edge_weights changed more than the weights".to_string()); }
                Ok(())
            });
            let o4 = orig.clone();
            oracle!("g.to_single_edges()", move |g| match g.to_single_edges() {
                Err(_) => if multi { Err("Err on a multi-edge graph".to_string()) } else { Ok(()) },
                Ok(r) => {
                    if !multi { return Err("Ok on a single-edge graph".to_string()); }
                    let mut pairs: Vec<(String, String)> = o4.iter().map(|(u, v, _)| { let k = key(NAMES[*u], NAMES[*v], 0.0, directed); (k.0, k.1) }).collect();
                    pairs.sort(); pairs.dedup();
                    let mut got: Vec<(String, String)> = edges_of(&r, directed).into_iter().map(|k| (k.0, k.1)).collect();
                    got.sort();
                    if got != pairs { return Err("to_single_edges does not hold one edge per stored pair".to_string()); }
                    if r.number_of_nodes() != n { return Err("to_single_edges changed the node set".to_string()); }
                    Ok(())
                }
            });
        }

        "betweenness_oracle" => {
            // betweenness by its definition: for every node v the sum over ordered pairs (s, t), s != v != t, of the fraction of shortest s-t paths through v
            // (hop counts, or strictly positive weights; parallel edges are one traversal entry with the smaller weight); halved on undirected graphs when
            // not normalized, divided by (n-1)(n-2) when normalized and n > 2
            if dd.multi { return c; }
            if dd.edges.iter().any(|(_, _, w)| matches!(w, Some(x) if !(*x > 0.0) || *x == f64::MAX)) { return c; }
            let n = dd.n;
            let weighted = dd.edges.iter().any(|(_, _, w)| w.is_some());
            let inf = f64::INFINITY;
            let mut wgt = vec![vec![inf; n]; n];
            for (u, v, w) in &dd.edges {
                if u == v { continue; }
                let x = w.unwrap_or(1.0);
                if x < wgt[*u][*v] { wgt[*u][*v] = x; }
                if !dd.directed && x < wgt[*v][*u] { wgt[*v][*u] = x; }
            }
            let mut dist = wgt.clone();
            for i in 0..n { dist[i][i] = 0.0; }
            for k in 0..n { for i in 0..n { for j in 0..n { if dist[i][k] + dist[k][j] < dist[i][j] { dist[i][j] = dist[i][k] + dist[k][j]; } } } }
            // number of shortest paths, in order of increasing distance from s
            let mut sigma = vec![vec![0.0f64; n]; n];
            for s in 0..n {
                let mut order: Vec<usize> = (0..n).filter(|t| dist[s][*t] != inf).collect();
                order.sort_by(|a, b| dist[s][*a].partial_cmp(&dist[s][*b]).unwrap());
                sigma[s][s] = 1.0;
                for t in order { if t == s { continue; } let mut k = 0.0; for u in 0..n { if u != t && wgt[u][t] != inf && dist[s][u] != inf && dist[s][u] + wgt[u][t] == dist[s][t] { k += sigma[s][u]; } } sigma[s][t] = k; }
            }
            let mut raw = vec![0.0f64; n];
            for v in 0..n { for s in 0..n { for t in 0..n {
                if s == v || t == v || s == t || dist[s][t] == inf { continue; }
                if dist[s][v] != inf && dist[v][t] != inf && dist[s][v] + dist[v][t] == dist[s][t] { raw[v] += sigma[s][v] * sigma[v][t] / sigma[s][t]; }
            } } }
            let directed = dd.directed;
            for normalized in [false, true] {
                let rw = raw.clone();
                oracle!(format!("betweenness::betweenness_centrality(&g, {}, {})", weighted, normalized), move |g| {
                    let r = match betweenness::betweenness_centrality(g, weighted, normalized) { Ok(r) => r, Err(e) => return Err(format!("Err({:?})", e.kind)) };
                    if r.len() != n { return Err(format!("{} entries for {} nodes", r.len(), n)); }
                    for v in 0..n {
                        // the scaling rule of get_scale (as NetworkX): normalized and n > 2: divided by (n-1)(n-2); not normalized: halved on undirected graphs
                        let mut want = rw[v];
                        if normalized { if n > 2 { want /= ((n - 1) * (n - 2)) as f64; } } else if !directed { want *= 0.5; }
                        let got = match r.get(NAMES[v]) { Some(x) => *x, None => return Err(format!("no entry for {}", NAMES[v])) };
                        if (got - want).abs() > 1e-9 * (1.0 + want.abs()) { return Err(format!("betweenness of {} is {}, the pair sum gives {}", NAMES[v], got, want)); }
                    }
                    Ok(())
                });
            }
        }

        "generators_oracle" => {
            // not a graph enumeration: run once (on the empty description) - complete_graph for n <= 7, fast_gnp_random_graph for a grid of n, p and seeds
            if !(dd.n == 0 && !dd.directed && !dd.multi && !dd.loops) { return c; }
            static DONE: std::sync::atomic::AtomicBool = std::sync::atomic::AtomicBool::new(false);
            if DONE.swap(true, Ordering::SeqCst) { return c; }
            use graphrs::generators::{classic, random, social};
            use graphrs::ErrorKind;
            for directed in [false, true] {
                for n in 0..=7i32 {
                    oracle!(format!("classic::complete_graph({}, {})", n, directed), move |_g| {
                        let k = classic::complete_graph(n, directed);
                        if k.number_of_nodes() != n as usize { return Err(format!("{} nodes", k.number_of_nodes())); }
                        for i in 0..n { if !k.has_node(&i) { return Err(format!("node {} is missing", i)); } }
                        let want = if directed { n * (n - 1) } else { n * (n - 1) / 2 };
                        if k.number_of_edges() != want.max(0) as usize { return Err(format!("{} edges, {} pairs of distinct nodes", k.number_of_edges(), want)); }
                        for i in 0..n { for j in 0..n {
                            let has = k.get_edge(i, j).is_ok();
                            if has != (i != j) { return Err(format!("edge ({}, {}) present: {}", i, j, has)); }
                        } }
                        Ok(())
                    });
                }
                for p in [0.0, 1.0, -0.1, 1.5, f64::NAN] {
                    oracle!(format!("random::fast_gnp_random_graph(5, {}, {}, Some(1))", p, directed), move |_g| match random::fast_gnp_random_graph(5, p, directed, Some(1)) {
                        Err(e) if matches!(e.kind, ErrorKind::InvalidArgument) => Ok(()),
                        Err(e) => Err(format!("Err({:?})", e.kind)),
                        Ok(_) => if p.is_nan() { Ok(()) } else { Err("Ok for a probability outside (0, 1)".to_string()) },
                    });
                }
                for n in [1i32, 2, 5, 12] {
                    for p in [0.05, 0.5, 0.95] {
                        oracle!(format!("random::fast_gnp_random_graph({}, {}, {}, Some(0..200))", n, p, directed), move |_g| {
                            let pairs = if directed { n * (n - 1) } else { n * (n - 1) / 2 } as f64;
                            let mut total = 0usize;
                            for seed in 0..200u64 {
                                let k = match random::fast_gnp_random_graph(n, p, directed, Some(seed)) { Ok(k) => k, Err(e) => return Err(format!("seed {}: Err({:?})", seed, e.kind)) };
                                if k.number_of_nodes() != n as usize { return Err(format!("seed {}: {} nodes", seed, k.number_of_nodes())); }
                                let mut seen = std::collections::HashSet::new();
                                for e in k.get_all_edges() {
                                    if e.u == e.v { return Err(format!("seed {}: self-loop at {}", seed, e.u)); }
                                    if e.u < 0 || e.u >= n || e.v < 0 || e.v >= n { return Err(format!("seed {}: edge ({}, {}) out of range", seed, e.u, e.v)); }
                                    let key = if directed || e.u < e.v { (e.u, e.v) } else { (e.v, e.u) };
                                    if !seen.insert(key) { return Err(format!("seed {}: pair {:?} twice", seed, key)); }
                                }
                                total += seen.len();
                            }
                            if n >= 5 {
                                // mean number of edges over 200 seeds: p * pairs within the relative 1/(n-1) the skipping scheme needs, plus 5 standard errors
                                let mean = total as f64 / 200.0;
                                let want = p * pairs;
                                let tol = want / (n - 1) as f64 + 5.0 * (pairs * p * (1.0 - p) / 200.0).sqrt();
                                if (mean - want).abs() > tol { return Err(format!("mean number of edges over 200 seeds is {}, expected {} +- {}", mean, want, tol)); }
                            }
                            Ok(())
                        });
                    }
                }
            }
            oracle!("social::karate_club_graph()", |_g| {
                let k = social::karate_club_graph();
                if k.number_of_nodes() != 34 || k.number_of_edges() != 78 || k.specs.directed { return Err(format!("{} nodes, {} edges, directed: {}", k.number_of_nodes(), k.number_of_edges(), k.specs.directed)); }
                Ok(())
            });
        }

        "queries_oracle" => {
            // every query answers from the same edge list: the description (the edges in the order they were added) is the reference
            use graphrs::ErrorKind;
            let n = dd.n;
            let directed = dd.directed;
            let multi = dd.multi;
            let es: Vec<(usize, usize, Option<f64>)> = dd.edges.clone();
            let bits = |w: f64| if w.is_nan() { u64::MAX } else { w.to_bits() };
            let e0 = es.clone();
            oracle!("g.get_all_edges() against the added edges", move |g| {
                let mut got: Vec<(String, String, u64)> = g.get_all_edges().iter().map(|e| { let (a, b) = if directed || e.u <= e.v { (e.u, e.v) } else { (e.v, e.u) }; (a.to_string(), b.to_string(), if e.weight.is_nan() { u64::MAX } else { e.weight.to_bits() }) }).collect();
                let mut want: Vec<(String, String, u64)> = e0.iter().map(|(u, v, w)| { let (a, b) = if directed || NAMES[*u] <= NAMES[*v] { (NAMES[*u], NAMES[*v]) } else { (NAMES[*v], NAMES[*u]) }; (a.to_string(), b.to_string(), bits(w.unwrap_or(f64::NAN))) }).collect();
                got.sort(); want.sort();
                if got != want { return Err(format!("get_all_edges lists {:?}, added were {:?}", got, want)); }
                Ok(())
            });
            let mut all: Vec<&'static str> = names.clone();
            all.push("zz");
            for x in all.clone() { for y in all.clone() {
                let e1 = es.clone();
                oracle!(format!("g.get_edge / get_edges (\"{}\", \"{}\")", x, y), move |g| {
                    let known = |s: &str| NAMES[..n].contains(&s);
                    let pair: Vec<u64> = e1.iter().filter(|(u, v, _)| (NAMES[*u] == x && NAMES[*v] == y) || (!directed && NAMES[*u] == y && NAMES[*v] == x)).map(|(_, _, w)| bits(w.unwrap_or(f64::NAN))).collect();
                    let kind = |r: &Result<u64, graphrs::Error>| match r { Ok(_) => "Ok".to_string(), Err(e) => format!("{:?}", e.kind) };
                    let one = g.get_edge(x, y).map(|e| bits(e.weight));
                    let many = g.get_edges(x, y).map(|v| v.iter().map(|e| bits(e.weight)).collect::<Vec<u64>>());
                    if multi {
                        if !matches!(&one, Err(e) if matches!(e.kind, ErrorKind::WrongMethod)) { return Err(format!("get_edge on a multi-edge graph: {}", kind(&one))); }
                        match &many {
                            Err(e) if !known(x) || !known(y) => if !matches!(e.kind, ErrorKind::NodeNotFound) { return Err(format!("get_edges with an absent name: {:?}", e.kind)); },
                            Err(e) => if !(pair.is_empty() && matches!(e.kind, ErrorKind::EdgeNotFound)) { return Err(format!("get_edges = Err({:?}), {} edges were added between them", e.kind, pair.len())); },
                            Ok(v) => if !known(x) || !known(y) || *v != pair { return Err(format!("get_edges returns {} edges {:?}, added between them in this order: {:?}", v.len(), v, pair)); },
                        }
                    } else {
                        if !matches!(&many, Err(e) if matches!(e.kind, ErrorKind::WrongMethod)) { return Err("get_edges on a single-edge graph is not WrongMethod".to_string()); }
                        match &one {
                            Err(e) if !known(x) || !known(y) => if !matches!(e.kind, ErrorKind::NodeNotFound) { return Err(format!("get_edge with an absent name: {:?}", e.kind)); },
                            Err(e) => if !(pair.is_empty() && matches!(e.kind, ErrorKind::EdgeNotFound)) { return Err(format!("get_edge = Err({:?}), {} edges were added between them", e.kind, pair.len())); },
                            Ok(w) => if !known(x) || !known(y) || pair.len() != 1 || pair[0] != *w { return Err(format!("get_edge returns weight bits {}, added between them: {:?}", w, pair)); },
                        }
                    }
                    Ok(())
                });
            } }
            for x in names.clone() {
                let e2 = es.clone();
                oracle!(format!("successor / predecessor / neighbor nodes of \"{}\"", x), move |g| {
                    let set = |r: Vec<&std::sync::Arc<graphrs::Node<&'static str, ()>>>| { let mut v: Vec<&'static str> = r.iter().map(|nn| nn.name).collect(); v.sort(); v.dedup(); v };
                    let mut succ: Vec<&'static str> = e2.iter().filter(|(u, _, _)| NAMES[*u] == x).map(|(_, v, _)| NAMES[*v]).collect();
                    let mut pred: Vec<&'static str> = e2.iter().filter(|(_, v, _)| NAMES[*v] == x).map(|(u, _, _)| NAMES[*u]).collect();
                    succ.sort(); succ.dedup(); pred.sort(); pred.dedup();
                    if directed {
                        match g.get_successor_nodes(x) { Ok(r) => if set(r) != succ { return Err(format!("successors of {} differ from the added edges {:?}", x, succ)); }, Err(e) => return Err(format!("get_successor_nodes: {:?}", e.kind)) }
                        match g.get_predecessor_nodes(x) { Ok(r) => if set(r) != pred { return Err(format!("predecessors of {} differ from the added edges {:?}", x, pred)); }, Err(e) => return Err(format!("get_predecessor_nodes: {:?}", e.kind)) }
                    } else {
                        if !matches!(g.get_successor_nodes(x), Err(e) if matches!(e.kind, ErrorKind::WrongMethod)) { return Err("get_successor_nodes on an undirected graph is not WrongMethod".to_string()); }
                        if !matches!(g.get_predecessor_nodes(x), Err(e) if matches!(e.kind, ErrorKind::WrongMethod)) { return Err("get_predecessor_nodes on an undirected graph is not WrongMethod".to_string()); }
                        let mut nb = succ.clone(); nb.extend(pred.clone()); nb.sort(); nb.dedup();
                        match g.get_neighbor_nodes(x) { Ok(r) => if set(r) != nb { return Err(format!("neighbors of {} differ from the added edges {:?}", x, nb)); }, Err(e) => return Err(format!("get_neighbor_nodes: {:?}", e.kind)) }
                    }
                    if !g.has_node(&x) { return Err(format!("has_node({}) is false", x)); }
                    Ok(())
                });
            }
        }
        "counts_oracle" => {
            let m = dd.edges.len();
            let n = dd.n;
            let directed = dd.directed;
            oracle!("g.number_of_nodes() / number_of_edges() / size(false)", move |g| {
                if g.number_of_nodes() != n { return Err(format!("number_of_nodes = {}", g.number_of_nodes())); }
                if g.number_of_edges() != m { return Err(format!("number_of_edges = {}, {} edges were added", g.number_of_edges(), m)); }
                if g.size(false) != m as f64 { return Err(format!("size(false) = {}, {} edges were added", g.size(false), m)); }
                Ok(())
            });
            let es = dd.edges.clone();
            oracle!("degrees against the edge list", move |g| {
                let map = g.get_degree_for_all_nodes();
                for y in 0..n {
                    let outd = es.iter().filter(|(u, _, _)| *u == y).count();
                    let ind = es.iter().filter(|(_, v, _)| *v == y).count();
                    let want = outd + ind; // a self-loop is counted at both ends
                    let got = g.get_node_degree(NAMES[y]);
                    if got != Some(want) { return Err(format!("get_node_degree({}) = {:?}, the edge list gives {}", NAMES[y], got, want)); }
                    if map.get(NAMES[y]) != Some(&want) { return Err(format!("get_degree_for_all_nodes[{}] = {:?}, the edge list gives {}", NAMES[y], map.get(NAMES[y]), want)); }
                    if directed {
                        if g.get_node_in_degree(NAMES[y]) != Some(ind) { return Err(format!("get_node_in_degree({}) = {:?}, want {}", NAMES[y], g.get_node_in_degree(NAMES[y]), ind)); }
                        if g.get_node_out_degree(NAMES[y]) != Some(outd) { return Err(format!("get_node_out_degree({}) = {:?}, want {}", NAMES[y], g.get_node_out_degree(NAMES[y]), outd)); }
                    }
                }
                Ok(())
            });
        }
        "partition_oracle" => {
            use graphrs::algorithms::community::partitions;
            let n = dd.n;
            // all families of at most 3 sets over the node names plus one foreign name
            let universe: Vec<&'static str> = NAMES[..n].iter().cloned().chain(std::iter::once("zz")).collect();
            let mut sets: Vec<Vec<&'static str>> = vec![];
            for mask in 0..(1u32 << universe.len()) { sets.push(universe.iter().enumerate().filter(|(i, _)| mask & (1 << i) != 0).map(|(_, x)| *x).collect()); }
            let mut fams: Vec<Vec<Vec<&'static str>>> = vec![vec![]];
            if n <= 3 {
                for a in &sets { fams.push(vec![a.clone()]); for b in &sets { fams.push(vec![a.clone(), b.clone()]); } }
            }
            for fam in fams {
                let f2 = fam.clone();
                oracle!(format!("partitions::is_partition / modularity on {:?}", fam), move |g| {
                    let comms: Vec<std::collections::HashSet<&'static str>> = f2.iter().map(|s| s.iter().cloned().collect()).collect();
                    let mut count = vec![0usize; n];
                    let mut foreign = false;
                    for c in &comms { for x in c { match NAMES[..n].iter().position(|y| y == x) { Some(i) => count[i] += 1, None => foreign = true } } }
                    let want = !foreign && count.iter().all(|c| *c == 1);
                    let got = partitions::is_partition(g, &comms);
                    if got != want { return Err(format!("is_partition = {}, by definition {}", got, want)); }
                    let mo = partitions::modularity(g, &comms, false, None);
                    if mo.is_ok() != want { return Err(format!("modularity is_ok = {}, a partition: {}", mo.is_ok(), want)); }
                    Ok(())
                });
            }
        }
        _ => {}
    }
    c
}

#[test]
fn search() {
    let group = std::env::var("VERIF_SEARCH_GROUP").unwrap_or_default();
    std::panic::set_hook(Box::new(|_| {}));
    let current: Arc<Mutex<String>> = Arc::new(Mutex::new(String::new()));
    let cur2 = current.clone();
    let worker = std::thread::spawn(move || {
        let mut tried: u64 = 0;
        for d in all_descs() {
            let g = match d.build() {
                Some(g) => g,
                None => continue,
            };
            for (label, f) in calls_for(&group, &d) {
                *cur2.lock().unwrap() = format!("{{\"call\":{:?},\"graph\":{}}}", label, d.show());
                BEAT.fetch_add(1, Ordering::SeqCst);
                tried += 1;
                let r = catch_unwind(AssertUnwindSafe(|| f(&g)));
                if let Ok(Err(why)) = &r {
                    println!("FOUND {{\"outcome\":\"wrong result\",\"message\":{:?},\"input\":{}}}", why, cur2.lock().unwrap());
                    std::process::exit(0);
                }
                if let Err(p) = r {
                    let msg = p.downcast_ref::<String>().cloned().or_else(|| p.downcast_ref::<&str>().map(|s| s.to_string())).unwrap_or_default();
                    println!("FOUND {{\"outcome\":\"panic\",\"message\":{:?},\"input\":{}}}", msg, cur2.lock().unwrap());
                    std::process::exit(0);
                }
            }
        }
        println!("NOTFOUND tried={}", tried);
        std::process::exit(0);
    });
    let mut last = 0;
    let mut stale = 0;
    loop {
        std::thread::sleep(std::time::Duration::from_millis(500));
        let b = BEAT.load(Ordering::SeqCst);
        if b == last {
            stale += 1;
        } else {
            stale = 0;
            last = b;
        }
        if stale >= 16 {
            println!("FOUND {{\"outcome\":\"hang (no progress for 8 s)\",\"input\":{}}}", current.lock().unwrap());
            std::process::exit(0);
        }
        if worker.is_finished() {
            break;
        }
    }
}
