// Demonstration of the defect repaired by /repo commit "fix: is_partition accepts overlapping communities".
// Copy to /repo/tests/ and run `cargo test --offline --test C12_is_partition_overlap`.
// On the tree before the fix is_partition returns true and modularity returns Ok for these communities; the test fails.
use graphrs::{algorithms::community::partitions, Graph, GraphSpecs, Node};
use std::collections::HashSet;
#[test]
fn overlapping_communities_are_not_a_partition() {
    let mut g: Graph<&str, ()> = Graph::new(GraphSpecs::undirected_create_missing());
    g.add_nodes(vec![Node::from_name("a"), Node::from_name("b"), Node::from_name("c")]);
    let c1: HashSet<&str> = vec!["a", "b"].into_iter().collect();
    let c2: HashSet<&str> = vec!["a"].into_iter().collect();
    // "a" is listed twice and "c" not at all
    assert!(!partitions::is_partition(&g, &vec![c1.clone(), c2.clone()]));
    assert!(partitions::modularity(&g, &vec![c1, c2], false, None).is_err());
}
