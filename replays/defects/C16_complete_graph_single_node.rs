// Demonstration of the defect repaired by /repo commit "fix: complete_graph(1, ..) has no node".
// Copy to /repo/tests/ and run `cargo test --offline --test C16_complete_graph_single_node`.
// On the tree before the fix complete_graph(1, directed) is the empty graph: nodes were only created as endpoints of edges, and one node has no pair.
use graphrs::generators::classic;
#[test]
fn complete_graph_has_the_nodes_0_to_n_minus_1() {
    for directed in [false, true] {
        for n in 0..6i32 {
            let g = classic::complete_graph(n, directed);
            assert_eq!(g.number_of_nodes(), n as usize, "complete_graph({}, {})", n, directed);
            for i in 0..n {
                assert!(g.has_node(&i));
            }
            let pairs = if directed { n * (n - 1) } else { n * (n - 1) / 2 };
            assert_eq!(g.number_of_edges(), pairs.max(0) as usize);
        }
    }
}
