// Demonstration of the defect repaired by /repo commit "fix: transitivity panics on a graph with an isolated node".
// Copy to /repo/tests/ and run `cargo test --offline --test C20_transitivity_isolated_node` (debug build).
// On the tree before the fix: panicked at src/algorithms/cluster/mod.rs:164:35: attempt to subtract with overflow.
use graphrs::{algorithms::cluster, Edge, Graph, GraphSpecs, Node};
#[test]
fn transitivity_with_an_isolated_node_does_not_panic() {
    let mut g: Graph<&str, ()> = Graph::new(GraphSpecs::undirected_create_missing());
    g.add_edges(vec![Edge::new("a", "b"), Edge::new("b", "c"), Edge::new("a", "c"), Edge::new("c", "d")]).unwrap();
    g.add_node(Node::from_name("lonely"));
    let t = cluster::transitivity(&g).unwrap();
    assert!((t - 0.6).abs() < 1e-12, "transitivity = {}", t);
}
