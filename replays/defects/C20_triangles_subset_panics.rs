// Demonstration of the defect repaired by /repo commit "fix: triangles / generalized_degree / clustering panic when given a subset of the nodes".
// Copy to /repo/tests/ and run `cargo test --offline --test C20_triangles_subset_panics`.
// On the tree before the fix: panicked at src/algorithms/cluster/undirected.rs:56: called `Option::unwrap()` on a `None` value
// (the neighbour sets are built for the listed nodes only, then looked up for every neighbour of a listed node).
use graphrs::{algorithms::cluster, Edge, Graph, GraphSpecs};
fn triangle_with_a_tail() -> Graph<&'static str, ()> {
    let mut g: Graph<&str, ()> = Graph::new(GraphSpecs::undirected_create_missing());
    g.add_edges(vec![Edge::new("a", "b"), Edge::new("b", "c"), Edge::new("a", "c"), Edge::new("c", "d")]).unwrap();
    g
}
#[test]
fn triangles_of_a_subset_of_the_nodes() {
    let g = triangle_with_a_tail();
    let all = cluster::triangles(&g, None).unwrap();
    let some = cluster::triangles(&g, Some(&["a", "d"])).unwrap();
    assert_eq!(some.len(), 2);
    assert_eq!(some["a"], all["a"]);
    assert_eq!(some["a"], 1);
    assert_eq!(some["d"], 0);
}
#[test]
fn generalized_degree_and_clustering_of_a_subset_of_the_nodes() {
    let g = triangle_with_a_tail();
    let gd = cluster::generalized_degree(&g, Some(&["c"])).unwrap();
    assert_eq!(gd.len(), 1);
    let all = cluster::clustering(&g, false, None).unwrap();
    let some = cluster::clustering(&g, false, Some(&["c"])).unwrap();
    assert_eq!(some.len(), 1);
    assert_eq!(some["c"], all["c"]);
}
