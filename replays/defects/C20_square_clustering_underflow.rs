// Demonstration of the defect repaired by /repo commit "fix: square_clustering panics on directed graphs and on self-loops".
// Copy to /repo/tests/ and run `cargo test --offline --test C20_square_clustering_underflow` (debug build).
// On the tree before the fix both tests panic at src/algorithms/cluster/square.rs:82: attempt to subtract with overflow.
use graphrs::{algorithms::cluster, Edge, Graph, GraphSpecs};
#[test]
fn square_clustering_on_a_directed_graph_with_a_sink_does_not_panic() {
    // n0 -> n1, n0 -> n2, n1 -> n3: n2 is a sink, so |N(n2)| = 0 < 1
    let mut g: Graph<&str, ()> = Graph::new(GraphSpecs::directed_create_missing());
    g.add_edges(vec![Edge::new("n0", "n1"), Edge::new("n0", "n2"), Edge::new("n1", "n3")]).unwrap();
    let r = cluster::square_clustering(&g, None);
    assert_eq!(r.len(), 4);
    assert_eq!(r["n0"], 0.0);
}
#[test]
fn square_clustering_on_an_undirected_graph_with_a_self_loop_does_not_panic() {
    // triangle v-u-w with a loop on w: N(u) = {v, w}, N(w) = {v, u, w}; for (u, w) around v the common names other than v are {w},
    // w is also a neighbour of u, so degm = 3 > |N(u)| = 2
    let mut specs = GraphSpecs::undirected_create_missing();
    specs.self_loops = true;
    let mut g: Graph<&str, ()> = Graph::new(specs);
    g.add_edges(vec![Edge::new("v", "u"), Edge::new("v", "w"), Edge::new("u", "w"), Edge::new("w", "w")]).unwrap();
    let r = cluster::square_clustering(&g, None);
    assert_eq!(r.len(), 3);
    assert!(r.values().all(|c| c.is_finite() && *c >= 0.0 && *c <= 1.0), "{:?}", r);
}
