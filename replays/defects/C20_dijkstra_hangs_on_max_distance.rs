// Demonstration of the defect repaired by /repo commit "fix: shortest-path kernels loop forever on a distance equal to f64::MAX".
// Copy to /repo/tests/ and run `timeout 120 cargo test --offline --test C20_dijkstra_hangs_on_max_distance`.
// On the tree before the fix none of the four tests returns: f64::MAX doubles as "not reached / not settled", so a node settled at a distance
// of exactly f64::MAX is settled again whenever it is popped, and a zero-weight cycle at that distance (v -> w -> v) keeps re-queuing both
// nodes (the push counter of dijkstra.rs eventually overflows its i32 in a debug build; betweenness grows its visiting order without bound).
use graphrs::{algorithms::centrality::{betweenness, closeness}, algorithms::shortest_path::dijkstra, Edge, Graph, GraphSpecs};
fn directed() -> Graph<&'static str, ()> {
    let mut g: Graph<&str, ()> = Graph::new(GraphSpecs::directed_create_missing());
    g.add_edges(vec![Edge::with_weight("s", "v", f64::MAX), Edge::with_weight("v", "w", 0.0), Edge::with_weight("w", "v", 0.0)]).unwrap();
    g
}
fn undirected() -> Graph<&'static str, ()> {
    let mut g: Graph<&str, ()> = Graph::new(GraphSpecs::undirected_create_missing());
    g.add_edges(vec![Edge::with_weight("s", "v", f64::MAX), Edge::with_weight("v", "w", 0.0)]).unwrap();
    g
}
#[test]
fn single_source_fast_path_returns() {
    // v and w are at distance f64::MAX, which the results never report
    let r = dijkstra::single_source(&directed(), true, "s", None, None, false, false).unwrap();
    assert_eq!(r.len(), 1);
    assert_eq!(r["s"].distance, 0.0);
}
#[test]
fn single_source_with_paths_returns() {
    let r = dijkstra::single_source(&directed(), true, "s", None, None, false, true).unwrap();
    assert_eq!(r.len(), 1);
}
#[test]
fn betweenness_centrality_returns() {
    let r = betweenness::betweenness_centrality(&directed(), true, true).unwrap();
    assert_eq!(r.len(), 3);
}
#[test]
fn closeness_centrality_returns() {
    let r = closeness::closeness_centrality(&undirected(), true, true).unwrap();
    assert_eq!(r.len(), 3);
}
