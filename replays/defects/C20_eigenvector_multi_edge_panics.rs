// Demonstration of the defect repaired by /repo commit "fix: eigenvector_centrality panics on multi-edge graphs".
// Copy to /repo/tests/ and run `cargo test --offline --test C20_eigenvector_multi_edge_panics`.
// On the tree before the fix: panicked at src/algorithms/centrality/eigenvector.rs:62: called `Result::unwrap()` on an `Err` value:
// Error { kind: WrongMethod, message: "Use the `get_edges` method when `GraphSpecs.multi_edges` is `true`." }
use graphrs::{algorithms::centrality::eigenvector, Edge, ErrorKind, Graph, GraphSpecs, MissingNodeStrategy};
#[test]
fn eigenvector_centrality_on_a_multi_edge_graph_returns_wrong_method() {
    let mut specs = GraphSpecs::multi_undirected();
    specs.missing_node_strategy = MissingNodeStrategy::Create;
    let mut g: Graph<&str, ()> = Graph::new(specs);
    g.add_edges(vec![Edge::new("a", "b"), Edge::new("a", "b"), Edge::new("b", "c")]).unwrap();
    let r = eigenvector::eigenvector_centrality(&g, false, None, None);
    assert!(matches!(r.unwrap_err().kind, ErrorKind::WrongMethod));
}
#[test]
fn eigenvector_centrality_on_single_edge_graphs_is_unchanged() {
    let mut g: Graph<&str, ()> = Graph::new(GraphSpecs::undirected_create_missing());
    g.add_edges(vec![Edge::new("a", "b"), Edge::new("b", "c")]).unwrap();
    let r = eigenvector::eigenvector_centrality(&g, false, None, None).unwrap();
    assert_eq!(r.len(), 3);
    assert!(r["b"] > r["a"] && (r["a"] - r["c"]).abs() < 1e-9);
}
