// Demonstration of the two defects repaired by /repo commits 84d2564 ("fix: all_pairs panics when the target is not a node of the
// graph") and 6eb58f0 ("fix: all_pairs panics when a search reports contradictory paths").
// Copy to /repo/tests/ and run `cargo test --offline --test C20_all_pairs_panics`. Before the fixes both tests panic
// (dijkstra.rs:153 unwrap on the target lookup; dijkstra.rs:172 unwrap on the kernel's Err).
use graphrs::{algorithms::shortest_path::dijkstra, Edge, ErrorKind, Graph, GraphSpecs};
#[test]
fn all_pairs_with_an_unknown_target_returns_node_not_found() {
    let mut g: Graph<&str, ()> = Graph::new(GraphSpecs::directed_create_missing());
    g.add_edges(vec![Edge::with_weight("a", "b", 1.0)]).unwrap();
    let r = dijkstra::all_pairs(&g, true, Some("zz"), None, false, true);
    assert!(matches!(r.err().unwrap().kind, ErrorKind::NodeNotFound));
}
#[test]
fn all_pairs_reports_contradictory_paths_instead_of_panicking() {
    let mut g: Graph<&str, ()> = Graph::new(GraphSpecs::directed_create_missing());
    g.add_edges(vec![Edge::with_weight("a", "c", 1.0), Edge::with_weight("a", "b", 2.0), Edge::with_weight("b", "c", -5.0)]).unwrap();
    let r = dijkstra::all_pairs(&g, true, None, None, false, true);
    assert!(matches!(r.err().unwrap().kind, ErrorKind::ContradictoryPaths));
}
