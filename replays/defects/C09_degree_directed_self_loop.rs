// Demonstration of the defect repaired by /repo commit 78cecd7 ("fix: degree of a node with a self-loop on a directed graph").
// Copy to /repo/tests/ and run `cargo test --offline --test C09_degree_directed_self_loop`.
// On the tree before the fix: degree(a) = 5 and weighted degree 5.0 (in-degree 1 + out-degree 2 = 3); the test fails.
use graphrs::{Edge, Graph, GraphSpecs};
#[test]
fn degree_is_in_plus_out_with_a_directed_self_loop() {
    let mut specs = GraphSpecs::directed_create_missing();
    specs.self_loops = true;
    let mut g: Graph<&str, ()> = Graph::new(specs);
    g.add_edges(vec![Edge::with_weight("a", "a", 1.0), Edge::with_weight("a", "b", 1.0)]).unwrap();
    let i = g.get_node_in_degree("a").unwrap();
    let o = g.get_node_out_degree("a").unwrap();
    assert_eq!((i, o), (1, 2));
    assert_eq!(g.get_node_degree("a").unwrap(), i + o);
    assert_eq!(g.get_node_weighted_degree("a").unwrap(), 3.0);
    let total: usize = g.get_degree_for_all_nodes().values().sum();
    assert_eq!(total, 2 * g.number_of_edges());
}
