// Demonstration of the defect repaired by /repo commit "fix: multi_source panics when a search reports contradictory paths".
// Copy to /repo/tests/ and run `cargo test --offline --test C20_multi_source_contradictory_paths`.
// On the tree before the fix the second test panics: called `Result::unwrap()` on an `Err` value: Error { kind: ContradictoryPaths, .. }
use graphrs::{algorithms::shortest_path::dijkstra, Edge, ErrorKind, Graph, GraphSpecs};
fn graph() -> Graph<&'static str, ()> {
    let mut g: Graph<&str, ()> = Graph::new(GraphSpecs::directed_create_missing());
    g.add_edges(vec![
        Edge::with_weight("a", "c", 1.0),
        Edge::with_weight("a", "b", 2.0),
        Edge::with_weight("b", "c", -5.0),
    ]).unwrap();
    g
}
#[test]
fn single_source_reports_contradictory_paths() {
    let r = dijkstra::single_source(&graph(), true, "a", None, None, false, true);
    assert!(matches!(r.err().unwrap().kind, ErrorKind::ContradictoryPaths));
}
#[test]
fn multi_source_reports_contradictory_paths_instead_of_panicking() {
    let r = dijkstra::multi_source(&graph(), true, vec!["a"], None, None, false, true);
    assert!(matches!(r.err().unwrap().kind, ErrorKind::ContradictoryPaths));
}
