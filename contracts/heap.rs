// ---- A4: assumed contract on std::collections::BinaryHeap (multiset view; the order of pops is NOT specified here:
//      the max-heap order on FringeNode is the subject of the Kani lemmas C04.fringe.*) ----
#[verifier::external_type_specification]
#[verifier::external_body]
#[verifier::accept_recursive_types(T)]
#[verifier::reject_recursive_types(A)]
pub struct ExBinaryHeap<T, A: std::alloc::Allocator>(BinaryHeap<T, A>);

pub uninterp spec fn heap_view<T, A: std::alloc::Allocator>(h: &BinaryHeap<T, A>) -> vstd::multiset::Multiset<T>;

pub assume_specification<T>[ BinaryHeap::<T>::new ]() -> (h: BinaryHeap<T>)
    ensures heap_view(&h) == vstd::multiset::Multiset::<T>::empty();
pub assume_specification<T: Ord, A: std::alloc::Allocator>[ BinaryHeap::<T, A>::push ](h: &mut BinaryHeap<T, A>, x: T)
    ensures heap_view(final(h)) == heap_view(old(h)).insert(x);
pub assume_specification<T: Ord, A: std::alloc::Allocator>[ BinaryHeap::<T, A>::pop ](h: &mut BinaryHeap<T, A>) -> (r: Option<T>)
    ensures
        r.is_none() ==> heap_view(old(h)).len() == 0 && heap_view(final(h)) == heap_view(old(h)),
        r.is_some() ==> heap_view(old(h)).count(r.unwrap()) > 0 && heap_view(final(h)) == heap_view(old(h)).remove(r.unwrap());
