// ---- trusted axiom A6: Display::fmt of a node name never panics (error messages are built with format!) ----
pub mod dispax {
use vstd::prelude::*;
use std::fmt::Display;
use vstd::std_specs::fmt::*;
pub broadcast axiom fn axiom_display_total<T: Display>(x: &T, f: &core::fmt::Formatter)
    ensures #[trigger] x.fmt_req(f);
}

// ---- trusted axiom A2 (clone half): Clone::clone returns a value equal to its argument ----
// (true for every node-name type a graph can be keyed by, for Arc, and field-wise for the derived
//  Clone of Edge / Node; stated for all T because the extracted code is generic)
pub mod cloneax {
use vstd::prelude::*;
pub broadcast axiom fn axiom_clone_eq<T: Clone>(a: &T, b: T)
    ensures #[trigger] call_ensures(T::clone, (a,), b) ==> *a == b;
}

// ---- R-const wrappers: constants Verus' front end rejects syntactically ----
pub uninterp spec fn f64_nan() -> f64;
#[verifier::external_body]
pub fn vf64_nan() -> (r: f64)
    ensures r == f64_nan()
{ f64::NAN }
// (the spec constant f64_max() and the fact f64::MAX == f64::MAX live in float.rs)
#[verifier::external_body]
pub fn vf64_max() -> (r: f64)
    ensures r == f64_max()
{ f64::MAX }

// ---- generic name order: `a > b` on the node-name type, through vstd's PartialOrd model (assumed lawful in name_type_ok) ----
pub open spec fn tgt<T: PartialOrd>(a: T, b: T) -> bool {
    a.partial_cmp_spec(&b) == Some(core::cmp::Ordering::Greater)
}

// ---- A4: assumed contract on std, Entry::or_default == or_insert(V::default()), stated through vstd's Entry model ----
pub assume_specification<'a, K, V: Default>[ std::collections::hash_map::Entry::<'a, K, V>::or_default ](e: std::collections::hash_map::Entry<'a, K, V>) -> (r: &'a mut V)
    ensures
        e.value().is_some() ==> *r == e.value().unwrap(),
        e.value().is_none() ==> V::default.ensures((), *r),
        e.final_value() == Some(*final(r));

// ---- A4: assumed contracts on std conversions used by `x.into()` ----
pub assume_specification<T>[ <Arc<T> as From<T>>::from ](t: T) -> (r: Arc<T>)
    ensures *r == t;
pub assume_specification<T>[ <T as From<T>>::from ](t: T) -> (r: T)
    ensures r == t;

// ---- R-cast wrappers: `as` casts between integers and floats (Verus rejects the syntax); the Rust body is that cast ----
pub uninterp spec fn usize_to_f64(n: usize) -> f64;
#[verifier::external_body]
pub fn vcast_usize_f64(n: usize) -> (r: f64)
    ensures r == usize_to_f64(n)
{ n as f64 }

// ---- A4: f64::is_nan is "x != x" (IEEE) ----
pub assume_specification[ f64::is_nan ](x: f64) -> (r: bool)
    ensures r == !feq(x, x);

// ---- R-ext helper (verified, not assumed): HashSet::iter yields each element of the set exactly once.  vstd's contract
//      for HashSet::iter gives length, distinctness and coverage of the prophetic sequence; membership of every yielded
//      element follows by cardinality (lemma_pigeon). ----
pub mod setiter {
use vstd::prelude::*;
use vstd::std_specs::iter::IteratorSpec;
use std::collections::HashSet;
pub proof fn lemma_pigeon(src: Seq<&usize>, s: Set<usize>)
    requires s.finite(), src.len() == s.len(),
        forall|x: usize| s.contains(x) ==> exists|k: int| 0 <= k < src.len() && *#[trigger] src[k] == x,
        forall|a: int, b: int| 0 <= a < src.len() && 0 <= b < src.len() && a != b ==> *src[a] != *src[b],
    ensures forall|k: int| 0 <= k < src.len() ==> s.contains(*#[trigger] src[k]),
{
    let m = Seq::new(src.len(), |k: int| *src[k]);
    assert(m.no_duplicates());
    m.unique_seq_to_set();
    let ms = m.to_set();
    assert forall|x: usize| s.contains(x) implies ms.contains(x) by {
        let k = choose|k: int| 0 <= k < src.len() && *#[trigger] src[k] == x;
        assert(m[k] == x);
    }
    assert(s.subset_of(ms));
    vstd::set_lib::lemma_subset_equality(s, ms);
    assert forall|k: int| 0 <= k < src.len() implies s.contains(*#[trigger] src[k]) by {
        assert(m[k] == *src[k]);
        assert(ms.contains(m[k]));
    }
}
pub fn vset_iter<'a>(s: &'a HashSet<usize>) -> (it: std::collections::hash_set::Iter<'a, usize>)
    ensures
        it.remaining().len() == s@.len(),
        it.remaining().no_duplicates(),
        forall|k: int| 0 <= k < it.remaining().len() ==> s@.contains(*#[trigger] it.remaining()[k]),
        forall|x: usize| s@.contains(x) ==> exists|k: int| 0 <= k < it.remaining().len() && *#[trigger] it.remaining()[k] == x,
        it.obeys_prophetic_iter_laws(), it.decrease() is Some,
{
    let it = s.iter();
    assert(forall|a: int, b: int| 0 <= a < it.remaining().len() && 0 <= b < it.remaining().len() && a != b ==> *it.remaining()[a] != *it.remaining()[b]);
    proof { lemma_pigeon(it.remaining(), s@); }
    it
}
}
pub mod setiter_t {
use vstd::prelude::*;
use vstd::std_specs::iter::IteratorSpec;
use std::collections::HashSet;
// the same for any element type (cardinality argument over the dereferenced elements)
pub proof fn lemma_pigeon_t<T>(src: Seq<&T>, s: Set<T>)
    requires src.len() == s.len(),
        forall|x: T| s.contains(x) ==> exists|k: int| 0 <= k < src.len() && *#[trigger] src[k] == x,
        forall|a: int, b: int| 0 <= a < src.len() && 0 <= b < src.len() && a != b ==> *src[a] != *src[b],
    ensures forall|k: int| 0 <= k < src.len() ==> s.contains(*#[trigger] src[k]),
{
    let m = Seq::new(src.len(), |k: int| *src[k]);
    assert(m.no_duplicates());
    m.unique_seq_to_set();
    let ms = m.to_set();
    assert forall|x: T| s.contains(x) implies ms.contains(x) by {
        let k = choose|k: int| 0 <= k < src.len() && *#[trigger] src[k] == x;
        assert(m[k] == x);
    }
    assert(s.subset_of(ms));
    vstd::set_lib::lemma_subset_equality(s, ms);
    assert forall|k: int| 0 <= k < src.len() implies s.contains(*#[trigger] src[k]) by {
        assert(m[k] == *src[k]);
        assert(ms.contains(m[k]));
    }
}
pub fn vset_iter_t<'a, T>(s: &'a HashSet<T>) -> (it: std::collections::hash_set::Iter<'a, T>)
    requires vstd::std_specs::hash::obeys_key_model::<T>(),
    ensures
        it.remaining().len() == s@.len(),
        forall|a: int, b: int| 0 <= a < it.remaining().len() && 0 <= b < it.remaining().len() && a != b ==> *it.remaining()[a] != *it.remaining()[b],
        forall|k: int| 0 <= k < it.remaining().len() ==> s@.contains(*#[trigger] it.remaining()[k]),
        forall|x: T| s@.contains(x) ==> exists|k: int| 0 <= k < it.remaining().len() && *#[trigger] it.remaining()[k] == x,
        it.obeys_prophetic_iter_laws(), it.decrease() is Some,
{
    let it = s.iter();
    proof { lemma_pigeon_t(it.remaining(), s@); }
    it
}
}
pub use setiter::vset_iter;
pub use setiter_t::vset_iter_t;
