// ---- trusted axiom A6: Display::fmt of a node name never panics (error messages are built with format!) ----
pub mod dispax {
use vstd::prelude::*;
use std::fmt::Display;
use vstd::std_specs::fmt::*;
pub broadcast axiom fn axiom_display_total<T: Display>(x: &T, f: &core::fmt::Formatter)
    ensures #[trigger] x.fmt_req(f);
}

// ---- trusted axiom A2 (clone half): Clone::clone returns a value equal to its argument ----
// (true for every node-name type a graph can be keyed by, for Arc, and field-wise for the derived
//  Clone of Edge / Node; stated for all T because the extracted code is generic)
pub mod cloneax {
use vstd::prelude::*;
pub broadcast axiom fn axiom_clone_eq<T: Clone>(a: &T, b: T)
    ensures #[trigger] call_ensures(T::clone, (a,), b) ==> *a == b;
}
