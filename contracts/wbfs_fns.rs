// ---- C10: plain_bfs (weak connectivity): level search over the name-keyed successor AND predecessor maps ----
// out[i] is justified: it is the start, a repetition of an earlier entry (plain_bfs lists every name twice), or one weak step from an earlier one
pub open spec fn wjust_at<T: Eq + PartialOrd + Send + Sync, A: Clone>(g: Graph<T, A>, start: T, out: Seq<T>, i: int) -> bool {
    out[i] == start || exists|j: int| 0 <= j < i && (#[trigger] out[j] == out[i] || wsteps(g, out[j], out[i]))
}
// what plain_bfs(start) returns: start first, every entry justified (so every listed name is weakly reachable), closed under weak steps
pub open spec fn wbfs_rel<T: Eq + PartialOrd + Send + Sync, A: Clone>(g: Graph<T, A>, start: T, out: Seq<T>) -> bool {
    &&& out.len() >= 1 && out[0] == start
    &&& forall|i: int| 0 <= i < out.len() ==> #[trigger] wjust_at(g, start, out, i)
    &&& forall|a: T, x: T| out.contains(a) && #[trigger] wsteps(g, a, x) ==> out.contains(x)
}
pub open spec fn wprefix<T: Eq + PartialOrd + Send + Sync, A: Clone>(g: Graph<T, A>, start: T, rv: Seq<T>) -> bool {
    &&& rv.len() > 0 ==> rv[0] == start
    &&& forall|i: int| 0 <= i < rv.len() ==> #[trigger] wjust_at(g, start, rv, i)
}
pub open spec fn wjustified<T: Eq + PartialOrd + Send + Sync, A: Clone>(g: Graph<T, A>, start: T, rv: Seq<T>, x: T) -> bool {
    x == start || exists|j: int| 0 <= j < rv.len() && wsteps(g, #[trigger] rv[j], x)
}
pub proof fn lemma_wjustified_push<T: Eq + PartialOrd + Send + Sync, A: Clone>(g: Graph<T, A>, start: T, rv: Seq<T>, y: T, x: T)
    requires wjustified(g, start, rv, x),
    ensures wjustified(g, start, rv.push(y), x),
{
    if x != start {
        let j = choose|j: int| 0 <= j < rv.len() && wsteps(g, #[trigger] rv[j], x);
        assert(rv.push(y)[j] == rv[j]);
    }
}
pub proof fn lemma_contains_push_t<T>(s: Seq<T>, y: T, x: T)
    ensures s.push(y).contains(x) <==> (s.contains(x) || x == y),
{
    if s.contains(x) {
        let j = choose|j: int| 0 <= j < s.len() && s[j] == x;
        assert(s.push(y)[j] == x);
    }
    if x == y { assert(s.push(y)[s.len() as int] == x); }
    if s.push(y).contains(x) {
        let j = choose|j: int| 0 <= j < s.push(y).len() && s.push(y)[j] == x;
        if j < s.len() { assert(s[j] == x); }
    }
}
pub proof fn lemma_wprefix_push<T: Eq + PartialOrd + Send + Sync, A: Clone>(g: Graph<T, A>, start: T, rv: Seq<T>, x: T)
    requires wprefix(g, start, rv), wjustified(g, start, rv, x) || rv.contains(x),
    ensures wprefix(g, start, rv.push(x)),
{
    let r2 = rv.push(x);
    assert forall|i: int| 0 <= i < r2.len() implies #[trigger] wjust_at(g, start, r2, i) by {
        if i < rv.len() {
            assert(wjust_at(g, start, rv, i));
            if rv[i] != start {
                let j = choose|j: int| 0 <= j < i && (#[trigger] rv[j] == rv[i] || wsteps(g, rv[j], rv[i]));
                assert(r2[j] == rv[j] && r2[i] == rv[i]);
            }
        } else {
            if x != start {
                if rv.contains(x) {
                    let j = choose|j: int| 0 <= j < rv.len() && rv[j] == x;
                    assert(r2[j] == x);
                } else {
                    let j = choose|j: int| 0 <= j < rv.len() && wsteps(g, #[trigger] rv[j], x);
                    assert(r2[j] == rv[j]);
                }
            }
        }
    }
}
// ---- weak components are disjoint: with symmetric weak steps a closed set that meets a search list contains its start ----
pub open spec fn wclosed<T: Eq + PartialOrd + Send + Sync, A: Clone>(g: Graph<T, A>, c: Set<T>) -> bool {
    forall|a: T, x: T| c.contains(a) && #[trigger] wsteps(g, a, x) ==> c.contains(x)
}
pub open spec fn w_reach_set_of<T: Eq + PartialOrd + Send + Sync, A: Clone>(g: Graph<T, A>, start: T, o: Seq<T>, s: Set<T>) -> bool {
    wbfs_rel(g, start, o) && forall|x: T| s.contains(x) <==> #[trigger] o.contains(x)
}
pub open spec fn is_w_reach_set<T: Eq + PartialOrd + Send + Sync, A: Clone>(g: Graph<T, A>, s: Set<T>) -> bool {
    exists|start: T, o: Seq<T>| #[trigger] w_reach_set_of(g, start, o, s)
}
pub proof fn lemma_w_reaches_back<T: Eq + PartialOrd + Send + Sync, A: Clone>(g: Graph<T, A>, v: T, o: Seq<T>, i: int, c: Set<T>)
    requires
        wbfs_rel(g, v, o), 0 <= i < o.len(),
        wsteps_symmetric(g), wclosed(g, c),
        c.contains(o[i]),
    ensures
        c.contains(v),
    decreases i
{
    assert(wjust_at(g, v, o, i));
    if o[i] != v {
        let j = choose|j: int| 0 <= j < i && (#[trigger] o[j] == o[i] || wsteps(g, o[j], o[i]));
        if o[j] != o[i] {
            assert(wsteps(g, o[i], o[j]));
        }
        lemma_w_reaches_back(g, v, o, j, c);
    }
}

// R-ext helpers (A5) as in breadth_first_search: the owned level set is handed over as a duplicate-free vector; unions
#[verifier::external_body]
pub fn wset_into_vec<T: Eq + Hash>(s: HashSet<T>) -> (r: Vec<T>)
    ensures r@.no_duplicates(), r@.len() == s@.len(), forall|x: T| s@.contains(x) <==> #[trigger] r@.contains(x),
{ s.into_iter().collect() }
#[verifier::external_body]
pub fn wset_union<T: Clone + Eq + Hash>(a: &HashSet<T>, b: &HashSet<T>) -> (r: HashSet<T>)
    ensures forall|x: T| r@.contains(x) <==> (a@.contains(x) || b@.contains(x)),
{ a.union(b).cloned().collect() }

//@ extract fn src/algorithms/components/weak_connectivity.rs plain_bfs props=C10,C20
//@ rewrite
-> Vec<T>
//@ with
-> (r: Vec<T>)
//@ rewrite
let mut seen = HashSet::new();
//@ with
let mut seen: HashSet<T> = HashSet::new();
//@ rewrite
let mut nextlevel = HashSet::new();
//@ with
let mut nextlevel: HashSet<T> = HashSet::new();
//@ rewrite
for v in thislevel
//@ with
let ghost tlset = thislevel@;
        let ghost dls = dl;
        let tlv = wset_into_vec(thislevel);
        let ghost tl = tlv@;
        proof {
            assert forall|k: int| 0 <= k < tl.len() implies wjustified(*graph, *source, connected_nodes@, #[trigger] tl[k]) by {
                assert(tl.contains(tl[k]));
                assert(tlset.contains(tl[k]));
            }
            if connected_nodes@.len() == 0 {
                assert(tlset.contains(*source));
                assert(tl.contains(*source));
                let k = choose|k: int| 0 <= k < tl.len() && tl[k] == *source;
                assert(tl[k] == *source);
            }
            assert forall|a: T, x: T| connected_nodes@.contains(a) && #[trigger] wsteps(*graph, a, x) implies
                    connected_nodes@.contains(x) || nextlevel@.contains(x) || exists|k: int| 0 <= k < tl.len() && #[trigger] tl[k] == x by {
                if !connected_nodes@.contains(x) {
                    assert(tlset.contains(x));
                    assert(tl.contains(x));
                    let k = choose|k: int| 0 <= k < tl.len() && tl[k] == x;
                    assert(tl[k] == x);
                }
            }
        }
        for v in itv: tlv
//@ rewrite count=2
nextlevel
                    .union(
//@ with
wset_union(&nextlevel,
//@ rewrite count=2
)
                    .cloned()
                    .collect();
//@ with
);
//@ spec
    requires
        graph.wf_nodes(),
        graph.knows(*source),
        // bounds the search (u_coh: lemma_wsteps_known, from the coherence of the name-keyed adjacency maps)
        wsteps_known(*graph),
    ensures
        r@.contains(*source),
        // [C10.plain_bfs.lists_exactly_the_weakly_reachable_nodes]
        wbfs_rel(*graph, *source, r@),
//@ loop 1
        invariant
            graph.wf_nodes(), wsteps_known(*graph), graph.knows(*source),
            gsucc@ == graph.successors@, gpred@ == graph.predecessors@, empty_hs@ =~= Set::<T>::empty(),
            forall|x: T| #![trigger seen@.contains(x)] #![trigger connected_nodes@.contains(x)] seen@.contains(x) <==> connected_nodes@.contains(x),
            wprefix(*graph, *source, connected_nodes@),
            connected_nodes@.len() == 0 ==> nextlevel@.contains(*source),
            forall|x: T| #[trigger] nextlevel@.contains(x) ==> wjustified(*graph, *source, connected_nodes@, x),
            // [C10.plain_bfs.nothing_reachable_is_dropped]
            forall|a: T, x: T| connected_nodes@.contains(a) && #[trigger] wsteps(*graph, a, x) ==> connected_nodes@.contains(x) || nextlevel@.contains(x),
            dl.no_duplicates(), forall|x: T| #[trigger] dl.contains(x) <==> seen@.contains(x), forall|x: T| #[trigger] dl.contains(x) ==> graph.knows(x),
            dl.len() <= graph.n(),
        // [C20.plain_bfs.terminates] a round marks a new node as seen (there are at most n) or leaves the next level empty
        decreases graph.n() - dl.len(), nextlevel@.len(),
//@ loop 2
            invariant
                graph.wf_nodes(), wsteps_known(*graph), graph.knows(*source),
                gsucc@ == graph.successors@, gpred@ == graph.predecessors@, empty_hs@ =~= Set::<T>::empty(),
                tl == tlv@ && tl.no_duplicates(),
                dl.no_duplicates(), forall|x: T| #[trigger] dl.contains(x) <==> seen@.contains(x), forall|x: T| #[trigger] dl.contains(x) ==> graph.knows(x),
                dl.len() >= dls.len(), dl.len() == dls.len() ==> nextlevel@.len() == 0,
                forall|x: T| #![trigger seen@.contains(x)] #![trigger connected_nodes@.contains(x)] seen@.contains(x) <==> connected_nodes@.contains(x),
                wprefix(*graph, *source, connected_nodes@),
                forall|k: int| itv.index@ <= k < tl.len() ==> wjustified(*graph, *source, connected_nodes@, #[trigger] tl[k]),
                connected_nodes@.len() == 0 ==> exists|k: int| itv.index@ <= k < tl.len() && #[trigger] tl[k] == *source,
                forall|x: T| #[trigger] nextlevel@.contains(x) ==> wjustified(*graph, *source, connected_nodes@, x),
                forall|a: T, x: T| connected_nodes@.contains(a) && #[trigger] wsteps(*graph, a, x) ==>
                    connected_nodes@.contains(x) || nextlevel@.contains(x) || exists|k: int| itv.index@ <= k < tl.len() && #[trigger] tl[k] == x,
//@ before while nextlevel.len() > 0
    let ghost mut dl: Seq<T> = Seq::empty();
//@ bodyend 1
        proof { lemma_distinct_known_len(*graph, dl); }
//@ after seen.insert(v.clone());
                proof {
                    let ghost d0 = dl;
                    dl = dl.push(vname);
                    assert forall|x: T| #[trigger] dl.contains(x) <==> (d0.contains(x) || x == vname) by {
                        if d0.contains(x) { let j = choose|j: int| 0 <= j < d0.len() && d0[j] == x; assert(dl[j] == x); }
                        if x == vname { assert(dl[d0.len() as int] == x); }
                        if dl.contains(x) { let j = choose|j: int| 0 <= j < dl.len() && dl[j] == x; if j < d0.len() { assert(d0[j] == x); } }
                    }
                    assert(dl.no_duplicates()) by {
                        assert forall|i: int, j: int| 0 <= i < dl.len() && 0 <= j < dl.len() && i != j implies dl[i] != dl[j] by {
                            if i < d0.len() && j < d0.len() { assert(d0[i] != d0[j]); }
                            else if i < d0.len() { assert(d0.contains(d0[i])); }
                            else if j < d0.len() { assert(d0.contains(d0[j])); }
                        }
                    }
                }
//@ before if !seen.contains(&v) {
            let ghost vname = v;
            let ghost rv0 = connected_nodes@;
            let ghost nl0 = nextlevel@;
            proof {
                assert(tl[itv.index@ as int] == vname);
                assert(wjustified(*graph, *source, rv0, vname));
                if rv0.len() == 0 {
                    // nothing listed yet: the only justified name is the start, and it is still to come in this level
                    assert(!seen@.contains(vname));
                }
            }
//@ after #1 connected_nodes.push(v.clone());
                proof {
                    assert(connected_nodes@ == rv0.push(vname));
                    lemma_wprefix_push(*graph, *source, rv0, vname);
                    assert forall|x: T| #[trigger] connected_nodes@.contains(x) <==> (rv0.contains(x) || x == vname) by {
                        lemma_contains_push_t(rv0, vname, x);
                    }
                    assert forall|x: T| wjustified(*graph, *source, rv0, x) implies #[trigger] wjustified(*graph, *source, connected_nodes@, x) by {
                        lemma_wjustified_push(*graph, *source, rv0, vname, x);
                    }
                }
                let ghost rv1 = connected_nodes@;
//@ before #2 connected_nodes.push(v.clone());
                proof {
                    assert(rv1[rv0.len() as int] == vname);
                    assert forall|x: T| #[trigger] nextlevel@.contains(x) implies wjustified(*graph, *source, rv1, x) by {
                        if !nl0.contains(x) {
                            assert(wsteps(*graph, vname, x));
                        }
                    }
                    assert forall|x: T| wsteps(*graph, vname, x) implies nextlevel@.contains(x) by {}
                }
//@ after #2 connected_nodes.push(v.clone());
                proof {
                    assert(connected_nodes@ == rv1.push(vname));
                    assert(rv1.contains(vname));
                    lemma_wprefix_push(*graph, *source, rv1, vname);
                    assert forall|x: T| #[trigger] connected_nodes@.contains(x) <==> rv1.contains(x) by {
                        lemma_contains_push_t(rv1, vname, x);
                    }
                    assert forall|x: T| wjustified(*graph, *source, rv1, x) implies #[trigger] wjustified(*graph, *source, connected_nodes@, x) by {
                        lemma_wjustified_push(*graph, *source, rv1, vname, x);
                    }
                }
//@ end
