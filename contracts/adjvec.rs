// ---- traversal-list update (C03): AdjacentNode::new and add_to_adjacency_vec ----
impl AdjacentNode {
//@ extract fn src/graph/adjacent_node.rs new props=C03,C20 ty=AdjacentNode
//@ rewrite
-> Self
//@ with
-> (r: Self)
//@ spec
    ensures
        // [C03.adjnode.new_fields]
        r.node_index == node_index,
        r.weight == weight,
//@ end
}

// weight an existing entry ends up with (flt is IEEE `<`: false when either side is NaN)
pub open spec fn upd_weight(old_w: f64, w: f64, replace: bool) -> f64 {
    if replace || flt(w, old_w) { w } else { old_w }
}

// row' is row with every entry for v updated by upd_weight, everything else untouched
pub open spec fn row_updated(row: Seq<AdjacentNode>, row2: Seq<AdjacentNode>, v: usize, w: f64, replace: bool, upto: int) -> bool {
    &&& row2.len() == row.len()
    &&& forall|k: int| 0 <= k < row.len() ==> (#[trigger] row2[k]).node_index == row[k].node_index
    &&& forall|k: int| 0 <= k < row.len() && k < upto && row[k].node_index == v ==> (#[trigger] row2[k]).weight == upd_weight(row[k].weight, w, replace)
    &&& forall|k: int| 0 <= k < row.len() && (k >= upto || row[k].node_index != v) ==> (#[trigger] row2[k]).weight == row[k].weight
}

// ---- functional form of the traversal-list update ----
pub open spec fn upd_entry(a: AdjacentNode, v: usize, w: f64, replace: bool) -> AdjacentNode {
    if a.node_index == v { AdjacentNode { node_index: v, weight: upd_weight(a.weight, w, replace) } } else { a }
}

pub open spec fn row_apply(row: Seq<AdjacentNode>, v: usize, w: f64, ex: bool, replace: bool) -> Seq<AdjacentNode> {
    if ex {
        Seq::new(row.len(), |k: int| upd_entry(row[k], v, w, replace))
    } else {
        row.push(AdjacentNode { node_index: v, weight: w })
    }
}

pub open spec fn rows_of(vv: Seq<Vec<AdjacentNode>>) -> Seq<Seq<AdjacentNode>> {
    Seq::new(vv.len(), |i: int| vv[i]@)
}

pub open spec fn adj_apply(rows: Seq<Seq<AdjacentNode>>, u: usize, v: usize, w: f64, ex: bool, replace: bool) -> Seq<Seq<AdjacentNode>> {
    rows.update(u as int, row_apply(rows[u as int], v, w, ex, replace))
}

// rows padded with empty rows up to n (what add_node does for each created node)
pub open spec fn rows_ext(rows: Seq<Seq<AdjacentNode>>, n: nat) -> Seq<Seq<AdjacentNode>> {
    Seq::new(n, |i: int| if i < rows.len() { rows[i] } else { Seq::<AdjacentNode>::empty() })
}

//@ extract fn src/graph/creation.rs add_to_adjacency_vec props=C03,C20
//@ spec
    requires
        u_node_index < old(adjacency_vec).len(),
    ensures
        // [C03.adjvec.frame_other_rows]
        final(adjacency_vec).len() == old(adjacency_vec).len(),
        forall|i: int| 0 <= i < old(adjacency_vec).len() && i != u_node_index ==> #[trigger] final(adjacency_vec)[i] == old(adjacency_vec)[i],
        // [C03.adjvec.new_pair_appended]
        !edge_already_exists ==> final(adjacency_vec)[u_node_index as int]@ == old(adjacency_vec)[u_node_index as int]@.push(AdjacentNode { node_index: v_node_index, weight: weight }),
        // [C03.adjvec.existing_pair_min_or_replace]
        edge_already_exists ==> row_updated(old(adjacency_vec)[u_node_index as int]@, final(adjacency_vec)[u_node_index as int]@, v_node_index, weight, replace, old(adjacency_vec)[u_node_index as int]@.len() as int),
        // [C03.adjvec.row_functional_form]
        final(adjacency_vec)[u_node_index as int]@ == row_apply(old(adjacency_vec)[u_node_index as int]@, v_node_index, weight, edge_already_exists, replace),
        // [C03.adjvec.functional_form]
        rows_of(final(adjacency_vec)@) == adj_apply(rows_of(old(adjacency_vec)@), u_node_index, v_node_index, weight, edge_already_exists, replace),
//@ loop 1
                invariant
                    u_node_index < adjacency_vec.len(),
                    adjacency_vec.len() == old(adjacency_vec).len(),
                    forall|i: int| 0 <= i < old(adjacency_vec).len() && i != u_node_index ==> adjacency_vec[i] == old(adjacency_vec)[i],
                    row_updated(old(adjacency_vec)[u_node_index as int]@, adjacency_vec[u_node_index as int]@, v_node_index, weight, replace, index as int),
//@ tail
    proof {
        let r0 = rows_of(old(adjacency_vec)@);
        let r1 = rows_of(adjacency_vec@);
        let want = adj_apply(r0, u_node_index, v_node_index, weight, edge_already_exists, replace);
        assert(adjacency_vec[u_node_index as int]@ =~= row_apply(old(adjacency_vec)[u_node_index as int]@, v_node_index, weight, edge_already_exists, replace));
        assert(r1.len() == want.len());
        assert forall|i: int| 0 <= i < r1.len() implies r1[i] == want[i] by {
            if i == u_node_index as int {
                assert(r1[i] =~= want[i]);
            } else {
                assert(adjacency_vec[i] == old(adjacency_vec)[i]);
            }
        }
        assert(r1 =~= want);
    }
//@ end

