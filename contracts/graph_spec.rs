// ---- shared specification layer for Graph<T, A> (hand-written; DESIGN.md 2.2) ----

// A2: the key type obeys vstd's hash-map key model (Hash/Eq are lawful and agree with spec equality)
pub open spec fn key_model_ok<T>() -> bool {
    &&& vstd::std_specs::hash::obeys_key_model::<T>()
    &&& vstd::std_specs::hash::obeys_key_model::<(T, T)>()
}

// one empty row appended, existing rows untouched
pub open spec fn rows_extended(old_rows: Seq<Vec<AdjacentNode>>, new_rows: Seq<Vec<AdjacentNode>>) -> bool {
    &&& new_rows.len() == old_rows.len() + 1
    &&& forall|i: int| 0 <= i < old_rows.len() ==> new_rows[i] == old_rows[i]
    &&& new_rows[old_rows.len() as int]@.len() == 0
}

impl<T: PartialOrd + Send + Sync, A: Clone> Graph<T, A> {
    pub open spec fn n(&self) -> nat {
        self.nodes_vec@.len()
    }

    // nodes_map, nodes_map_rev and nodes_vec describe one bijection name <-> position; the per-node
    // vectors and index maps cover exactly the positions 0..n
    pub open spec fn wf_nodes(&self) -> bool {
        &&& key_model_ok::<T>()
        &&& forall|i: int| 0 <= i < self.n() ==> self.nodes_map@.contains_key(#[trigger] self.nodes_vec@[i].name)
                && self.nodes_map@[self.nodes_vec@[i].name] == i
        &&& forall|k: T| #[trigger] self.nodes_map@.contains_key(k) ==> self.nodes_map@[k] < self.n()
                && self.nodes_vec@[self.nodes_map@[k] as int].name == k
        &&& forall|i: usize| #[trigger] self.nodes_map_rev@.contains_key(i) <==> i < self.n()
        &&& forall|i: usize| i < self.n() ==> *(#[trigger] self.nodes_map_rev@[i]) == *self.nodes_vec@[i as int]
        &&& self.successors_vec@.len() == self.n()
        &&& self.predecessors_vec@.len() == self.n()
        &&& forall|i: usize| #[trigger] self.successors_map@.contains_key(i) <==> i < self.n()
        &&& forall|i: usize| #[trigger] self.predecessors_map@.contains_key(i) <==> i < self.n()
    }
}
