// ---- shared specification layer for Graph<T, A> (hand-written; DESIGN.md 2.2) ----

// A2 (stated as a precondition, not an axiom): the node-name type obeys vstd's hash-map key model, its `==`
// is spec equality and its comparison operators follow one partial_cmp function
pub open spec fn key_model_ok<T: Eq + PartialOrd>() -> bool {
    &&& vstd::std_specs::hash::obeys_key_model::<T>()
    &&& vstd::std_specs::hash::obeys_key_model::<(T, T)>()
    &&& T::obeys_eq_spec()
    &&& forall|a: T, b: T| #[trigger] a.eq_spec(&b) == (a == b)
    &&& T::obeys_partial_cmp_spec()
}

pub open spec fn is_err_kind<V>(r: Result<V, Error>, k: ErrorKind) -> bool {
    match r {
        Err(e) => e.kind == k,
        Ok(_) => false,
    }
}

// unknown endpoints are appended source first (a self-loop creates one node)
pub open spec fn names_after<T>(s: Seq<T>, knows_u: bool, knows_v: bool, u: T, v: T) -> Seq<T> {
    let s1 = if knows_u { s } else { s.push(u) };
    if knows_v || (!knows_u && v == u) { s1 } else { s1.push(v) }
}

pub open spec fn spec_ordered<T: PartialOrd, A>(e: Edge<T, A>) -> Edge<T, A>
    where T: Send
{
    if tgt(e.u, e.v) { Edge { u: e.v, v: e.u, attributes: e.attributes, weight: e.weight } } else { e }
}

// one empty row appended, existing rows untouched
pub open spec fn rows_extended(old_rows: Seq<Vec<AdjacentNode>>, new_rows: Seq<Vec<AdjacentNode>>) -> bool {
    &&& new_rows.len() == old_rows.len() + 1
    &&& forall|i: int| 0 <= i < old_rows.len() ==> #[trigger] new_rows[i] == old_rows[i]
    &&& new_rows[old_rows.len() as int]@ == Seq::<AdjacentNode>::empty()
}

// row i of the traversal rows, padded with empty rows (created nodes start with an empty row)
pub open spec fn pad_row(rows: Seq<Vec<AdjacentNode>>, i: int) -> Seq<AdjacentNode> {
    if 0 <= i < rows.len() { rows[i]@ } else { Seq::<AdjacentNode>::empty() }
}

// expected row i after add_edge applied the update (u -> v) and, when `both`, also (v -> u)
pub open spec fn expected_row(base: Seq<AdjacentNode>, i: int, u: usize, v: usize, w: f64, ex: bool, replace: bool, both: bool) -> Seq<AdjacentNode> {
    let r1 = if i == u { row_apply(base, v, w, ex, replace) } else { base };
    if both && i == v { row_apply(r1, u, w, ex, replace) } else { r1 }
}

impl<T: Eq + PartialOrd + Send + Sync, A: Clone> Graph<T, A> {
    pub open spec fn n(&self) -> nat {
        self.nodes_vec@.len()
    }

    // nodes_map, nodes_map_rev and nodes_vec describe one bijection name <-> position; the per-node
    // vectors and index maps cover exactly the positions 0..n
    pub open spec fn wf_nodes(&self) -> bool {
        &&& key_model_ok::<T>()
        &&& forall|i: int| 0 <= i < self.n() ==> self.nodes_map@.contains_key(#[trigger] self.nodes_vec@[i].name)
                && self.nodes_map@[self.nodes_vec@[i].name] == i
        &&& forall|k: T| #[trigger] self.nodes_map@.contains_key(k) ==> self.nodes_map@[k] < self.n()
                && self.nodes_vec@[self.nodes_map@[k] as int].name == k
        &&& forall|i: usize| #[trigger] self.nodes_map_rev@.contains_key(i) <==> i < self.n()
        &&& forall|i: usize| i < self.n() ==> *(#[trigger] self.nodes_map_rev@[i]) == *self.nodes_vec@[i as int]
        &&& self.successors_vec@.len() == self.n()
        &&& self.predecessors_vec@.len() == self.n()
        &&& forall|i: usize| #[trigger] self.successors_map@.contains_key(i) <==> i < self.n()
        &&& forall|i: usize| #[trigger] self.predecessors_map@.contains_key(i) <==> i < self.n()
    }

    // number of edge objects in the name-keyed store `edges` (what get_all_edges() flattens); left uninterpreted:
    // get_all_edges is a values().flatten().collect() pipeline outside the verifier's reach (A5)
    pub uninterp spec fn stored_edge_count(&self) -> nat;
    // the edges get_all_edges() returns, in the order it returns them (uninterpreted, A5)
    pub uninterp spec fn all_edges_seq(&self) -> Seq<Edge<T, A>>;

    // every traversal entry names an existing position (what the algorithm kernels index with)
    pub open spec fn wf_rows(&self) -> bool {
        &&& forall|i: int, k: int| 0 <= i < self.successors_vec@.len() && 0 <= k < self.successors_vec@[i]@.len()
                ==> (#[trigger] self.successors_vec@[i]@[k]).node_index < self.n()
        &&& forall|i: int, k: int| 0 <= i < self.predecessors_vec@.len() && 0 <= k < self.predecessors_vec@[i]@.len()
                ==> (#[trigger] self.predecessors_vec@[i]@[k]).node_index < self.n()
    }

    // ---- position-keyed successor / predecessor index sets (an absent key counts as the empty set) ----
    pub open spec fn succ_set(&self, i: usize) -> Set<usize> {
        if self.successors_map@.contains_key(i) { self.successors_map@[i]@ } else { Set::empty() }
    }

    pub open spec fn pred_set(&self, i: usize) -> Set<usize> {
        if self.predecessors_map@.contains_key(i) { self.predecessors_map@[i]@ } else { Set::empty() }
    }

    // ---- name-keyed adjacency maps and edge store (what get_successors_map / get_predecessors_map / per-node queries read) ----
    pub open spec fn succ_names(&self, a: T) -> Set<T> {
        if self.successors@.contains_key(a) { self.successors@[a]@ } else { Set::empty() }
    }

    pub open spec fn pred_names(&self, a: T) -> Set<T> {
        if self.predecessors@.contains_key(a) { self.predecessors@[a]@ } else { Set::empty() }
    }

    pub open spec fn name_list(&self, k: (T, T)) -> Seq<Arc<Edge<T, A>>> {
        if self.edges@.contains_key(k) { self.edges@[k]@ } else { Seq::empty() }
    }

    // every member of an index set is a position (follows from wf_index_sets + wf_estore, lemma in u_coh)
    pub open spec fn wf_index_members(&self) -> bool {
        &&& forall|i: usize, j: usize| #[trigger] self.succ_set(i).contains(j) ==> j < self.n()
        &&& forall|i: usize, j: usize| #[trigger] self.pred_set(i).contains(j) ==> j < self.n()
    }

    // `out` lists the nodes at the positions of `set`, each position exactly once (in some order)
    pub open spec fn lists_nodes_of(&self, set: Set<usize>, out: Seq<&Arc<Node<T, A>>>) -> bool {
        &&& out.len() == set.len()
        &&& exists|src: Seq<usize>| src.len() == out.len() && src.no_duplicates()
                && (forall|k: int| 0 <= k < src.len() ==> set.contains(#[trigger] src[k]) && src[k] < self.n() && **out[k] == *self.nodes_vec@[src[k] as int])
                && (forall|x: usize| set.contains(x) ==> #[trigger] src.contains(x))
    }

    // ---- position-keyed edge store ----
    pub open spec fn has_pair(&self, u: usize, v: usize) -> bool {
        self.edges_map@.contains_key(u) && self.edges_map@[u]@.contains_key(v)
    }

    pub open spec fn pair_list(&self, u: usize, v: usize) -> Seq<Arc<Edge<T, A>>> {
        self.edges_map@[u]@[v]@
    }

    // canonical key of the pair (u, v): undirected graphs keep the smaller position first
    pub open spec fn canon(&self, u: usize, v: usize) -> (usize, usize) {
        if !self.specs.directed && u > v { (v, u) } else { (u, v) }
    }

    pub open spec fn name_of(&self, i: usize) -> T {
        self.nodes_vec@[i as int].name
    }

    // the stored edge names the nodes at positions (u, v) (in either orientation when undirected)
    pub open spec fn edge_fits(&self, e: Edge<T, A>, u: usize, v: usize) -> bool {
        if self.specs.directed {
            e.u == self.name_of(u) && e.v == self.name_of(v)
        } else {
            (e.u == self.name_of(u) && e.v == self.name_of(v)) || (e.u == self.name_of(v) && e.v == self.name_of(u))
        }
    }

    pub open spec fn wf_estore(&self) -> bool {
        forall|u: usize, v: usize| #[trigger] self.has_pair(u, v) ==> {
            &&& u < self.n() && v < self.n()
            &&& self.pair_list(u, v).len() > 0
            &&& (!self.specs.multi_edges ==> self.pair_list(u, v).len() == 1)
            &&& (!self.specs.directed ==> u <= v)
            &&& forall|k: int| 0 <= k < self.pair_list(u, v).len() ==> self.edge_fits(*#[trigger] self.pair_list(u, v)[k], u, v)
        }
    }

    // ---- add_edge outcome ladder (C01), phrased over the pre-state ----
    pub open spec fn knows(&self, name: T) -> bool {
        self.nodes_map@.contains_key(name)
    }

    // an edge between the endpoints of `e` is already stored (either orientation when undirected)
    pub open spec fn existed(&self, e: Edge<T, A>) -> bool {
        &&& self.knows(e.u) && self.knows(e.v)
        &&& self.has_pair(self.canon(self.nodes_map@[e.u], self.nodes_map@[e.v]).0, self.canon(self.nodes_map@[e.u], self.nodes_map@[e.v]).1)
    }

    pub open spec fn self_loop_refused(&self, e: Edge<T, A>) -> bool {
        !self.specs.self_loops && e.u == e.v
    }

    pub open spec fn missing_refused(&self, e: Edge<T, A>) -> bool {
        self.specs.missing_node_strategy == MissingNodeStrategy::Error && (!self.knows(e.u) || !self.knows(e.v))
    }

    pub open spec fn duplicate_refused(&self, e: Edge<T, A>) -> bool {
        self.existed(e) && !self.specs.multi_edges && self.specs.edge_dedupe_strategy == EdgeDedupeStrategy::Error
    }

    pub open spec fn duplicate_ignored(&self, e: Edge<T, A>) -> bool {
        self.existed(e) && !self.specs.multi_edges && self.specs.edge_dedupe_strategy == EdgeDedupeStrategy::KeepFirst
    }

    // the call stores the edge (none of the refusing / ignoring rungs of the ladder applies)
    pub open spec fn stores(&self, e: Edge<T, A>) -> bool {
        !self.self_loop_refused(e) && !self.missing_refused(e) && !self.duplicate_refused(e) && !self.duplicate_ignored(e)
    }

    pub open spec fn names(&self) -> Seq<T> {
        Seq::new(self.nodes_vec@.len(), |i: int| self.nodes_vec@[i].name)
    }

    // the form in which an edge is stored: as given when directed, name-ordered when undirected
    pub open spec fn stored_form(&self, e: Edge<T, A>) -> Edge<T, A> {
        if self.specs.directed { e } else { spec_ordered(e) }
    }
}

// wf_estore only reads specs, the position-keyed store, n and the names at positions < n
pub proof fn lemma_estore_frame<T: Eq + PartialOrd + Send + Sync, A: Clone>(g0: Graph<T, A>, g1: Graph<T, A>)
    requires
        g0.wf_estore(),
        g1.edges_map@ == g0.edges_map@,
        g1.specs == g0.specs,
        g1.n() >= g0.n(),
        forall|i: usize| i < g0.n() ==> #[trigger] g1.name_of(i) == g0.name_of(i),
    ensures
        g1.wf_estore(),
{
    assert forall|u: usize, v: usize| #[trigger] g1.has_pair(u, v) implies ({
        &&& u < g1.n() && v < g1.n()
        &&& g1.pair_list(u, v).len() > 0
        &&& (!g1.specs.multi_edges ==> g1.pair_list(u, v).len() == 1)
        &&& (!g1.specs.directed ==> u <= v)
        &&& forall|k: int| 0 <= k < g1.pair_list(u, v).len() ==> g1.edge_fits(*#[trigger] g1.pair_list(u, v)[k], u, v)
    }) by {
        assert(g0.has_pair(u, v));
        assert(g1.pair_list(u, v) == g0.pair_list(u, v));
        assert(g1.name_of(u) == g0.name_of(u));
        assert(g1.name_of(v) == g0.name_of(v));
        assert forall|k: int| 0 <= k < g1.pair_list(u, v).len() implies g1.edge_fits(*#[trigger] g1.pair_list(u, v)[k], u, v) by {
            assert(g0.edge_fits(*g0.pair_list(u, v)[k], u, v));
        }
    }
}

// wf_estore after add_edge stored x at the canonical key (c0, c1): the list there is [x], or the old list with x appended
pub proof fn lemma_estore_after_store<T: Eq + PartialOrd + Send + Sync, A: Clone>(g1: Graph<T, A>, g2: Graph<T, A>, c0: usize, c1: usize, x: Arc<Edge<T, A>>)
    requires
        g1.wf_estore(),
        g2.specs == g1.specs,
        g2.nodes_vec@ == g1.nodes_vec@,
        forall|a: usize, b: usize| (a != c0 || b != c1) ==> #[trigger] g2.has_pair(a, b) == g1.has_pair(a, b),
        forall|a: usize, b: usize| (a != c0 || b != c1) && g1.has_pair(a, b) ==> #[trigger] g2.pair_list(a, b) == g1.pair_list(a, b),
        c0 < g1.n() && c1 < g1.n(),
        !g1.specs.directed ==> c0 <= c1,
        g2.has_pair(c0, c1),
        g2.edge_fits(*x, c0, c1),
        g1.specs.multi_edges && g1.has_pair(c0, c1) ==> ({
            &&& g2.pair_list(c0, c1).len() == g1.pair_list(c0, c1).len() + 1
            &&& forall|k: int| 0 <= k < g1.pair_list(c0, c1).len() ==> #[trigger] g2.pair_list(c0, c1)[k] == g1.pair_list(c0, c1)[k]
            &&& g2.pair_list(c0, c1)[g1.pair_list(c0, c1).len() as int] == x
        }),
        !(g1.specs.multi_edges && g1.has_pair(c0, c1)) ==> g2.pair_list(c0, c1).len() == 1 && g2.pair_list(c0, c1)[0] == x,
    ensures
        g2.wf_estore(),
{
    assert forall|u: usize, v: usize| #[trigger] g2.has_pair(u, v) implies ({
        &&& u < g2.n() && v < g2.n()
        &&& g2.pair_list(u, v).len() > 0
        &&& (!g2.specs.multi_edges ==> g2.pair_list(u, v).len() == 1)
        &&& (!g2.specs.directed ==> u <= v)
        &&& forall|k: int| 0 <= k < g2.pair_list(u, v).len() ==> g2.edge_fits(*#[trigger] g2.pair_list(u, v)[k], u, v)
    }) by {
        if u != c0 || v != c1 {
            assert(g1.has_pair(u, v));
            assert(g2.pair_list(u, v) == g1.pair_list(u, v));
            assert forall|k: int| 0 <= k < g2.pair_list(u, v).len() implies g2.edge_fits(*#[trigger] g2.pair_list(u, v)[k], u, v) by {
                assert(g1.edge_fits(*g1.pair_list(u, v)[k], u, v));
            }
        } else {
            if g1.specs.multi_edges && g1.has_pair(c0, c1) {
                assert forall|k: int| 0 <= k < g2.pair_list(u, v).len() implies g2.edge_fits(*#[trigger] g2.pair_list(u, v)[k], u, v) by {
                    if k < g1.pair_list(c0, c1).len() {
                        assert(g1.edge_fits(*g1.pair_list(c0, c1)[k], c0, c1));
                    }
                }
            }
        }
    }
}

// ---- the contract of add_edge as spec functions over (pre-state, edge, post-state, result) ----
pub open spec fn ae_outcome<T: Eq + PartialOrd + Send + Sync, A: Clone>(pre: Graph<T, A>, e: Edge<T, A>, post: Graph<T, A>, r: Result<(), Error>) -> bool {
    &&& pre.self_loop_refused(e) && pre.specs.self_loops_false_strategy == SelfLoopsFalseStrategy::Error ==> is_err_kind(r, ErrorKind::SelfLoopsFound)
    &&& pre.self_loop_refused(e) && pre.specs.self_loops_false_strategy == SelfLoopsFalseStrategy::Drop ==> r.is_ok()
    &&& !pre.self_loop_refused(e) && pre.missing_refused(e) ==> is_err_kind(r, ErrorKind::NodeNotFound)
    &&& !pre.self_loop_refused(e) && !pre.missing_refused(e) && pre.duplicate_refused(e) ==> is_err_kind(r, ErrorKind::DuplicateEdge)
    &&& !pre.self_loop_refused(e) && !pre.missing_refused(e) && !pre.duplicate_refused(e) ==> r.is_ok()
}

pub open spec fn ae_error_is_noop<T: Eq + PartialOrd + Send + Sync, A: Clone>(pre: Graph<T, A>, e: Edge<T, A>, post: Graph<T, A>, r: Result<(), Error>) -> bool {
    &&& r.is_err() ==> post == pre
}

pub open spec fn ae_drop_is_noop<T: Eq + PartialOrd + Send + Sync, A: Clone>(pre: Graph<T, A>, e: Edge<T, A>, post: Graph<T, A>, r: Result<(), Error>) -> bool {
    &&& pre.self_loop_refused(e) ==> post == pre
}

pub open spec fn ae_ignored_duplicate_is_noop<T: Eq + PartialOrd + Send + Sync, A: Clone>(pre: Graph<T, A>, e: Edge<T, A>, post: Graph<T, A>, r: Result<(), Error>) -> bool {
    &&& !pre.self_loop_refused(e) && !pre.missing_refused(e) && pre.duplicate_ignored(e) ==> post == pre
}

pub open spec fn ae_nodes<T: Eq + PartialOrd + Send + Sync, A: Clone>(pre: Graph<T, A>, e: Edge<T, A>, post: Graph<T, A>, r: Result<(), Error>) -> bool {
    &&& pre.stores(e) ==> ({
            &&& forall|i: int| 0 <= i < pre.n() ==> post.nodes_vec@[i] == pre.nodes_vec@[i]
            &&& post.n() == names_after(pre.names(), pre.knows(e.u), pre.knows(e.v), e.u, e.v).len()
            &&& forall|i: int| pre.n() <= i < post.n() ==> (#[trigger] post.nodes_vec@[i]).name == names_after(pre.names(), pre.knows(e.u), pre.knows(e.v), e.u, e.v)[i]
            &&& forall|i: int| pre.n() <= i < post.n() ==> (#[trigger] post.nodes_vec@[i]).attributes.is_none()
        })
}

pub open spec fn ae_wf<T: Eq + PartialOrd + Send + Sync, A: Clone>(pre: Graph<T, A>, e: Edge<T, A>, post: Graph<T, A>, r: Result<(), Error>) -> bool {
    &&& post.wf_nodes()
    &&& post.wf_estore()
    &&& post.specs == pre.specs
    &&& (pre.wf_rows() ==> post.wf_rows())
}

pub open spec fn ae_store<T: Eq + PartialOrd + Send + Sync, A: Clone>(pre: Graph<T, A>, e: Edge<T, A>, post: Graph<T, A>, r: Result<(), Error>) -> bool {
    &&& pre.stores(e) ==> ({
            let c = post.canon(post.nodes_map@[e.u], post.nodes_map@[e.v]);
            let ex = pre.existed(e);
            &&& post.knows(e.u) && post.knows(e.v)
            &&& post.has_pair(c.0, c.1)
            &&& forall|a: usize, b: usize| (a != c.0 || b != c.1) ==> #[trigger] post.has_pair(a, b) == pre.has_pair(a, b)
            &&& forall|a: usize, b: usize| (a != c.0 || b != c.1) && pre.has_pair(a, b) ==> #[trigger] post.pair_list(a, b) == pre.pair_list(a, b)
            &&& (pre.specs.multi_edges && ex) ==> ({
                    &&& post.pair_list(c.0, c.1).len() == pre.pair_list(c.0, c.1).len() + 1
                    &&& forall|k: int| 0 <= k < pre.pair_list(c.0, c.1).len() ==> post.pair_list(c.0, c.1)[k] == pre.pair_list(c.0, c.1)[k]
                    &&& *post.pair_list(c.0, c.1)[pre.pair_list(c.0, c.1).len() as int] == pre.stored_form(e)
                })
            &&& !(pre.specs.multi_edges && ex) ==> ({
                    &&& post.pair_list(c.0, c.1).len() == 1
                    &&& *post.pair_list(c.0, c.1)[0] == pre.stored_form(e)
                })
        })
}

pub open spec fn ae_traversal<T: Eq + PartialOrd + Send + Sync, A: Clone>(pre: Graph<T, A>, e: Edge<T, A>, post: Graph<T, A>, r: Result<(), Error>) -> bool {
    &&& pre.stores(e) ==> ({
            let c = post.canon(post.nodes_map@[e.u], post.nodes_map@[e.v]);
            let ex = pre.existed(e);
            let replace = ex && !pre.specs.multi_edges;
            let w = e.weight;
            &&& forall|i: int| 0 <= i < post.n() ==> (#[trigger] post.successors_vec@[i])@ ==
                    expected_row(pad_row(pre.successors_vec@, i), i, c.0, c.1, w, ex, replace, !pre.specs.directed)
            &&& pre.specs.directed ==> forall|i: int| 0 <= i < post.n() ==> (#[trigger] post.predecessors_vec@[i])@ ==
                    expected_row(pad_row(pre.predecessors_vec@, i), i, c.1, c.0, w, ex, replace, false)
            &&& !pre.specs.directed ==> forall|i: int| 0 <= i < post.n() ==> (#[trigger] post.predecessors_vec@[i])@ ==
                    pad_row(pre.predecessors_vec@, i)
        })
}

// the position-keyed index sets gain exactly the new adjacency: u -> v in successors (and v -> u when undirected),
// v <- u in predecessors when directed; every other set is unchanged
pub open spec fn ae_index<T: Eq + PartialOrd + Send + Sync, A: Clone>(pre: Graph<T, A>, e: Edge<T, A>, post: Graph<T, A>, r: Result<(), Error>) -> bool {
    &&& pre.stores(e) ==> ({
            let iu = post.nodes_map@[e.u];
            let iv = post.nodes_map@[e.v];
            &&& forall|i: usize, x: usize| #[trigger] post.succ_set(i).contains(x) ==
                    (pre.succ_set(i).contains(x) || (i == iu && x == iv) || (!pre.specs.directed && i == iv && x == iu))
            &&& forall|i: usize, x: usize| #[trigger] post.pred_set(i).contains(x) ==
                    (pre.pred_set(i).contains(x) || (pre.specs.directed && i == iv && x == iu))
        })
}

// the name-keyed maps gain exactly the new adjacency and the new stored edge (under the key (u, v) of its stored form)
pub open spec fn ae_names<T: Eq + PartialOrd + Send + Sync, A: Clone>(pre: Graph<T, A>, e: Edge<T, A>, post: Graph<T, A>, r: Result<(), Error>) -> bool {
    &&& pre.stores(e) ==> ({
            let se = pre.stored_form(e);
            let k = (se.u, se.v);
            &&& forall|a: T, x: T| #[trigger] post.succ_names(a).contains(x) ==
                    (pre.succ_names(a).contains(x) || (a == e.u && x == e.v) || (!pre.specs.directed && a == e.v && x == e.u))
            &&& forall|a: T, x: T| #[trigger] post.pred_names(a).contains(x) ==
                    (pre.pred_names(a).contains(x) || (pre.specs.directed && a == e.v && x == e.u))
            &&& forall|k2: (T, T)| k2 != k ==> #[trigger] post.name_list(k2) == pre.name_list(k2)
            &&& forall|k2: (T, T)| k2 != k ==> #[trigger] post.edges@.contains_key(k2) == pre.edges@.contains_key(k2)
            &&& post.edges@.contains_key(k)
            &&& pre.specs.multi_edges ==> ({
                    &&& post.name_list(k).len() == pre.name_list(k).len() + 1
                    &&& forall|j: int| 0 <= j < pre.name_list(k).len() ==> post.name_list(k)[j] == pre.name_list(k)[j]
                    &&& *post.name_list(k)[pre.name_list(k).len() as int] == se
                })
            &&& !pre.specs.multi_edges ==> post.name_list(k).len() == 1 && *post.name_list(k)[0] == se
        })
}

// everything add_edge guarantees about one call (the step relation the batch functions fold)
pub open spec fn add_edge_rel<T: Eq + PartialOrd + Send + Sync, A: Clone>(pre: Graph<T, A>, e: Edge<T, A>, post: Graph<T, A>, r: Result<(), Error>) -> bool {
    &&& ae_outcome(pre, e, post, r)
    &&& ae_error_is_noop(pre, e, post, r)
    &&& ae_drop_is_noop(pre, e, post, r)
    &&& ae_ignored_duplicate_is_noop(pre, e, post, r)
    &&& ae_nodes(pre, e, post, r)
    &&& ae_wf(pre, e, post, r)
    &&& ae_store(pre, e, post, r)
    &&& ae_traversal(pre, e, post, r)
    &&& ae_index(pre, e, post, r)
    &&& ae_names(pre, e, post, r)
}

// ---- batch adds: the state is add_edge folded over a prefix of the batch ----
// h is the history of states: h[0] = pre, h[j+1] results from a successful add_edge of es[j], h[k] = cur
pub open spec fn prefix_applied<T: Eq + PartialOrd + Send + Sync, A: Clone>(pre: Graph<T, A>, es: Seq<Edge<T, A>>, h: Seq<Graph<T, A>>, k: int, cur: Graph<T, A>) -> bool {
    &&& 0 <= k <= es.len()
    &&& h.len() == k + 1
    &&& h[0] == pre
    &&& h[k] == cur
    &&& forall|j: int| 0 <= j < k ==> add_edge_rel(h[j], es[j], #[trigger] h[j + 1], Ok(()))
}

// the batch stopped at the first failing edge es[k] (which changed nothing), or applied all of es
pub open spec fn batch_rel<T: Eq + PartialOrd + Send + Sync, A: Clone>(pre: Graph<T, A>, es: Seq<Edge<T, A>>, post: Graph<T, A>, r: Result<(), Error>) -> bool {
    exists|h: Seq<Graph<T, A>>, k: int| {
        &&& #[trigger] prefix_applied(pre, es, h, k, post)
        &&& (r.is_ok() ==> k == es.len())
        &&& (r.is_err() ==> k < es.len() && add_edge_rel(post, es[k], post, r))
    }
}

pub open spec fn edges_of<T: PartialOrd + Send, A>(v: Seq<Arc<Edge<T, A>>>) -> Seq<Edge<T, A>> {
    Seq::new(v.len(), |i: int| *v[i])
}

pub open spec fn tuple_edges<T: PartialOrd + Send, A>(v: Seq<(T, T)>) -> Seq<Edge<T, A>> {
    Seq::new(v.len(), |i: int| Edge { u: v[i].0, v: v[i].1, attributes: None, weight: f64_nan() })
}


// ---- new_from_nodes_and_edges as a relation: an empty graph with `specs`, the nodes added, then the batch of edges ----
pub open spec fn nfne_rel<T: Eq + PartialOrd + Send + Sync, A: Clone>(node_names: Seq<T>, es: Seq<Edge<T, A>>, specs: GraphSpecs, r: Result<Graph<T, A>, Error>) -> bool {
    exists|g1: Graph<T, A>, g2: Graph<T, A>, r2: Result<(), Error>| {
        &&& g1.wf_nodes() && g1.wf_estore() && g1.edges_map@.len() == 0 && g1.specs == specs
        &&& forall|j: int| 0 <= j < node_names.len() ==> g1.knows(#[trigger] node_names[j])
        &&& #[trigger] batch_rel(g1, es, g2, r2)
        &&& (r2.is_ok() ==> r.is_ok() && r.unwrap() == g2)
        &&& (r2.is_err() ==> r.is_err())
    }
}

// `keep` lists, in increasing order, exactly the positions of `all` whose element satisfies `pred`
pub open spec fn picks<X>(all: Seq<X>, keep: Seq<int>, pred: spec_fn(X) -> bool) -> bool {
    &&& forall|a: int, b: int| 0 <= a < b < keep.len() ==> keep[a] < keep[b]
    &&& forall|k: int| 0 <= k < keep.len() ==> 0 <= #[trigger] keep[k] < all.len() && pred(all[keep[k]])
    &&& forall|i: int| 0 <= i < all.len() && pred(#[trigger] all[i]) ==> keep.contains(i)
}
// what get_subgraph(S) builds: new_from_nodes_and_edges over the nodes named in S (original order), exactly the stored edges with
// both ends in S (get_all_edges() order), the same specs
pub open spec fn subgraph_outcome<T: Eq + PartialOrd + Send + Sync, A: Clone>(g: Graph<T, A>, sel: Set<T>, kn: Seq<int>, ke: Seq<int>, r: Result<Graph<T, A>, Error>) -> bool {
    &&& picks(node_names_of(g.nodes_vec@), kn, |x: T| sel.contains(x))
    &&& picks(g.all_edges_seq(), ke, |e: Edge<T, A>| sel.contains(e.u) && sel.contains(e.v))
    &&& nfne_rel(Seq::new(kn.len(), |k: int| node_names_of(g.nodes_vec@)[kn[k]]), Seq::new(ke.len(), |k: int| g.all_edges_seq()[ke[k]]), g.specs, r)
}

pub open spec fn spec_reweighted<T: PartialOrd + Send, A>(e: Edge<T, A>, w: f64) -> Edge<T, A> {
    Edge { u: e.u, v: e.v, attributes: e.attributes, weight: w }
}
// what set_all_edge_weights(w) builds: new_from_nodes_and_edges over the same nodes and every edge of get_all_edges() with weight w
pub open spec fn reweight_outcome<T: Eq + PartialOrd + Send + Sync, A: Clone>(g: Graph<T, A>, w: f64, r: Result<Graph<T, A>, Error>) -> bool {
    nfne_rel(node_names_of(g.nodes_vec@), Seq::new(g.all_edges_seq().len(), |i: int| spec_reweighted(g.all_edges_seq()[i], w)), g.specs, r)
}

// the edge collapse_edges builds for one entry: endpoints of the key, weight = float sum of the list's weights (uninterpreted fold)
pub uninterp spec fn wsum_list<T: PartialOrd + Send, A>(list: Seq<Arc<Edge<T, A>>>) -> f64;
pub open spec fn collapsed_edge<T: PartialOrd + Send, A>(k: (T, T), list: Seq<Arc<Edge<T, A>>>) -> Edge<T, A> {
    Edge { u: k.0, v: k.1, attributes: None, weight: wsum_list(list) }
}
// what to_single_edges() builds: the same nodes, one collapsed edge per key of the name-keyed store (`keys` = the keys in iteration order)
pub open spec fn collapse_outcome<T: Eq + PartialOrd + Send + Sync, A: Clone>(g: Graph<T, A>, keys: Seq<(T, T)>, r: Result<Graph<T, A>, Error>) -> bool {
    &&& keys.no_duplicates() && (forall|k: (T, T)| g.edges@.contains_key(k) <==> #[trigger] keys.contains(k))
    &&& nfne_rel(node_names_of(g.nodes_vec@), Seq::new(keys.len(), |i: int| collapsed_edge(keys[i], g.edges@[keys[i]]@)),
                 GraphSpecs { multi_edges: false, ..g.specs }, r)
}

pub open spec fn merged_rows(a: Seq<AdjacentNode>, b: Seq<AdjacentNode>, m: Seq<&AdjacentNode>) -> bool {
    &&& forall|i: int, j: int| 0 <= i < j < m.len() ==> (#[trigger] m[i]).node_index < (#[trigger] m[j]).node_index
    &&& forall|i: int| 0 <= i < m.len() ==> exists|k: int| (0 <= k < a.len() && a[k].node_index == (#[trigger] m[i]).node_index) || (0 <= k < b.len() && b[k].node_index == m[i].node_index)
    &&& forall|k: int| 0 <= k < a.len() ==> exists|i: int| 0 <= i < m.len() && (#[trigger] m[i]).node_index == (#[trigger] a[k]).node_index
    &&& forall|k: int| 0 <= k < b.len() ==> exists|i: int| 0 <= i < m.len() && (#[trigger] m[i]).node_index == (#[trigger] b[k]).node_index
}
// get_neighbor_nodes: `m` merges the predecessor row and the successor row of position i (merged_rows) and `out` holds the nodes at
// those positions, in the same order
pub open spec fn neighbors_listed<T: Eq + PartialOrd + Send + Sync, A: Clone>(g: Graph<T, A>, i: usize, m: Seq<&AdjacentNode>, out: Seq<&Arc<Node<T, A>>>) -> bool {
    &&& i < g.n()
    &&& merged_rows(g.predecessors_vec@[i as int]@, g.successors_vec@[i as int]@, m)
    &&& out.len() == m.len()
    &&& forall|k: int| 0 <= k < m.len() ==> (#[trigger] m[k]).node_index < g.n() && **out[k] == *g.nodes_vec@[m[k].node_index as int]
}

// position x is named by an entry of the traversal row
pub open spec fn in_row(row: Seq<AdjacentNode>, x: usize) -> bool {
    exists|k: int| 0 <= k < row.len() && (#[trigger] row[k]).node_index == x
}
// one step of a breadth-first search from the node named a to the node named x: on a directed graph x's position is in the successor
// index set of a's position, on an undirected graph it is named by a's predecessor row or successor row (what get_successors_or_neighbors lists)
pub open spec fn steps_to<T: Eq + PartialOrd + Send + Sync, A: Clone>(g: Graph<T, A>, a: T, x: T) -> bool {
    &&& g.knows(a) && g.knows(x)
    &&& if g.specs.directed { g.succ_set(g.nodes_map@[a]).contains(g.nodes_map@[x]) }
        else { in_row(g.predecessors_vec@[g.nodes_map@[a] as int]@, g.nodes_map@[x]) || in_row(g.successors_vec@[g.nodes_map@[a] as int]@, g.nodes_map@[x]) }
}

// every step is backed by a stored edge list under the canonical position key of the two names (what get_edge looks up);
// from the traversal invariant on undirected graphs (lemma_steps_are_stored_undirected, u_trav) and from the coherence of the index sets
// on directed ones (lemma_steps_are_stored_directed, u_coh)
pub open spec fn steps_are_stored<T: Eq + PartialOrd + Send + Sync, A: Clone>(g: Graph<T, A>) -> bool {
    forall|a: T, x: T| #[trigger] steps_to(g, a, x) ==>
        g.has_pair(g.canon(g.nodes_map@[a], g.nodes_map@[x]).0, g.canon(g.nodes_map@[a], g.nodes_map@[x]).1)
}

// `out` lists exactly the nodes one step away from the node named a
pub open spec fn one_step_list<T: Eq + PartialOrd + Send + Sync, A: Clone>(g: Graph<T, A>, a: T, out: Seq<&Arc<Node<T, A>>>) -> bool {
    &&& forall|k: int| 0 <= k < out.len() ==> steps_to(g, a, (#[trigger] out[k]).name)
    &&& forall|x: T| steps_to(g, a, x) ==> exists|k: int| 0 <= k < out.len() && (#[trigger] out[k]).name == x
}

// out[i] is one step away from an earlier name of the list
pub open spec fn earlier_step<T: Eq + PartialOrd + Send + Sync, A: Clone>(g: Graph<T, A>, out: Seq<T>, i: int) -> bool {
    exists|j: int| 0 <= j < i && steps_to(g, #[trigger] out[j], out[i])
}
// what breadth_first_search(start) returns: `start` first, no name twice, every later name one step away from an EARLIER one (so every
// listed node is reachable from start), and the list is closed under steps (so every reachable node is listed)
pub open spec fn bfs_rel<T: Eq + PartialOrd + Send + Sync, A: Clone>(g: Graph<T, A>, start: T, out: Seq<T>) -> bool {
    &&& out.len() >= 1 && out[0] == start
    &&& out.no_duplicates()
    &&& forall|i: int| 1 <= i < out.len() ==> #[trigger] earlier_step(g, out, i)
    &&& forall|a: T, x: T| out.contains(a) && #[trigger] steps_to(g, a, x) ==> out.contains(x)
}

// steps are symmetric (true of an undirected graph whose traversal rows mirror each other: lemma_steps_symmetric in u_trav)
pub open spec fn steps_symmetric<T: Eq + PartialOrd + Send + Sync, A: Clone>(g: Graph<T, A>) -> bool {
    forall|a: T, x: T| #[trigger] steps_to(g, a, x) ==> steps_to(g, x, a)
}
pub open spec fn closed_under_steps<T: Eq + PartialOrd + Send + Sync, A: Clone>(g: Graph<T, A>, c: Set<T>) -> bool {
    forall|a: T, x: T| c.contains(a) && #[trigger] steps_to(g, a, x) ==> c.contains(x)
}
// s is the set of names a breadth-first search from `start` lists: exactly the nodes reachable from start
pub open spec fn reach_set_of<T: Eq + PartialOrd + Send + Sync, A: Clone>(g: Graph<T, A>, start: T, o: Seq<T>, s: Set<T>) -> bool {
    bfs_rel(g, start, o) && forall|x: T| s.contains(x) <==> #[trigger] o.contains(x)
}
pub open spec fn is_reach_set<T: Eq + PartialOrd + Send + Sync, A: Clone>(g: Graph<T, A>, s: Set<T>) -> bool {
    exists|start: T, o: Seq<T>| #[trigger] reach_set_of(g, start, o, s)
}
// with symmetric steps, a closed set that meets the list of a search from v contains v (walk the search tree back to its root)
pub proof fn lemma_reaches_back<T: Eq + PartialOrd + Send + Sync, A: Clone>(g: Graph<T, A>, v: T, o: Seq<T>, i: int, c: Set<T>)
    requires
        bfs_rel(g, v, o), 0 <= i < o.len(),
        steps_symmetric(g), closed_under_steps(g, c),
        c.contains(o[i]),
    ensures
        c.contains(v),
    decreases i
{
    if i > 0 {
        assert(earlier_step(g, o, i));
        let j = choose|j: int| 0 <= j < i && steps_to(g, #[trigger] o[j], o[i]);
        assert(steps_to(g, o[i], o[j]));
        lemma_reaches_back(g, v, o, j, c);
    }
}

// one weak step from a to x: x is a successor name or a predecessor name of a (what plain_bfs unions into the next level)
pub open spec fn wsteps<T: Eq + PartialOrd + Send + Sync, A: Clone>(g: Graph<T, A>, a: T, x: T) -> bool {
    g.succ_names(a).contains(x) || g.pred_names(a).contains(x)
}
// weak steps lead to node names only (from the coherence of the name-keyed adjacency maps: lemma_wsteps_known in u_coh); bounds the weak search
pub open spec fn wsteps_known<T: Eq + PartialOrd + Send + Sync, A: Clone>(g: Graph<T, A>) -> bool {
    forall|a: T, x: T| #[trigger] wsteps(g, a, x) ==> g.knows(x)
}
pub open spec fn wsteps_symmetric<T: Eq + PartialOrd + Send + Sync, A: Clone>(g: Graph<T, A>) -> bool {
    forall|a: T, x: T| #[trigger] wsteps(g, a, x) ==> wsteps(g, x, a)
}

// what reverse() returns: a graph rebuilt (new_from_nodes_and_edges) from the same nodes and every edge flipped
pub open spec fn reverse_outcome<T: Eq + PartialOrd + Send + Sync, A: Clone>(g: Graph<T, A>, r: Result<Graph<T, A>, Error>) -> bool {
    nfne_rel(node_names_of(g.nodes_vec@), Seq::new(g.all_edges_seq().len(), |i: int| spec_reversed(g.all_edges_seq()[i])), g.specs, r)
}

pub open spec fn node_names_of<T: Send, A>(v: Seq<Arc<Node<T, A>>>) -> Seq<T> {
    Seq::new(v.len(), |i: int| v[i].name)
}

pub open spec fn spec_reversed<T: PartialOrd + Send, A>(e: Edge<T, A>) -> Edge<T, A> {
    Edge { u: e.v, v: e.u, attributes: e.attributes, weight: e.weight }
}

// a duplicate-free list of node names is no longer than the node vector (its names sit at pairwise different positions below n)
pub proof fn lemma_distinct_known_len<T: Eq + PartialOrd + Send + Sync, A: Clone>(g: Graph<T, A>, s: Seq<T>)
    requires g.wf_nodes(), s.no_duplicates(), forall|x: T| #[trigger] s.contains(x) ==> g.knows(x),
    ensures s.len() <= g.n(),
{
    let ps = Seq::new(s.len(), |k: int| g.nodes_map@[s[k]] as int);
    assert(ps.no_duplicates()) by {
        assert forall|a: int, b: int| 0 <= a < ps.len() && 0 <= b < ps.len() && a != b implies ps[a] != ps[b] by {
            assert(s.contains(s[a]) && s.contains(s[b]));
            assert(g.nodes_vec@[g.nodes_map@[s[a]] as int].name == s[a]);
            assert(g.nodes_vec@[g.nodes_map@[s[b]] as int].name == s[b]);
        }
    }
    ps.unique_seq_to_set();
    let range = vstd::set_lib::set_int_range(0, g.n() as int);
    assert(ps.to_set().subset_of(range)) by {
        assert forall|p: int| ps.to_set().contains(p) implies range.contains(p) by {
            let k = choose|k: int| 0 <= k < ps.len() && ps[k] == p;
            assert(s.contains(s[k]));
        }
    }
    vstd::set_lib::lemma_int_range(0, g.n() as int);
    vstd::set_lib::lemma_len_subset(ps.to_set(), range);
}

