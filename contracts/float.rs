// ---- trusted axioms A1: f64 operators are total, deterministic functions of their operands ----
// vstd gives exec f64 operators only relational specs (lt_ensures(a, b, r), add_ensures(a, b, r), ...)
// with opaque preconditions (add_req, ...).  The axioms below say that each relation is a function
// (IEEE 754 operators are deterministic), that the preconditions hold (the operators never trap), and the
// two IEEE identities gt(a,b) = lt(b,a), ne(a,b) = !eq(a,b).  Nothing is assumed about *values*.
pub mod f64ax {
use vstd::prelude::*;
use vstd::std_specs::ops::*;
pub uninterp spec fn flt(a: f64, b: f64) -> bool;   // IEEE a < b   (false if either is NaN)
pub uninterp spec fn fle(a: f64, b: f64) -> bool;   // IEEE a <= b
pub uninterp spec fn feq(a: f64, b: f64) -> bool;   // IEEE a == b  (false for NaN, true for 0.0 == -0.0)
pub uninterp spec fn fadd(a: f64, b: f64) -> f64;
pub uninterp spec fn fsub(a: f64, b: f64) -> f64;
pub uninterp spec fn fmul(a: f64, b: f64) -> f64;
pub uninterp spec fn fdiv(a: f64, b: f64) -> f64;
pub uninterp spec fn fneg(a: f64) -> f64;
pub uninterp spec fn f64_max() -> f64;            // the constant f64::MAX (R-const wrapper vf64_max)

pub broadcast axiom fn axiom_f64_lt(a: f64, b: f64, r: bool)
    ensures #[trigger] vstd::std_specs::cmp::lt_ensures::<f64>(a, b, r) ==> r == flt(a, b);
pub broadcast axiom fn axiom_f64_gt(a: f64, b: f64, r: bool)
    ensures #[trigger] vstd::std_specs::cmp::gt_ensures::<f64>(a, b, r) ==> r == flt(b, a);
pub broadcast axiom fn axiom_f64_le(a: f64, b: f64, r: bool)
    ensures #[trigger] vstd::std_specs::cmp::le_ensures::<f64>(a, b, r) ==> r == fle(a, b);
pub broadcast axiom fn axiom_f64_ge(a: f64, b: f64, r: bool)
    ensures #[trigger] vstd::std_specs::cmp::ge_ensures::<f64>(a, b, r) ==> r == fle(b, a);
pub broadcast axiom fn axiom_f64_eq(a: f64, b: f64, r: bool)
    ensures #[trigger] vstd::std_specs::cmp::eq_ensures::<f64>(a, b, r) ==> r == feq(a, b);
pub broadcast axiom fn axiom_f64_ne(a: f64, b: f64, r: bool)
    ensures #[trigger] vstd::std_specs::cmp::ne_ensures::<f64>(a, b, r) ==> r == !feq(a, b);
pub broadcast axiom fn axiom_f64_add(a: f64, b: f64, r: f64)
    ensures #[trigger] vstd::std_specs::ops::add_ensures::<f64>(a, b, r) ==> r == fadd(a, b);
pub broadcast axiom fn axiom_f64_sub(a: f64, b: f64, r: f64)
    ensures #[trigger] vstd::std_specs::ops::sub_ensures::<f64>(a, b, r) ==> r == fsub(a, b);
pub broadcast axiom fn axiom_f64_mul(a: f64, b: f64, r: f64)
    ensures #[trigger] vstd::std_specs::ops::mul_ensures::<f64>(a, b, r) ==> r == fmul(a, b);
pub broadcast axiom fn axiom_f64_div(a: f64, b: f64, r: f64)
    ensures #[trigger] vstd::std_specs::ops::div_ensures::<f64>(a, b, r) ==> r == fdiv(a, b);
pub broadcast axiom fn axiom_f64_neg(a: f64, r: f64)
    ensures #[trigger] vstd::std_specs::ops::neg_ensures::<f64>(a, r) ==> r == fneg(a);
pub broadcast axiom fn axiom_f64_add_total(a: f64, b: f64)
    ensures #[trigger] a.add_req(b);
pub broadcast axiom fn axiom_f64_sub_total(a: f64, b: f64)
    ensures #[trigger] a.sub_req(b);
pub broadcast axiom fn axiom_f64_mul_total(a: f64, b: f64)
    ensures #[trigger] a.mul_req(b);
pub broadcast axiom fn axiom_f64_div_total(a: f64, b: f64)
    ensures #[trigger] a.div_req(b);
pub broadcast axiom fn axiom_f64_neg_total(a: f64)
    ensures #[trigger] a.neg_req();

// the one value fact used (closeness: an empty distance list sums to 0.0 and 0.0 > 0.0 is false): IEEE `<` is irreflexive
pub broadcast axiom fn axiom_f64_lt_irreflexive(a: f64)
    ensures !#[trigger] flt(a, a);

// IEEE negation flips the sign bit only: it is an involution (used for the max-heap on negated distances)
pub broadcast axiom fn axiom_f64_neg_involution(a: f64)
    ensures #[trigger] fneg(fneg(a)) == a;

// value fact about the constant: f64::MAX == f64::MAX (it is not NaN)
pub broadcast axiom fn axiom_f64_max_eq_self()
    ensures #[trigger] feq(f64_max(), f64_max());

// value facts used by the hop-count kernels only (levels are 0.0, 1.0, 2.0, ...): 0.0 is not f64::MAX, x + 1.0 is f64::MAX only if x
// is, and IEEE == is Euclidean (two values equal to a third are equal). Not in the default group: called explicitly.
// All three are checked on the machine's f64 by the Kani lemma a1_float_identities.
#[verifier::external_body]
pub proof fn axiom_f64_zero_not_max()
    ensures !feq(0.0f64, f64_max()),
{}
#[verifier::external_body]
pub proof fn axiom_f64_succ_not_max(x: f64)
    ensures !feq(x, f64_max()) ==> !feq(fadd(x, 1.0f64), f64_max()),
{}
#[verifier::external_body]
pub proof fn axiom_f64_eq_euclidean(a: f64, b: f64, c: f64)
    ensures feq(a, b) && feq(a, c) ==> feq(b, c),
{}

// order facts about the constant used by the termination argument of the Dijkstra kernels (a candidate below a value that is at most
// f64::MAX is below f64::MAX; a value below f64::MAX is not equal to it and at most it; MAX <= MAX; 0.0 <= MAX; a value equal to f64::MAX is
// not below it). Not in the default group: called explicitly. All are checked on the machine's f64 by the Kani lemma a1_float_identities.
#[verifier::external_body]
pub proof fn axiom_f64_lt_below_max(x: f64, y: f64)
    ensures flt(x, y) && fle(y, f64_max()) ==> flt(x, f64_max()),
{}
#[verifier::external_body]
pub proof fn axiom_f64_below_max_facts(x: f64)
    ensures flt(x, f64_max()) ==> !feq(x, f64_max()) && fle(x, f64_max()),
{}
#[verifier::external_body]
pub proof fn axiom_f64_max_and_zero_le_max()
    ensures fle(f64_max(), f64_max()), fle(0.0f64, f64_max()),
{}
#[verifier::external_body]
pub proof fn axiom_f64_eq_max_not_below(x: f64)
    ensures feq(x, f64_max()) ==> !flt(x, f64_max()),
{}

pub broadcast group group_f64_axioms {
    axiom_f64_lt_irreflexive, axiom_f64_neg_involution, axiom_f64_max_eq_self,
    axiom_f64_lt, axiom_f64_gt, axiom_f64_le, axiom_f64_ge, axiom_f64_eq, axiom_f64_ne,
    axiom_f64_add, axiom_f64_sub, axiom_f64_mul, axiom_f64_div, axiom_f64_neg,
    axiom_f64_add_total, axiom_f64_sub_total, axiom_f64_mul_total, axiom_f64_div_total, axiom_f64_neg_total,
}
} // mod f64ax
pub use f64ax::*;
