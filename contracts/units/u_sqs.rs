//@ unit u_sqs
//@ depends u_graph u_bfs
// C20, safety only: the usize arithmetic of square::get_coefficient_for_combination once more, under a contract that names none of its
// parameters but the graph and the two neighbours (u_sq states what the counts are and needs `v` for that; this unit keeps deciding
// panic-freedom when the signature or the counting idiom changes). gnos is ASSUMED here (verified in u_sq).
#![allow(unused_imports)]
use vstd::prelude::*;
use vstd::std_specs::cmp::*;
use vstd::std_specs::hash::EntrySpecFns;
use std::collections::{HashMap, HashSet};
use std::sync::Arc;
use std::hash::Hash;
use std::fmt::Display;
verus! {
// the arithmetic below is checked for 64-bit targets
global size_of usize == 8;
//@ include float.rs
//@ include std_axioms.rs
broadcast use {f64ax::group_f64_axioms, dispax::axiom_display_total, cloneax::axiom_clone_eq};
//@ include types.rs
//@ include graph_spec.rs
//@ include-assumed adjvec.rs u_graph
//@ include-assumed graph_fns.rs u_graph
//@ include-assumed bfs_fns.rs u_bfs

// the names one step away from the node named a (what gnos returns)
pub open spec fn step_names<T: Eq + PartialOrd + Send + Sync, A: Clone>(g: Graph<T, A>, a: T, s: Set<T>) -> bool {
    forall|x: T| s.contains(x) <==> #[trigger] steps_to(g, a, x)
}

// R-ext (A5): `a.intersection(&b).collect::<HashSet<&T>>().without(&&v).len()` (hash-set intersection iterator, the crate's extension trait
// HashSetExt::without on a set of references) targets a local declaration ASSUMED to return the number of common elements other than v;
// `a.intersection(&b).count()` likewise the number of common elements
#[verifier::external_body]
pub fn vcommon_except_len<T: Eq + Hash + Clone>(a: &HashSet<T>, b: &HashSet<T>, v: &T) -> (r: usize)
    ensures r == a@.intersect(b@).remove(*v).len(),
{ a.intersection(b).filter(|x| *x != v).count() }
#[verifier::external_body]
pub fn vcommon_len<T: Eq + Hash + Clone>(a: &HashSet<T>, b: &HashSet<T>) -> (r: usize)
    ensures r == a@.intersect(b@).len(),
{ a.intersection(b).count() }


//@ extract fn src/algorithms/cluster/square.rs gnos nobody
//@ head
#[verifier::external_body]
//@ rewrite
-> HashSet<T>
//@ with
-> (r: HashSet<T>)
//@ spec
    requires
        graph.wf_nodes(), graph.wf_rows(), graph.wf_index_members(),
        graph.knows(nn),
    ensures
        step_names(*graph, nn, r@),
//@ end

//@ extract fn src/algorithms/cluster/square.rs get_coefficient_for_combination props=C20
//@ rewrite
-> (usize, usize)
//@ with
-> (r: (usize, usize))
//@ rewrite count=opt
u_nbrs
        .intersection(&w_nbrs)
        .collect::<HashSet<&T>>()
        .without(&&v)
        .len();
//@ with
vcommon_except_len(&u_nbrs, &w_nbrs, &v);
//@ rewrite count=opt
u_nbrs.intersection(&w_nbrs).count()
//@ with
vcommon_len(&u_nbrs, &w_nbrs)
//@ after let w_nbrs
    // machine bound treated as given: a hash set holds fewer than 2^62 elements
    assume(u_nbrs@.len() < 0x3FFF_FFFF_FFFF_FFFF && w_nbrs@.len() < 0x3FFF_FFFF_FFFF_FFFF);
    proof {
        assert forall|x: T| #[trigger] u_nbrs@.intersect(w_nbrs@).remove(x).len() <= u_nbrs@.len() by {
            vstd::set_lib::lemma_len_subset(u_nbrs@.intersect(w_nbrs@).remove(x), u_nbrs@);
        }
        vstd::set_lib::lemma_len_subset(u_nbrs@.intersect(w_nbrs@), u_nbrs@);
    }
//@ spec
    requires
        graph.wf_nodes(), graph.wf_rows(), graph.wf_index_members(),
        graph.knows(u), graph.knows(w),
    // [C20.square.combination_arithmetic_is_panic_free] (no postcondition: the obligations are the subtractions and additions)
//@ end
} // verus!
fn main() {}
