//@ unit u_scc
//@ depends u_graph u_trav u_coh
//@ rlimit 120
// C10 for components::strongly_connected_components (the non-recursive preorder / low-link routine): the WrongMethod guard, panic-freedom of every lookup
// (`preorder.get(..).unwrap()`, `lowlink.get(&w).unwrap()`, `queue.last().unwrap()`, ...) and the PARTITION half of the property - the returned sets are
// non-empty, pairwise disjoint, hold node names only and together hold every node - for every directed graph and every iteration order of the hash sets.
// Not decided here: that two nodes share a set iff each reaches the other (the low-link theorem).
#![allow(unused_imports)]
use vstd::prelude::*;
use vstd::std_specs::cmp::*;
use vstd::std_specs::hash::EntrySpecFns;
use vstd::std_specs::iter::IteratorSpec;
use std::collections::{HashMap, HashSet};
use std::sync::Arc;
use std::hash::Hash;
use std::fmt::Display;
verus! {
//@ include float.rs
//@ include std_axioms.rs
// A4: HashMap<&T, V>::get / contains_key with a key borrowed as T (`&T: Borrow<T>`) is lookup by the name (vstd states this for owned and boxed keys only)
pub mod refkeyax {
use vstd::prelude::*;
pub broadcast axiom fn axiom_map_ref_contains<T, V>(m: Map<&T, V>, k: &T)
    ensures #[trigger] vstd::std_specs::hash::contains_borrowed_key::<&T, V, T>(m, k) <==> m.contains_key(k);
pub broadcast axiom fn axiom_map_ref_value<T, V>(m: Map<&T, V>, k: &T, v: V)
    ensures #[trigger] vstd::std_specs::hash::maps_borrowed_key_to_value::<&T, V, T>(m, k, v) <==> (m.contains_key(k) && m[k] == v);
}
broadcast use {f64ax::group_f64_axioms, dispax::axiom_display_total, cloneax::axiom_clone_eq, refkeyax::axiom_map_ref_contains, refkeyax::axiom_map_ref_value};
//@ include types.rs
//@ include graph_spec.rs
//@ include-assumed adjvec.rs u_graph
//@ include-assumed graph_fns.rs u_graph
//@ include-assumed traversal_inv.rs u_trav
//@ include-assumed coherence_inv.rs u_coh


// R-ext (A5): `m.into_iter().map(|(n, hs)| (n, hs.clone())).collect::<HashMap<&T, HashSet<T>>>()` over a borrowed hash map (tuple-pattern closure, hash-map
// iteration): ASSUMED to return the same sets keyed by references to the same names
#[verifier::external_body]
pub fn vclone_sets_by_ref<'a, T: Eq + Hash + Clone>(m: &'a HashMap<T, HashSet<T>>) -> (r: HashMap<&'a T, HashSet<T>>)
    ensures forall|a: T| #[trigger] r@.contains_key(&a) <==> m@.contains_key(a),
        forall|a: T| #[trigger] r@.contains_key(&a) ==> r@[&a]@ == m@[a]@,
{ m.into_iter().map(|(n, hs)| (n, hs.clone())).collect() }
// R-ext (A5): `vec![a, b].into_iter().min().unwrap()` on two references to numbers: the smaller one
#[verifier::external_body]
pub fn vmin2<'a>(a: &'a i32, b: &'a i32) -> (r: &'a i32)
    ensures *r == if *a <= *b { *a } else { *b },
{ vec![a, b].into_iter().min().unwrap() }
// R-ext (A5): the crate's extension trait VecExt (src/ext/vec.rs: `self.iter().cloned().collect()`), declared here with an ASSUMED contract - the set of the
// vector's elements - so that every `vec![..].to_hashset()` in the extracted text is a call against that contract; and `a.union(&b).cloned().collect()`
pub trait VecExt<T> {
    spec fn elems(&self) -> Set<T>;
    fn to_hashset(&self) -> (r: HashSet<T>)
        ensures forall|x: T| r@.contains(x) <==> self.elems().contains(x);
}
impl<T: Clone + Eq + Hash> VecExt<T> for Vec<T> {
    open spec fn elems(&self) -> Set<T> { self@.to_set() }
    #[verifier::external_body]
    fn to_hashset(&self) -> (r: HashSet<T>) { self.iter().cloned().collect() }
}
#[verifier::external_body]
pub fn vset_union2<T: Clone + Eq + Hash>(a: &HashSet<T>, b: &HashSet<T>) -> (r: HashSet<T>)
    ensures forall|x: T| r@.contains(x) <==> (a@.contains(x) || b@.contains(x)),
{ a.union(b).cloned().collect() }

pub open spec fn inhabited<T>(s: Set<T>) -> bool {
    exists|x: T| s.contains(x)
}
pub open spec fn in_refs<T>(s: Seq<&T>, x: T) -> bool {
    exists|k: int| 0 <= k < s.len() && *#[trigger] s[k] == x
}
pub open spec fn refs_distinct<T>(s: Seq<&T>) -> bool {
    forall|a: int, b: int| 0 <= a < s.len() && 0 <= b < s.len() && a != b ==> *#[trigger] s[a] != *#[trigger] s[b]
}
pub open spec fn nb_of<T>(nb: Map<&T, HashSet<T>>, v: &T) -> Set<T> {
    if nb.contains_key(v) { nb[v]@ } else { Set::empty() }
}
// the neighbour sets the search reads hold node names only
pub open spec fn nb_ok<T: Eq + PartialOrd + Send + Sync, A: Clone>(g: Graph<T, A>, nb: Map<&T, HashSet<T>>) -> bool {
    forall|a: T, w: T| nb.contains_key(&a) && #[trigger] nb[&a]@.contains(w) ==> g.knows(w)
}
// the components found so far: non-empty, pairwise disjoint, their union is `found`, node names only
pub open spec fn comps_ok<T: Eq + PartialOrd + Send + Sync, A: Clone>(g: Graph<T, A>, comps: Seq<HashSet<T>>, found: Set<T>) -> bool {
    &&& forall|c: int| 0 <= c < comps.len() ==> #[trigger] inhabited(comps[c]@)
    &&& forall|c: int, x: T| 0 <= c < comps.len() && #[trigger] comps[c]@.contains(x) ==> found.contains(x)
    &&& forall|x: T| #[trigger] found.contains(x) ==> g.knows(x) && exists|c: int| 0 <= c < comps.len() && #[trigger] comps[c]@.contains(x)
    &&& forall|c1: int, c2: int, x: T| 0 <= c1 < c2 < comps.len() && #[trigger] comps[c1]@.contains(x) ==> !#[trigger] comps[c2]@.contains(x)
}
// the search state between two steps of the inner loop: `q` is the depth-first stack (distinct unfinished nodes, all numbered but possibly the top,
// numbers increasing upwards, the bottom one carrying the first number i0 + 1 of this search), `sq` the finished nodes not yet assigned to a component
// (numbered after the bottom of the stack, low-links not below its number), `found` the assigned ones (every node numbered before this search is assigned)
pub open spec fn scc_state<T: Eq + PartialOrd + Send + Sync, A: Clone>(g: Graph<T, A>, pre: Map<&T, i32>, low: Map<&T, i32>, found: Set<T>,
        q: Seq<&T>, sq: Seq<&T>, i: i32, i0: i32) -> bool {
    &&& i0 <= i
    &&& refs_distinct(q) && refs_distinct(sq)
    &&& forall|a: int| 0 <= a < q.len() ==> g.knows(*#[trigger] q[a]) && !found.contains(*q[a]) && !in_refs(sq, *q[a])
    &&& forall|b: int| 0 <= b < sq.len() ==> g.knows(*#[trigger] sq[b]) && !found.contains(*sq[b]) && pre.contains_key(sq[b]) && low.contains_key(sq[b])
            && low[sq[b]] >= i0 + 1 && pre[sq[b]] > i0 + 1
    &&& forall|a: int| 0 <= a < q.len() - 1 ==> pre.contains_key(#[trigger] q[a])
    &&& forall|x: T| #[trigger] pre.contains_key(&x) ==> found.contains(x) || in_refs(sq, x) || in_refs(q, x)
    &&& forall|x: T| #[trigger] found.contains(x) ==> pre.contains_key(&x)
    &&& forall|x: T| #[trigger] pre.contains_key(&x) ==> pre[&x] <= i && (pre[&x] <= i0 ==> found.contains(x))
    &&& forall|a: int, b: int| 0 <= a < b < q.len() && pre.contains_key(#[trigger] q[b]) ==> pre[#[trigger] q[a]] < pre[q[b]]
    &&& q.len() > 0 && pre.contains_key(q[0]) ==> pre[q[0]] == i0 + 1
    &&& q.len() > 0 && !pre.contains_key(q[0]) ==> i == i0
    &&& q.len() == 0 ==> sq.len() == 0
}
// between two searches: nothing is on either stack and exactly the assigned nodes are numbered
pub open spec fn scc_idle<T>(pre: Map<&T, i32>, found: Set<T>, i: i32) -> bool {
    &&& forall|x: T| #[trigger] pre.contains_key(&x) <==> found.contains(x)
    &&& forall|x: T| #[trigger] pre.contains_key(&x) ==> pre[&x] <= i
}
// what the function returns on a directed graph
pub open spec fn partition_of_nodes<T: Eq + PartialOrd + Send + Sync, A: Clone>(g: Graph<T, A>, comps: Seq<HashSet<T>>) -> bool {
    &&& forall|c: int| 0 <= c < comps.len() ==> #[trigger] inhabited(comps[c]@)
    &&& forall|c: int, x: T| 0 <= c < comps.len() && #[trigger] comps[c]@.contains(x) ==> g.knows(x)
    &&& forall|x: T| #[trigger] g.knows(x) ==> exists|c: int| 0 <= c < comps.len() && #[trigger] comps[c]@.contains(x)
    &&& forall|c1: int, c2: int, x: T| 0 <= c1 < c2 < comps.len() && #[trigger] comps[c1]@.contains(x) ==> !#[trigger] comps[c2]@.contains(x)
}


pub open spec fn top_numbered<T>(pre: Map<&T, i32>, q: Seq<&T>) -> bool {
    q.len() > 0 && pre.contains_key(q[q.len() - 1])
}

// numbering the (unnumbered) top of the stack with the next number keeps the state
pub proof fn lemma_number_top<T: Eq + PartialOrd + Send + Sync, A: Clone>(g: Graph<T, A>, pre: Map<&T, i32>, low: Map<&T, i32>, found: Set<T>,
        q: Seq<&T>, sq: Seq<&T>, i: i32, i0: i32)
    requires
        scc_state(g, pre, low, found, q, sq, i, i0), q.len() > 0, !pre.contains_key(q[q.len() - 1]), i < i32::MAX,
    ensures
        scc_state(g, pre.insert(q[q.len() - 1], (i + 1) as i32), low, found, q, sq, (i + 1) as i32, i0),
        top_numbered(pre.insert(q[q.len() - 1], (i + 1) as i32), q),
{
    let v = q[q.len() - 1];
    let p2 = pre.insert(v, (i + 1) as i32);
    let i2 = (i + 1) as i32;
    assert forall|b: int| 0 <= b < sq.len() implies g.knows(*#[trigger] sq[b]) && !found.contains(*sq[b]) && p2.contains_key(sq[b]) && low.contains_key(sq[b])
            && low[sq[b]] >= i0 + 1 && p2[sq[b]] > i0 + 1 by {
        assert(!in_refs(sq, *q[q.len() - 1]));
        assert(*sq[b] != *v);
    }
    assert forall|x: T| #[trigger] p2.contains_key(&x) implies found.contains(x) || in_refs(sq, x) || in_refs(q, x) by {
        if x == *v { assert(*q[q.len() - 1] == x); } else { assert(pre.contains_key(&x)); }
    }
    assert forall|x: T| #[trigger] p2.contains_key(&x) implies p2[&x] <= i2 && (p2[&x] <= i0 ==> found.contains(x)) by {
        if x != *v { assert(pre.contains_key(&x)); }
    }
    assert forall|a: int, b: int| 0 <= a < b < q.len() && p2.contains_key(#[trigger] q[b]) implies p2[#[trigger] q[a]] < p2[q[b]] by {
        assert(*q[a] != *q[b]);
        assert(pre.contains_key(q[a]));
        if b == q.len() - 1 {
            assert(pre.contains_key(&*q[a]));
        } else {
            assert(*q[b] != *v);
            assert(*q[a] != *v);
        }
    }
    if q.len() > 1 {
        assert(pre.contains_key(q[0]));
        assert(*q[0] != *v);
    }
    assert forall|x: T| #[trigger] found.contains(x) implies p2.contains_key(&x) by { assert(pre.contains_key(&x)); }
}

// pushing an unnumbered node onto a stack whose top is numbered keeps the state
pub proof fn lemma_push<T: Eq + PartialOrd + Send + Sync, A: Clone>(g: Graph<T, A>, pre: Map<&T, i32>, low: Map<&T, i32>, found: Set<T>,
        q: Seq<&T>, sq: Seq<&T>, i: i32, i0: i32, w: &T)
    requires
        scc_state(g, pre, low, found, q, sq, i, i0), top_numbered(pre, q), g.knows(*w), !pre.contains_key(w),
    ensures
        scc_state(g, pre, low, found, q.push(w), sq, i, i0),
        q.push(w)[0] == q[0],
{
    let q2 = q.push(w);
    assert forall|a: int| 0 <= a < q.len() implies pre.contains_key(#[trigger] q[a]) by {}
    assert(refs_distinct(q2)) by {
        assert forall|a: int, b: int| 0 <= a < q2.len() && 0 <= b < q2.len() && a != b implies *#[trigger] q2[a] != *#[trigger] q2[b] by {
            if a < q.len() && b < q.len() { assert(*q[a] != *q[b]); }
            else if a < q.len() { assert(pre.contains_key(q[a])); }
            else { assert(pre.contains_key(q[b])); }
        }
    }
    assert forall|a: int| 0 <= a < q2.len() implies g.knows(*#[trigger] q2[a]) && !found.contains(*q2[a]) && !in_refs(sq, *q2[a]) by {
        if a < q.len() { assert(q2[a] == q[a]); } else {
            if found.contains(*w) { assert(pre.contains_key(&*w)); }
            if in_refs(sq, *w) {
                let k = choose|k: int| 0 <= k < sq.len() && *#[trigger] sq[k] == *w;
                assert(pre.contains_key(sq[k]));
            }
        }
    }
    assert forall|a: int| 0 <= a < q2.len() - 1 implies pre.contains_key(#[trigger] q2[a]) by { assert(q2[a] == q[a]); }
    assert forall|x: T| #[trigger] pre.contains_key(&x) implies found.contains(x) || in_refs(sq, x) || in_refs(q2, x) by {
        if in_refs(q, x) {
            let k = choose|k: int| 0 <= k < q.len() && *#[trigger] q[k] == x;
            assert(*q2[k] == x);
        }
    }
    assert forall|a: int, b: int| 0 <= a < b < q2.len() && pre.contains_key(#[trigger] q2[b]) implies pre[#[trigger] q2[a]] < pre[q2[b]] by {
        assert(b < q.len());
        assert(q2[a] == q[a] && q2[b] == q[b]);
    }
    assert(q2[0] == q[0]);
}

// the lowlink table may change at a node that is on the stack
pub proof fn lemma_low_update<T: Eq + PartialOrd + Send + Sync, A: Clone>(g: Graph<T, A>, pre: Map<&T, i32>, low: Map<&T, i32>, low2: Map<&T, i32>, found: Set<T>,
        q: Seq<&T>, sq: Seq<&T>, i: i32, i0: i32)
    requires
        scc_state(g, pre, low, found, q, sq, i, i0), q.len() > 0,
        forall|x: T| x != *q[q.len() - 1] && #[trigger] low.contains_key(&x) ==> low2.contains_key(&x) && low2[&x] == low[&x],
    ensures
        scc_state(g, pre, low2, found, q, sq, i, i0),
{
    assert forall|b: int| 0 <= b < sq.len() implies g.knows(*#[trigger] sq[b]) && !found.contains(*sq[b]) && pre.contains_key(sq[b]) && low2.contains_key(sq[b])
            && low2[sq[b]] >= i0 + 1 && pre[sq[b]] > i0 + 1 by {
        assert(!in_refs(sq, *q[q.len() - 1]));
        assert(*sq[b] != *q[q.len() - 1]);
        assert(low.contains_key(&*sq[b]));
    }
}

// a node not yet assigned, numbered after the top of the stack, is a finished one: it has a low-link, not below the first number of this search;
// an unassigned numbered node at all is numbered in this search
pub proof fn lemma_unassigned_neighbour<T: Eq + PartialOrd + Send + Sync, A: Clone>(g: Graph<T, A>, pre: Map<&T, i32>, low: Map<&T, i32>, found: Set<T>,
        q: Seq<&T>, sq: Seq<&T>, i: i32, i0: i32, w: &T)
    requires
        scc_state(g, pre, low, found, q, sq, i, i0), top_numbered(pre, q), pre.contains_key(w), !found.contains(*w),
    ensures
        pre[w] >= i0 + 1,
        pre[q[q.len() - 1]] >= i0 + 1,
        pre[w] > pre[q[q.len() - 1]] ==> in_refs(sq, *w) && low.contains_key(w) && low[w] >= i0 + 1,
{
    let v = q[q.len() - 1];
    assert(pre.contains_key(&*w));
    assert(pre.contains_key(&*v));
    assert(!found.contains(*v));
    if pre[w] > pre[v] {
        if in_refs(q, *w) {
            let k = choose|k: int| 0 <= k < q.len() && *#[trigger] q[k] == *w;
            if k < q.len() - 1 { assert(pre[q[k]] < pre[q[q.len() - 1]]); }
        }
        assert(in_refs(sq, *w));
        let k = choose|k: int| 0 <= k < sq.len() && *#[trigger] sq[k] == *w;
        assert(low.contains_key(sq[k]));
    }
}

// the top of the stack is finished without closing a component: it moves to the list of finished nodes
pub proof fn lemma_finish_to_sq<T: Eq + PartialOrd + Send + Sync, A: Clone>(g: Graph<T, A>, pre: Map<&T, i32>, low: Map<&T, i32>, found: Set<T>,
        q: Seq<&T>, sq: Seq<&T>, i: i32, i0: i32)
    requires
        scc_state(g, pre, low, found, q, sq, i, i0), top_numbered(pre, q),
        low.contains_key(q[q.len() - 1]), i0 + 1 <= low[q[q.len() - 1]] <= pre[q[q.len() - 1]], low[q[q.len() - 1]] != pre[q[q.len() - 1]],
    ensures
        q.len() >= 2,
        scc_state(g, pre, low, found, q.drop_last(), sq.push(q[q.len() - 1]), i, i0),
{
    let v = q[q.len() - 1];
    let q2 = q.drop_last();
    let sq2 = sq.push(v);
    assert(q.len() >= 2);
    assert(pre[q[0]] < pre[q[q.len() - 1]]);
    assert(refs_distinct(q2)) by {
        assert forall|a: int, b: int| 0 <= a < q2.len() && 0 <= b < q2.len() && a != b implies *#[trigger] q2[a] != *#[trigger] q2[b] by { assert(*q[a] != *q[b]); }
    }
    assert(refs_distinct(sq2)) by {
        assert forall|a: int, b: int| 0 <= a < sq2.len() && 0 <= b < sq2.len() && a != b implies *#[trigger] sq2[a] != *#[trigger] sq2[b] by {
            assert(!in_refs(sq, *q[q.len() - 1]));
            if a < sq.len() && b < sq.len() { assert(*sq[a] != *sq[b]); }
            else if a < sq.len() { assert(*sq[a] != *v); }
            else { assert(*sq[b] != *v); }
        }
    }
    assert forall|a: int| 0 <= a < q2.len() implies g.knows(*#[trigger] q2[a]) && !found.contains(*q2[a]) && !in_refs(sq2, *q2[a]) by {
        assert(q2[a] == q[a]);
        assert(*q[a] != *q[q.len() - 1]);
        if in_refs(sq2, *q2[a]) {
            let k = choose|k: int| 0 <= k < sq2.len() && *#[trigger] sq2[k] == *q2[a];
            if k < sq.len() { assert(*sq[k] == *q[a]); }
        }
    }
    assert forall|b: int| 0 <= b < sq2.len() implies g.knows(*#[trigger] sq2[b]) && !found.contains(*sq2[b]) && pre.contains_key(sq2[b]) && low.contains_key(sq2[b])
            && low[sq2[b]] >= i0 + 1 && pre[sq2[b]] > i0 + 1 by {
        if b < sq.len() { assert(sq2[b] == sq[b]); } else { assert(g.knows(*q[q.len() - 1])); }
    }
    assert forall|a: int| 0 <= a < q2.len() - 1 implies pre.contains_key(#[trigger] q2[a]) by { assert(q2[a] == q[a]); }
    assert forall|x: T| #[trigger] pre.contains_key(&x) implies found.contains(x) || in_refs(sq2, x) || in_refs(q2, x) by {
        if in_refs(sq, x) {
            let k = choose|k: int| 0 <= k < sq.len() && *#[trigger] sq[k] == x;
            assert(*sq2[k] == x);
        } else if in_refs(q, x) {
            let k = choose|k: int| 0 <= k < q.len() && *#[trigger] q[k] == x;
            if k < q.len() - 1 { assert(*q2[k] == x); } else { assert(*sq2[sq.len() as int] == x); }
        }
    }
    assert forall|a: int, b: int| 0 <= a < b < q2.len() && pre.contains_key(#[trigger] q2[b]) implies pre[#[trigger] q2[a]] < pre[q2[b]] by {
        assert(q2[a] == q[a] && q2[b] == q[b]);
    }
    assert(q2[0] == q[0]);
}

// the top of the stack closes a component: it and the finished nodes popped with it (a suffix of the list) are assigned
pub proof fn lemma_finish_component<T: Eq + PartialOrd + Send + Sync, A: Clone>(g: Graph<T, A>, pre: Map<&T, i32>, low: Map<&T, i32>, found: Set<T>,
        q: Seq<&T>, sq: Seq<&T>, i: i32, i0: i32, sq2: Seq<&T>, scc: HashSet<T>, found2: Set<T>, comps: Seq<HashSet<T>>)
    requires
        scc_state(g, pre, low, found, q, sq, i, i0), top_numbered(pre, q), comps_ok(g, comps, found),
        sq2.len() <= sq.len(), sq2 == sq.subrange(0, sq2.len() as int),
        forall|x: T| scc@.contains(x) <==> (x == *q[q.len() - 1] || exists|k: int| sq2.len() <= k < sq.len() && *#[trigger] sq[k] == x),
        forall|x: T| found2.contains(x) <==> (found.contains(x) || scc@.contains(x)),
        sq2.len() == 0 || pre[sq2[sq2.len() - 1]] <= pre[q[q.len() - 1]],
    ensures
        scc_state(g, pre, low, found2, q.drop_last(), sq2, i, i0),
        comps_ok(g, comps.push(scc), found2),
        q.len() == 1 ==> found2.contains(*q[0]),
{
    let v = q[q.len() - 1];
    let q2 = q.drop_last();
    let c2 = comps.push(scc);
    assert(scc@.contains(*v));
    // members of the new component: known, not assigned before, not on the remaining stack / list
    assert forall|x: T| scc@.contains(x) implies g.knows(x) && !found.contains(x) && pre.contains_key(&x) && !in_refs(q2, x) && !in_refs(sq2, x) by {
        if x == *v {
            assert(g.knows(*q[q.len() - 1]));
            if in_refs(q2, x) { let k = choose|k: int| 0 <= k < q2.len() && *#[trigger] q2[k] == x; assert(*q[k] != *q[q.len() - 1]); }
            if in_refs(sq2, x) { let k = choose|k: int| 0 <= k < sq2.len() && *#[trigger] sq2[k] == x; assert(*sq[k] == x); assert(!in_refs(sq, *q[q.len() - 1])); }
        } else {
            let k = choose|k: int| sq2.len() <= k < sq.len() && *#[trigger] sq[k] == x;
            assert(g.knows(*sq[k]));
            if in_refs(q2, x) { let a = choose|a: int| 0 <= a < q2.len() && *#[trigger] q2[a] == x; assert(!in_refs(sq, *q[a])); }
            if in_refs(sq2, x) { let b = choose|b: int| 0 <= b < sq2.len() && *#[trigger] sq2[b] == x; assert(*sq[b] != *sq[k]); }
        }
    }
    assert(comps_ok(g, c2, found2)) by {
        assert forall|c: int| 0 <= c < c2.len() implies #[trigger] inhabited(c2[c]@) by {
            if c < comps.len() { assert(c2[c] == comps[c]); assert(inhabited(comps[c]@)); } else { assert(c2[c]@.contains(*v)); }
        }
        assert forall|c: int, x: T| 0 <= c < c2.len() && #[trigger] c2[c]@.contains(x) implies found2.contains(x) by {
            if c < comps.len() { assert(c2[c] == comps[c]); }
        }
        assert forall|x: T| #[trigger] found2.contains(x) implies g.knows(x) && exists|c: int| 0 <= c < c2.len() && #[trigger] c2[c]@.contains(x) by {
            if found.contains(x) {
                let c = choose|c: int| 0 <= c < comps.len() && #[trigger] comps[c]@.contains(x);
                assert(c2[c] == comps[c]);
                assert(c2[c]@.contains(x));
            } else {
                assert(c2[comps.len() as int]@.contains(x));
            }
        }
        assert forall|c1: int, c2i: int, x: T| 0 <= c1 < c2i < c2.len() && #[trigger] c2[c1]@.contains(x) implies !#[trigger] c2[c2i]@.contains(x) by {
            assert(c2[c1] == comps[c1]);
            if c2i < comps.len() { assert(c2[c2i] == comps[c2i]); } else { assert(found.contains(x)); }
        }
    }
    assert(refs_distinct(q2)) by {
        assert forall|a: int, b: int| 0 <= a < q2.len() && 0 <= b < q2.len() && a != b implies *#[trigger] q2[a] != *#[trigger] q2[b] by { assert(*q[a] != *q[b]); }
    }
    assert(refs_distinct(sq2)) by {
        assert forall|a: int, b: int| 0 <= a < sq2.len() && 0 <= b < sq2.len() && a != b implies *#[trigger] sq2[a] != *#[trigger] sq2[b] by { assert(*sq[a] != *sq[b]); }
    }
    assert forall|a: int| 0 <= a < q2.len() implies g.knows(*#[trigger] q2[a]) && !found2.contains(*q2[a]) && !in_refs(sq2, *q2[a]) by {
        assert(q2[a] == q[a]);
        if scc@.contains(*q2[a]) { assert(in_refs(q2, *q2[a])); }
        if in_refs(sq2, *q2[a]) { let k = choose|k: int| 0 <= k < sq2.len() && *#[trigger] sq2[k] == *q2[a]; assert(*sq[k] == *q[a]); }
    }
    assert forall|b: int| 0 <= b < sq2.len() implies g.knows(*#[trigger] sq2[b]) && !found2.contains(*sq2[b]) && pre.contains_key(sq2[b]) && low.contains_key(sq2[b])
            && low[sq2[b]] >= i0 + 1 && pre[sq2[b]] > i0 + 1 by {
        assert(sq2[b] == sq[b]);
        if scc@.contains(*sq2[b]) { assert(in_refs(sq2, *sq2[b])); }
    }
    assert forall|a: int| 0 <= a < q2.len() - 1 implies pre.contains_key(#[trigger] q2[a]) by { assert(q2[a] == q[a]); }
    assert forall|x: T| #[trigger] pre.contains_key(&x) implies found2.contains(x) || in_refs(sq2, x) || in_refs(q2, x) by {
        if in_refs(sq, x) {
            let k = choose|k: int| 0 <= k < sq.len() && *#[trigger] sq[k] == x;
            if k < sq2.len() { assert(*sq2[k] == x); } else { assert(scc@.contains(x)); }
        } else if in_refs(q, x) {
            let k = choose|k: int| 0 <= k < q.len() && *#[trigger] q[k] == x;
            if k < q.len() - 1 { assert(*q2[k] == x); } else { assert(scc@.contains(x)); }
        }
    }
    assert forall|x: T| #[trigger] found2.contains(x) implies pre.contains_key(&x) by {}
    assert forall|x: T| #[trigger] pre.contains_key(&x) implies pre[&x] <= i && (pre[&x] <= i0 ==> found2.contains(x)) by {}
    assert forall|a: int, b: int| 0 <= a < b < q2.len() && pre.contains_key(#[trigger] q2[b]) implies pre[#[trigger] q2[a]] < pre[q2[b]] by {
        assert(q2[a] == q[a] && q2[b] == q[b]);
    }
    if q2.len() > 0 { assert(q2[0] == q[0]); }
    if q2.len() == 0 && sq2.len() > 0 {
        // the bottom of the stack carries the first number of this search, every finished node a later one: the list was emptied
        assert(sq2[sq2.len() - 1] == sq[sq2.len() - 1]);
        assert(pre[sq[sq2.len() - 1]] > i0 + 1);
        assert(pre[q[0]] == i0 + 1);
    }
}

impl<T, A> Graph<T, A>
where
    T: Eq + Clone + PartialOrd + Ord + Hash + Send + Sync + Display,
    A: Clone,
{
//@ extract fn src/graph/query.rs get_all_node_names ty=Graph nobody
//@ head
    #[verifier::external_body]
//@ rewrite
-> Vec<&T>
//@ with
-> (r: Vec<&T>)
//@ spec
    ensures
        r@.len() == self.n(),
        forall|i: int| 0 <= i < r@.len() ==> *(#[trigger] r@[i]) == self.nodes_vec@[i].name,
//@ end
}

//@ extract fn src/algorithms/components/strong_connectivity.rs strongly_connected_components props=C10,C20
//@ rewrite
-> Result<Vec<HashSet<T>>, Error>
//@ with
-> (r: Result<Vec<HashSet<T>>, Error>)
//@ rewrite
let mut preorder = HashMap::new();
    let mut lowlink = HashMap::new();
//@ with
let mut preorder: HashMap<&T, i32> = HashMap::new();
    let mut lowlink: HashMap<&T, i32> = HashMap::new();
//@ rewrite
let mut i = 0; // preorder counter
//@ with
let mut i: i32 = 0; // preorder counter
//@ rewrite
graph
        .get_successors_map()
        .into_iter()
        .map(|(n, hs)| (n, hs.clone()))
        .collect();
//@ with
vclone_sets_by_ref(graph.get_successors_map());
    proof {
        assert forall|a: T, w: T| neighbors@.contains_key(&a) && #[trigger] neighbors@[&a]@.contains(w) implies graph.knows(w) by {
            assert(graph.succ_names(a).contains(w));
        }
    }
//@ rewrite
for source in graph.get_all_node_names() {
//@ with
// R-loop: Verus' for-loops do not support `continue`; the loop over the name list is verified as the equivalent index loop
    let all_names = graph.get_all_node_names();
    let ghost av = all_names@;
    let mut si: usize = 0;
    while si < all_names.len()
        invariant
            graph.wf_nodes(), vstd::std_specs::hash::obeys_key_model::<&T>(),
            nb_ok(*graph, neighbors@), empty_hs@ =~= Set::<T>::empty(),
            all_names@ == av, av.len() == graph.n(), forall|t: int| 0 <= t < av.len() ==> *(#[trigger] av[t]) == graph.nodes_vec@[t].name,
            comps_ok(*graph, components@, scc_found@),
            scc_queue@.len() == 0,
            scc_idle(preorder@, scc_found@, i),
            0 <= si <= av.len(),
            forall|t: int| 0 <= t < si ==> scc_found@.contains(*#[trigger] av[t]),
        decreases av.len() - si,
    {
        let source = all_names[si];
        si = si + 1;
//@ rewrite
let mut queue = vec![source];
//@ with
let ghost i0 = i;
        let mut queue: Vec<&T> = vec![source];
        proof {
            assert(graph.knows(*source)) by { assert(*av[si - 1] == graph.nodes_vec@[si - 1].name); }
            assert(queue@.len() == 1 && queue@[0] == source);
            assert(scc_state(*graph, preorder@, lowlink@, scc_found@, queue@, scc_queue@, i, i0));
        }
//@ loop 2
            invariant
                all_names@ == av, 0 < si <= av.len(), source == av[si - 1],
                graph.wf_nodes(), vstd::std_specs::hash::obeys_key_model::<&T>(),
                nb_ok(*graph, neighbors@), empty_hs@ =~= Set::<T>::empty(),
                comps_ok(*graph, components@, scc_found@),
                scc_state(*graph, preorder@, lowlink@, scc_found@, queue@, scc_queue@, i, i0),
                scc_found@.contains(*source) || (queue@.len() > 0 && *queue@[0] == *source),
                forall|t: int| 0 <= t < si - 1 ==> scc_found@.contains(*#[trigger] av[t]),
            // [C20.scc.terminates] a step numbers a node (the counter is bounded), or pushes an unnumbered node onto a numbered top, or pops the stack
            decreases i32::MAX - i, (if top_numbered(preorder@, queue@) { 1int } else { 0int }), queue@.len(),
//@ before if !preorder.contains_key(&v) {
            let ghost pre0 = preorder@;
            let ghost iold = i;
            let ghost q1 = queue@;
            proof { assert(v == q1[q1.len() - 1]); }
//@ before i = i + 1;
                // machine bound treated as given: fewer than 2^31 - 1 nodes are numbered
                assume(i < i32::MAX);
//@ after preorder.insert(v, i);
                proof { lemma_number_top(*graph, pre0, lowlink@, scc_found@, q1, scc_queue@, iold, i0); }
//@ before let mut done = true;
            proof { assert(top_numbered(preorder@, q1)); }
//@ rewrite count=2
for w in neighbors.get(v).unwrap_or(&empty_hs)
//@ with
let nbs = neighbors.get(v).unwrap_or(&empty_hs);
            proof {
                assert(nbs@ =~= nb_of(neighbors@, v));
                assert forall|x: T| nb_of(neighbors@, v).contains(x) implies graph.knows(x) by {
                    if neighbors@.contains_key(v) { assert(neighbors@[&*v]@.contains(x)); }
                }
            }
            let nbit = vset_iter_t(nbs);
            let ghost wl = nbit.remaining();
            let ghost mut cnt: int = 0;
            for w in itw: nbit
//@ loop 3
                invariant_except_break
                    cnt == itw.index@, done,
                invariant
                    itw.seq() == wl,
                    graph.wf_nodes(), vstd::std_specs::hash::obeys_key_model::<&T>(),
                    forall|k: int| 0 <= k < wl.len() ==> graph.knows(*#[trigger] wl[k]),
                    scc_state(*graph, preorder@, lowlink@, scc_found@, q1, scc_queue@, i, i0), top_numbered(preorder@, q1),
                    done ==> queue@ == q1 && (forall|t: int| 0 <= t < cnt ==> preorder@.contains_key(#[trigger] wl[t])),
                    !done ==> scc_state(*graph, preorder@, lowlink@, scc_found@, queue@, scc_queue@, i, i0) && queue@.len() > 0 && queue@[0] == q1[0]
                        && !top_numbered(preorder@, queue@),
                ensures
                    done ==> cnt == wl.len(),
//@ rewrite
queue.push(w);
//@ with
queue.push(w);
                    proof {
                        // w is not numbered: it is neither assigned, nor finished, nor on the stack (all of those are numbered by now)
                        lemma_push(*graph, preorder@, lowlink@, scc_found@, q1, scc_queue@, i, i0, w);
                        assert(queue@ == q1.push(w));
                        assert(queue@[queue@.len() - 1] == w);
                    }
//@ bodyend 3
                proof { cnt = cnt + 1; }
//@ before lowlink.insert(v, preorder.get(v).unwrap().clone());
            proof {
                assert forall|x: T| nb_of(neighbors@, v).contains(x) implies preorder@.contains_key(&x) by {
                    let k = choose|k: int| 0 <= k < wl.len() && *#[trigger] wl[k] == x;
                    assert(preorder@.contains_key(wl[k]));
                }
                assert(preorder@.contains_key(&*v));
                assert(!scc_found@.contains(*q1[q1.len() - 1]));
            }
            let ghost low0 = lowlink@;
//@ after lowlink.insert(v, preorder.get(v).unwrap().clone());
            proof { lemma_low_update(*graph, preorder@, low0, lowlink@, scc_found@, q1, scc_queue@, i, i0); }
//@ loop 4
                invariant
                    itw.seq() == wl,
                    graph.wf_nodes(), vstd::std_specs::hash::obeys_key_model::<&T>(),
                    queue@ == q1, q1.len() > 0, v == q1[q1.len() - 1],
                    scc_state(*graph, preorder@, lowlink@, scc_found@, q1, scc_queue@, i, i0), top_numbered(preorder@, q1),
                    forall|k: int| 0 <= k < wl.len() ==> preorder@.contains_key(#[trigger] wl[k]),
                    lowlink@.contains_key(v), i0 + 1 <= lowlink@[v] <= preorder@[v],
//@ before let new_ll = match
                    proof { lemma_unassigned_neighbour(*graph, preorder@, lowlink@, scc_found@, q1, scc_queue@, i, i0, w); }
                    let ghost lowb = lowlink@;
//@ after lowlink.insert(v, new_ll);
                    proof { lemma_low_update(*graph, preorder@, lowb, lowlink@, scc_found@, q1, scc_queue@, i, i0); }
//@ rewrite
vec![lowlink.get(v).unwrap(), lowlink.get(&w).unwrap()]
                            .into_iter()
                            .min()
                            .unwrap(),
//@ with
vmin2(lowlink.get(v).unwrap(), lowlink.get(&w).unwrap()),
//@ rewrite
vec![lowlink.get(v).unwrap(), preorder.get(&w).unwrap()]
                            .into_iter()
                            .min()
                            .unwrap(),
//@ with
vmin2(lowlink.get(v).unwrap(), preorder.get(&w).unwrap()),
//@ after let mut scc: HashSet<T> =
                proof {
                    assert forall|x: T| scc@.contains(x) <==> x == *v by {
                        let one = seq![*v];
                        assert(one[0] == *v);
                        if one.to_set().contains(x) { assert(one.contains(x)); let k = choose|k: int| 0 <= k < one.len() && one[k] == x; }
                        if x == *v { assert(one.contains(x)); }
                    }
                }
                let ghost sq0 = scc_queue@;
                let ghost found0 = scc_found@;
                let ghost comps0 = components@;
//@ loop 5
                    invariant
                        vstd::std_specs::hash::obeys_key_model::<&T>(), key_model_ok::<T>(),
                        scc_queue@.len() <= sq0.len(), scc_queue@ == sq0.subrange(0, scc_queue@.len() as int),
                        forall|x: T| scc@.contains(x) <==> (x == *v || exists|k: int| scc_queue@.len() <= k < sq0.len() && *#[trigger] sq0[k] == x),
                        forall|b: int| 0 <= b < sq0.len() ==> preorder@.contains_key(#[trigger] sq0[b]),
                        preorder@.contains_key(v),
                    decreases scc_queue@.len(),
//@ rewrite
scc_found.union(&scc).cloned().collect();
//@ with
vset_union2(&scc_found, &scc);
//@ rewrite
components.push(scc)
//@ with
components.push(scc);
                proof {
                    let sccv = components@[components@.len() - 1];
                    assert(components@ =~= comps0.push(sccv));
                    lemma_finish_component(*graph, preorder@, lowlink@, found0, q1, sq0, i, i0, scc_queue@, sccv, scc_found@, comps0);
                }
//@ after scc_queue.push(v);
                proof { lemma_finish_to_sq(*graph, preorder@, lowlink@, scc_found@, q1, sq0b, i, i0); }
//@ before scc_queue.push(v);
                let ghost sq0b = scc_queue@;
//@ endloop 2
        proof {
            assert forall|x: T| #[trigger] preorder@.contains_key(&x) <==> scc_found@.contains(x) by {
                if preorder@.contains_key(&x) { assert(!in_refs(scc_queue@, x)); assert(!in_refs(queue@, x)); }
            }
        }
//@ before Ok(components)
    proof {
        assert forall|x: T| #[trigger] graph.knows(x) implies exists|c: int| 0 <= c < components@.len() && #[trigger] components@[c]@.contains(x) by {
            let t = graph.nodes_map@[x] as int;
            assert(*av[t] == x);
            assert(scc_found@.contains(x));
        }
        assert(partition_of_nodes(*graph, components@));
    }
//@ spec
    requires
        graph.wf_nodes(), graph.wf_name_sets(),
        // A2 for the reference-keyed tables of the search
        vstd::std_specs::hash::obeys_key_model::<&T>(),
    ensures
        // [C10.scc.wrong_method_on_undirected]
        !graph.specs.directed ==> is_err_kind(r, ErrorKind::WrongMethod),
        // [C10.scc.sets_are_non_empty_disjoint_and_cover_the_nodes]
        graph.specs.directed ==> r.is_ok() && partition_of_nodes(*graph, r.unwrap()@),
//@ end
} // verus!
fn main() {}
