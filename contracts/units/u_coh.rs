//@ unit u_coh
//@ depends u_graph
// C02, global form: the redundant adjacency stores describe one and the same graph —
//   wf_index_sets: j is in the successor index set of i iff the pair (i, j) (canonical key) is stored; predecessor sets mirror
//                  the store on directed graphs and are empty on undirected ones;
//   wf_name_sets:  the name-keyed maps returned by get_successors_map / get_predecessors_map are the index sets, renamed.
// Pure specification-level lemmas over the contracts of add_edge / add_node proved in u_graph: both invariants hold for the
// empty graph and are preserved by add_node and by every outcome of add_edge, hence after every history.
#![allow(unused_imports)]
use vstd::prelude::*;
use vstd::std_specs::cmp::*;
use vstd::std_specs::hash::EntrySpecFns;
use std::collections::{HashMap, HashSet};
use std::sync::Arc;
use std::hash::Hash;
use std::fmt::Display;
verus! {
//@ include float.rs
//@ include std_axioms.rs
broadcast use {f64ax::group_f64_axioms, dispax::axiom_display_total, cloneax::axiom_clone_eq};
//@ include types.rs
//@ include graph_spec.rs
//@ include-assumed adjvec.rs u_graph
//@ include-assumed traversal_inv.rs u_trav
//@ include coherence_inv.rs
} // verus!
fn main() {}
