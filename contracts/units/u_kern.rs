//@ unit u_kern
//@ depends u_graph u_cent
// C05 / C06 / C03 / C20: the single-source kernels of betweenness.rs and closeness.rs: they read exactly the traversal rows,
// cannot panic, and hand accumulate_betweenness a well-formed result (contract chain kernel -> accumulation).
#![feature(allocator_api)]
#![allow(unused_imports)]
#![allow(non_snake_case)]
use vstd::prelude::*;
use vstd::std_specs::cmp::*;
use vstd::std_specs::hash::EntrySpecFns;
use vstd::std_specs::iter::IteratorSpec;
use std::collections::{HashMap, HashSet, BinaryHeap, VecDeque};
use std::sync::Arc;
use std::hash::Hash;
use std::fmt::{Debug, Display};
use std::cmp::Ordering;
verus! {
//@ include float.rs
//@ include std_axioms.rs
broadcast use {f64ax::group_f64_axioms, dispax::axiom_display_total, cloneax::axiom_clone_eq};
//@ include types.rs
//@ include graph_spec.rs
//@ include heap.rs
//@ include-assumed adjvec.rs u_graph
//@ include-assumed graph_fns.rs u_graph

//@ include-assumed cent_fns.rs u_cent

//@ extract fn src/algorithms/centrality/betweenness.rs bfs props=C03,C05,C20
//@ head
#[verifier::exec_allows_no_decreases_clause]
#[verifier::loop_isolation(false)]
//@ rewrite
-> SingleSourceResults
//@ with
-> (r: SingleSourceResults)
//@ rewrite
sigma[w] += sigmav;
//@ with
sigma[w] = sigma[w] + sigmav;
//@ rewrite
    let mut S = vec![];
//@ with
    let mut S: Vec<usize> = vec![];
//@ rewrite count=any
f64::MAX
//@ with
vf64_max()
//@ spec
    requires
        graph.wf_nodes(),
        graph.wf_rows(),
        source < graph.n(),
    ensures
        // [C05.bfs.results_wf]
        ssr_wf(r, graph.n()),
        r.source == source,
//@ loop 1
        invariant
            P@.len() == graph.n(),
            D@.len() == graph.n(),
            sigma@.len() == graph.n(),
            forall|k: int| 0 <= k < fringe@.len() ==> #[trigger] fringe@[k] < graph.n(),
            forall|k: int| 0 <= k < S@.len() ==> #[trigger] S@[k] < graph.n(),
            forall|w: int, k: int| 0 <= w < graph.n() && 0 <= k < P@[w]@.len() ==> #[trigger] P@[w]@[k] < graph.n(),
//@ loop 2
            invariant
                v < graph.n(),
                P@.len() == graph.n(),
                D@.len() == graph.n(),
                sigma@.len() == graph.n(),
                forall|k: int| 0 <= k < fringe@.len() ==> #[trigger] fringe@[k] < graph.n(),
                forall|k: int| 0 <= k < S@.len() ==> #[trigger] S@[k] < graph.n(),
                forall|w: int, k: int| 0 <= w < graph.n() && 0 <= k < P@[w]@.len() ==> #[trigger] P@[w]@[k] < graph.n(),
//@ end

//@ extract struct src/algorithms/centrality/fringe_node.rs FringeNode
//@ end
impl Ord for FringeNode {
//@ extract fn src/algorithms/centrality/fringe_node.rs cmp ty=FringeNode props=C20
//@ end
}
impl PartialOrd for FringeNode {
//@ extract fn src/algorithms/centrality/fringe_node.rs partial_cmp ty=FringeNode props=C20
//@ end
}
impl PartialEq for FringeNode {
//@ extract fn src/algorithms/centrality/fringe_node.rs eq ty=FringeNode props=C20
//@ end
}
impl Eq for FringeNode {}
// nothing is claimed to vstd about this order (obeys_* = false); see the Kani lemmas C05.fringe.*
impl vstd::std_specs::cmp::PartialEqSpecImpl for FringeNode {
    open spec fn obeys_eq_spec() -> bool { false }
    open spec fn eq_spec(&self, other: &FringeNode) -> bool { true }
}
impl vstd::std_specs::cmp::PartialOrdSpecImpl for FringeNode {
    open spec fn obeys_partial_cmp_spec() -> bool { false }
    open spec fn partial_cmp_spec(&self, other: &FringeNode) -> Option<Ordering> { None }
}
impl vstd::std_specs::cmp::OrdSpecImpl for FringeNode {
    open spec fn obeys_cmp_spec() -> bool { false }
    open spec fn cmp_spec(&self, other: &FringeNode) -> Ordering { Ordering::Equal }
}

//@ extract fn src/algorithms/centrality/fringe_node.rs push_fringe_node props=C05,C20
//@ rewrite
distance: -vw_dist,
//@ with
distance: core::ops::Neg::neg(vw_dist),
//@ spec
    ensures
        // [C05.push.negated_distance]
        heap_view(final(fringe)) == heap_view(old(fringe)).insert(FringeNode { distance: fneg(vw_dist), pred: v, v: w }),
//@ end

//@ extract fn src/algorithms/centrality/betweenness.rs dijkstra props=C03,C05,C20
//@ head
#[verifier::exec_allows_no_decreases_clause]
#[verifier::loop_isolation(false)]
//@ rewrite
-> SingleSourceResults
//@ with
-> (r: SingleSourceResults)
//@ rewrite
        distance: -0.0,
//@ with
        distance: core::ops::Neg::neg(0.0),
//@ rewrite
let dist = -fringe_item.distance;
//@ with
let dist = core::ops::Neg::neg(fringe_item.distance);
//@ rewrite
        sigma[v] += sigma[pred];
//@ with
        sigma[v] = sigma[v] + sigma[pred];
//@ rewrite
                sigma[w] += sigma[v];
//@ with
                sigma[w] = sigma[w] + sigma[v];
//@ rewrite
    let mut S = vec![];
//@ with
    let mut S: Vec<usize> = vec![];
//@ rewrite count=any
f64::MAX
//@ with
vf64_max()
//@ spec
    requires
        graph.wf_nodes(),
        graph.wf_rows(),
        source < graph.n(),
    ensures
        // [C05.dijkstra.results_wf]
        ssr_wf(r, graph.n()),
        r.source == source,
//@ before while let Some(fringe_item) = fringe.pop() {
    let ghost mut popped: Set<usize> = Set::empty();
    proof {
        assert(heap_view(&fringe) =~= vstd::multiset::Multiset::<FringeNode>::empty().insert(FringeNode { distance: fneg(0.0f64), pred: source, v: source }));
    }
//@ loop 1
        invariant
            P@.len() == graph.n(),
            D@.len() == graph.n(),
            seen@.len() == graph.n(),
            sigma@.len() == graph.n(),
            forall|it: FringeNode| #[trigger] heap_view(&fringe).count(it) > 0 ==> it.v < graph.n() && it.pred < graph.n(),
            forall|k: int| 0 <= k < S@.len() ==> #[trigger] S@[k] < graph.n(),
            forall|w: int, k: int| 0 <= w < graph.n() && 0 <= k < P@[w]@.len() ==> #[trigger] P@[w]@[k] < graph.n(),
            // [C05.dijkstra.sigma_reset_on_strict_improvement]
            // path counting: a node that has not been settled yet and whose predecessor list is the single node that last improved its
            // tentative distance carries no path count (counts accumulated for an earlier, longer tentative distance must have been discarded)
            forall|w: int| 0 <= w < graph.n() && !popped.contains(w as usize) && P@[w]@.len() == 1 ==> #[trigger] sigma@[w] == 0.0f64,
            forall|w: int| 0 <= w < graph.n() && !popped.contains(w as usize) && w != source && P@[w]@.len() == 0 ==> feq(#[trigger] seen@[w], f64_max()),
            forall|w: int| 0 <= w < graph.n() && !feq(#[trigger] D@[w], f64_max()) ==> popped.contains(w as usize),
            popped.contains(source) || forall|it: FringeNode| #[trigger] heap_view(&fringe).count(it) > 0 ==> it.v == source,
//@ after S.push(v);
        proof {
            popped = popped.insert(v);
        }
//@ loop 2
            invariant
                v < graph.n(),
                P@.len() == graph.n(),
                D@.len() == graph.n(),
                seen@.len() == graph.n(),
                sigma@.len() == graph.n(),
                forall|it: FringeNode| #[trigger] heap_view(&fringe).count(it) > 0 ==> it.v < graph.n() && it.pred < graph.n(),
                forall|k: int| 0 <= k < S@.len() ==> #[trigger] S@[k] < graph.n(),
                forall|w: int, k: int| 0 <= w < graph.n() && 0 <= k < P@[w]@.len() ==> #[trigger] P@[w]@[k] < graph.n(),
                forall|w: int| 0 <= w < graph.n() && !popped.contains(w as usize) && P@[w]@.len() == 1 ==> #[trigger] sigma@[w] == 0.0f64,
                forall|w: int| 0 <= w < graph.n() && !popped.contains(w as usize) && w != source && P@[w]@.len() == 0 ==> feq(#[trigger] seen@[w], f64_max()),
                forall|w: int| 0 <= w < graph.n() && !feq(#[trigger] D@[w], f64_max()) ==> popped.contains(w as usize),
                popped.contains(source),
                popped.contains(v),
//@ end

// R-ext (A5): `D.into_iter().enumerate().filter(|(_, d)| *d != f64::MAX).collect()`: ASSUMED to keep exactly the reached entries
#[verifier::external_body]
pub fn vcollect_reached(D: Vec<f64>) -> (r: Vec<(usize, f64)>)
    ensures
        forall|j: int| 0 <= j < r@.len() ==> (#[trigger] r@[j]).0 < D@.len() && r@[j].1 == D@[r@[j].0 as int] && !feq(r@[j].1, f64_max()),
{ D.into_iter().enumerate().filter(|(_, d)| *d != f64::MAX).collect() }

//@ extract fn src/algorithms/centrality/closeness.rs single_source_shortest_path_length_weighted props=C03,C06,C20
//@ head
#[verifier::exec_allows_no_decreases_clause]
#[verifier::loop_isolation(false)]
//@ rewrite
-> Vec<(usize, f64)>
//@ with
-> (r: Vec<(usize, f64)>)
//@ rewrite
        distance: -0.0,
//@ with
        distance: core::ops::Neg::neg(0.0),
//@ rewrite
let dist = -fringe_item.distance;
//@ with
let dist = core::ops::Neg::neg(fringe_item.distance);
//@ rewrite
        sigma[v] += sigma[pred];
//@ with
        sigma[v] = sigma[v] + sigma[pred];
//@ rewrite
                sigma[w] += sigma[v];
//@ with
                sigma[w] = sigma[w] + sigma[v];
//@ rewrite
    D.into_iter()
        .enumerate()
        .filter(|(_, d)| *d != f64::MAX)
        .collect()
//@ with
    vcollect_reached(D)
//@ rewrite count=any
f64::MAX
//@ with
vf64_max()
//@ spec
    requires
        graph.wf_nodes(),
        graph.wf_rows(),
        source < graph.n(),
    ensures
        // [C06.kernel.weighted_reports_nodes_only]
        forall|j: int| 0 <= j < r@.len() ==> (#[trigger] r@[j]).0 < graph.n(),
//@ before while let Some(fringe_item) = fringe.pop() {
    proof {
        assert(heap_view(&fringe) =~= vstd::multiset::Multiset::<FringeNode>::empty().insert(FringeNode { distance: fneg(0.0f64), pred: source, v: source }));
    }
//@ loop 1
        invariant
            D@.len() == graph.n(),
            seen@.len() == graph.n(),
            sigma@.len() == graph.n(),
            forall|it: FringeNode| #[trigger] heap_view(&fringe).count(it) > 0 ==> it.v < graph.n() && it.pred < graph.n(),
//@ loop 2
            invariant
                v < graph.n(),
                D@.len() == graph.n(),
                seen@.len() == graph.n(),
                sigma@.len() == graph.n(),
                forall|it: FringeNode| #[trigger] heap_view(&fringe).count(it) > 0 ==> it.v < graph.n() && it.pred < graph.n(),
//@ end

// ---- the betweenness driver: kernels -> accumulation -> rescale with the graph's own parameters ----
// R-ext (A5): the rayon expression of the parallel branch, rayon::current_num_threads(), get_all_nodes() and the final
// enumerate/map/collect into a name-keyed map sit behind local declarations with ASSUMED contracts
#[verifier::external_body]
pub fn vrayon_threads() -> usize { unimplemented!() }
#[verifier::external_body]
pub fn vpar_single_source_results<T, A>(graph: &Graph<T, A>, weighted: bool) -> (r: Vec<SingleSourceResults>)
    where T: Hash + Eq + Clone + Ord + Debug + Display + Send + Sync, A: Clone + Send + Sync,
    requires graph.wf_nodes(), graph.wf_rows(),
    ensures forall|k: int| 0 <= k < r@.len() ==> ssr_wf(#[trigger] r@[k], graph.n()),
{ unimplemented!() }
// the name-keyed result: one entry per node, node i carries b[i]
pub open spec fn name_map_of<T: Eq + PartialOrd + Send + Sync, A: Clone>(g: Graph<T, A>, b: Seq<f64>, m: Map<T, f64>) -> bool {
    &&& forall|i: int| 0 <= i < g.n() ==> m.contains_key(#[trigger] g.nodes_vec@[i].name) && m[g.nodes_vec@[i].name] == b[i]
    &&& forall|k: T| #[trigger] m.contains_key(k) ==> g.knows(k)
}
#[verifier::external_body]
pub fn vvec_to_name_map<T, A>(graph: &Graph<T, A>, b: Vec<f64>) -> (r: HashMap<T, f64>)
    where T: Hash + Eq + Clone + Ord + Debug + Display + Send + Sync, A: Clone + Send + Sync,
    requires graph.wf_nodes(), b@.len() == graph.n(),
    ensures name_map_of(*graph, b@, r@),
{ unimplemented!() }
// b is b0 with the scaling rule applied to each of its n entries
pub open spec fn scaled_form(b0: Seq<f64>, b: Seq<f64>, n: usize, normalized: bool, directed: bool) -> bool {
    &&& b0.len() == n && b.len() == n
    &&& forall|i: int| 0 <= i < n ==> #[trigger] b[i] == (match get_scale_spec(n, normalized, directed) {
            Some(s) => fmul(b0[i], s),
            None => b0[i],
        })
}

//@ extract fn src/algorithms/centrality/betweenness.rs betweenness_centrality props=C05,C20
//@ rewrite
) -> Result<HashMap<T, f64>, Error>
//@ with
) -> (r: Result<HashMap<T, f64>, Error>)
//@ rewrite
rayon::current_num_threads()
//@ with
vrayon_threads()
//@ rewrite
(0..graph.number_of_nodes())
                .into_par_iter()
                .map(|source| match weighted {
                    true => dijkstra(graph, source),
                    false => bfs(graph, source),
                })
                .collect();
//@ with
vpar_single_source_results(graph, weighted);
//@ rewrite
for r in results
//@ with
for r in itr: results
//@ rewrite
for source in 0..graph.number_of_nodes()
//@ with
for source in its: 0..graph.number_of_nodes()
//@ rewrite
    let hm = betweenness
        .into_iter()
        .enumerate()
        .map(|(i, v)| (graph.get_node_by_index(&i).unwrap().name.clone(), v))
        .collect();
//@ with
    let hm = vvec_to_name_map(graph, betweenness);
//@ spec
    requires
        graph.wf_nodes(),
        graph.wf_rows(),
    ensures
        r.is_ok(),
        // [C05.driver.one_entry_per_node_scaled_with_graph_parameters]
        // the returned map has exactly one entry per node, holding the accumulated vector scaled by the rule for
        // (number of nodes, normalized, this graph's directedness)
        exists|b0: Seq<f64>, b: Seq<f64>| #[trigger] scaled_form(b0, b, graph.n() as usize, normalized, graph.specs.directed) && name_map_of(*graph, b, r.unwrap()@),
//@ loop 1
                invariant
                    graph.wf_nodes(), graph.wf_rows(),
                    betweenness@.len() == graph.n(),
                    forall|k: int| 0 <= k < results@.len() ==> ssr_wf(#[trigger] results@[k], graph.n()),
//@ loop 2
                invariant
                    graph.wf_nodes(), graph.wf_rows(),
                    betweenness@.len() == graph.n(),
//@ before rescale(
    let ghost b0 = betweenness@;
//@ before =let hm = betweenness
    proof {
        assert(scaled_form(b0, betweenness@, graph.n() as usize, normalized, graph.specs.directed));
    }
//@ end

} // verus!
fn main() {}
