//@ unit u_kern
//@ depends u_graph u_cent
// C05 / C06 / C03 / C20: the single-source kernels of betweenness.rs and closeness.rs: they read exactly the traversal rows,
// cannot panic, and hand accumulate_betweenness a well-formed result (contract chain kernel -> accumulation).
#![feature(allocator_api)]
#![allow(unused_imports)]
#![allow(non_snake_case)]
use vstd::prelude::*;
use vstd::std_specs::cmp::*;
use vstd::std_specs::hash::EntrySpecFns;
use vstd::std_specs::iter::IteratorSpec;
use std::collections::{HashMap, HashSet, BinaryHeap, VecDeque};
use std::sync::Arc;
use std::hash::Hash;
use std::fmt::{Debug, Display};
use std::cmp::Ordering;
verus! {
//@ include float.rs
//@ include std_axioms.rs
broadcast use {f64ax::group_f64_axioms, dispax::axiom_display_total, cloneax::axiom_clone_eq};
//@ include types.rs
//@ include graph_spec.rs
//@ include heap.rs
//@ include chain.rs
//@ include-assumed adjvec.rs u_graph
//@ include-assumed graph_fns.rs u_graph

//@ include-assumed cent_fns.rs u_cent

// ---- what the betweenness kernels hand to the accumulation, beyond well-formedness ----
pub open spec fn has_row_entry<T: Eq + PartialOrd + Send + Sync, A: Clone>(g: Graph<T, A>, p: usize, w: usize) -> bool {
    p < g.n() && exists|e: int| 0 <= e < g.successors_vec@[p as int]@.len() && (#[trigger] g.successors_vec@[p as int]@[e]).node_index == w
}
// every entry of a predecessor list P[w] is the tail of a stored traversal entry into w
pub open spec fn preds_are_edges<T: Eq + PartialOrd + Send + Sync, A: Clone>(g: Graph<T, A>, P: Seq<Vec<usize>>) -> bool {
    forall|w: int, k: int| 0 <= w < P.len() && 0 <= k < P[w]@.len() ==> has_row_entry(g, #[trigger] P[w]@[k], w as usize)
}
// p was settled with a length d (an entry (p, d) of the assignment history) such that d + the weight of a stored traversal entry
// p -> w IS w's tentative distance (spec-equal when it was set from it, IEEE-equal when it tied with it)
pub open spec fn tight_pred<T: Eq + PartialOrd + Send + Sync, A: Clone>(g: Graph<T, A>, hist: Seq<(usize, f64)>, seen: Seq<f64>, w: int, p: usize) -> bool {
    exists|i: int, e: int| 0 <= i < hist.len() && (#[trigger] hist[i]).0 == p && p < g.n() && 0 <= e < g.successors_vec@[p as int]@.len()
        && (#[trigger] g.successors_vec@[p as int]@[e]).node_index == w
        && (seen[w] == fadd(hist[i].1, g.successors_vec@[p as int]@[e].weight) || feq(fadd(hist[i].1, g.successors_vec@[p as int]@[e].weight), seen[w]))
}
// every entry of every predecessor list is tight (Brandes: P[w] holds the predecessors of w on paths of w's current tentative length)
pub open spec fn preds_tight<T: Eq + PartialOrd + Send + Sync, A: Clone>(g: Graph<T, A>, hist: Seq<(usize, f64)>, seen: Seq<f64>, P: Seq<Vec<usize>>) -> bool {
    forall|w: int, k: int| 0 <= w < P.len() && 0 <= k < P[w]@.len() ==> tight_pred(g, hist, seen, w, #[trigger] P[w]@[k])
}
pub proof fn lemma_tight_hist_mono<T: Eq + PartialOrd + Send + Sync, A: Clone>(g: Graph<T, A>, h0: Seq<(usize, f64)>, x: (usize, f64), seen: Seq<f64>, w: int, p: usize)
    requires tight_pred(g, h0, seen, w, p),
    ensures tight_pred(g, h0.push(x), seen, w, p),
{
    let (i, e) = choose|i: int, e: int| 0 <= i < h0.len() && (#[trigger] h0[i]).0 == p && p < g.n() && 0 <= e < g.successors_vec@[p as int]@.len()
        && (#[trigger] g.successors_vec@[p as int]@[e]).node_index == w
        && (seen[w] == fadd(h0[i].1, g.successors_vec@[p as int]@[e].weight) || feq(fadd(h0[i].1, g.successors_vec@[p as int]@[e].weight), seen[w]));
    assert(h0.push(x)[i] == h0[i]);
}
// every traversal entry of a node of the visiting order S leads to a node of S or to a node still waiting in `q`
pub open spec fn order_closed_upto<T: Eq + PartialOrd + Send + Sync, A: Clone>(g: Graph<T, A>, S: Seq<usize>, q: Seq<usize>, cur: int, upto: int) -> bool {
    forall|v: usize, k: int| #[trigger] entry_mark(v, k) && S.contains(v) && v < g.n() && 0 <= k < g.successors_vec@[v as int]@.len() && (v != cur || k < upto)
        ==> S.contains(g.successors_vec@[v as int]@[k].node_index) || q.contains(g.successors_vec@[v as int]@[k].node_index)
}
// the visiting order contains the source and is closed under the traversal rows: it covers every node reachable from the source
pub open spec fn order_covers_reachable<T: Eq + PartialOrd + Send + Sync, A: Clone>(g: Graph<T, A>, source: usize, S: Seq<usize>) -> bool {
    &&& S.contains(source)
    &&& forall|v: usize, k: int| #[trigger] entry_mark(v, k) && S.contains(v) && v < g.n() && 0 <= k < g.successors_vec@[v as int]@.len()
            ==> S.contains(g.successors_vec@[v as int]@[k].node_index)
}
// p is exactly one level above w: both have a level (not f64::MAX) and level(w) IEEE-equals level(p) + 1.0
pub open spec fn one_level_up(lv: Seq<f64>, w: int, p: usize) -> bool {
    0 <= w < lv.len() && p < lv.len() && !feq(lv[w], f64_max()) && !feq(lv[p as int], f64_max()) && feq(lv[w], fadd(lv[p as int], 1.0f64))
}
pub open spec fn preds_one_level_up(lv: Seq<f64>, P: Seq<Vec<usize>>) -> bool {
    forall|w: int, k: int| 0 <= w < P.len() && 0 <= k < P[w]@.len() ==> one_level_up(lv, w, #[trigger] P[w]@[k])
}
pub proof fn lemma_contains_push(s: Seq<usize>, x: usize, y: usize)
    requires s.contains(y) || x == y,
    ensures s.push(x).contains(y),
{
    if s.contains(y) {
        let j = choose|j: int| 0 <= j < s.len() && s[j] == y;
        assert(s.push(x)[j] == y);
    } else {
        assert(s.push(x)[s.len() as int] == y);
    }
}

pub proof fn lemma_contains_push_rev(s: Seq<usize>, x: usize, y: usize)
    requires s.push(x).contains(y), x != y,
    ensures s.contains(y),
{
    let j = choose|j: int| 0 <= j < s.push(x).len() && s.push(x)[j] == y;
    assert(j < s.len());
    assert(s[j] == y);
}

//@ extract fn src/algorithms/centrality/betweenness.rs bfs props=C03,C05,C20
//@ rewrite
-> SingleSourceResults
//@ with
-> (r: SingleSourceResults)
//@ rewrite
sigma[w] += sigmav;
//@ with
sigma[w] = sigma[w] + sigmav;
//@ rewrite
    let mut S = vec![];
//@ with
    let mut S: Vec<usize> = vec![];
//@ rewrite count=any
f64::MAX
//@ with
vf64_max()
//@ rewrite
for adj in graph.get_successor_nodes_by_index(&v)
//@ with
for adj in row_it: graph.get_successor_nodes_by_index(&v)
//@ spec
    requires
        graph.wf_nodes(),
        graph.wf_rows(),
        source < graph.n(),
    ensures
        // [C05.bfs.results_wf]
        ssr_wf(r, graph.n()),
        r.source == source,
        // [C05.bfs.predecessors_are_stored_edges, C03.consumers.betweenness_bfs_reads_successor_rows]
        preds_are_edges(*graph, r.P@),
        // [C05.bfs.order_covers_reachable_set]
        order_covers_reachable(*graph, source, r.S@),
        // [C05.bfs.no_node_visited_twice]
        r.S@.no_duplicates(),
        // [C05.bfs.predecessors_are_one_level_up]
        // every predecessor p listed for w is exactly one level above w (level(w) IEEE-equals level(p) + 1.0)
        exists|lv: Seq<f64>| lv.len() == graph.n() && #[trigger] preds_one_level_up(lv, r.P@),
//@ before while let Some(v) = fringe.pop_front() {
    let ghost mut q: Seq<usize> = fringe@;
    proof {
        assert(fringe@[0] == source);
        axiom_f64_zero_not_max();
        assert(fringe@ =~= seq![source]);
        assert((S@ + fringe@) =~= seq![source]);
    }
//@ loop 1
        invariant
            graph.wf_nodes(),
            graph.wf_rows(),
            source < graph.n(),
            P@.len() == graph.n(),
            D@.len() == graph.n(),
            sigma@.len() == graph.n(),
            q == fringe@,
            forall|k: int| 0 <= k < fringe@.len() ==> #[trigger] fringe@[k] < graph.n(),
            forall|k: int| 0 <= k < S@.len() ==> #[trigger] S@[k] < graph.n(),
            forall|w: int, k: int| 0 <= w < graph.n() && 0 <= k < P@[w]@.len() ==> #[trigger] P@[w]@[k] < graph.n(),
            preds_are_edges(*graph, P@),
            // [C05.bfs.nothing_discovered_is_dropped]
            forall|w: int| 0 <= w < graph.n() && !feq(#[trigger] D@[w], f64_max()) ==> S@.contains(w as usize) || fringe@.contains(w as usize),
            order_closed_upto(*graph, S@, fringe@, -1, 0),
            S@.contains(source) || fringe@.contains(source),
            // [C05.bfs.discovered_once]
            (S@ + fringe@).no_duplicates(),
            forall|x: int| 0 <= x < graph.n() ==> ((S@.contains(x as usize) || fringe@.contains(x as usize)) <==> !feq(#[trigger] D@[x], f64_max())),
            preds_one_level_up(D@, P@),
            S@.len() + fringe@.len() <= graph.n(),
        ensures
            fringe@.len() == 0,
        // [C20.betweenness_bfs.terminates] every step moves one node from the queue into the visiting order; a node is queued once and there are n
        decreases graph.n() - S@.len(),
//@ bodyend 1
        proof {
            assert forall|k: int| 0 <= k < (S@ + fringe@).len() implies #[trigger] (S@ + fringe@)[k] < graph.n() by {
                if k < S@.len() { assert((S@ + fringe@)[k] == S@[k]); } else { assert((S@ + fringe@)[k] == fringe@[k - S@.len()]); }
            }
            lemma_distinct_bounded_len(S@ + fringe@, graph.n());
        }
//@ before S.push(v);
        let ghost q0 = q;
        let ghost S0 = S@;
//@ after S.push(v);
        proof {
            assert(q0.len() > 0 && q0[0] == v && fringe@ =~= q0.subrange(1, q0.len() as int));
            assert((S@ + fringe@) =~= (S0 + q0));
            q = fringe@;
            assert forall|x: usize| #[trigger] q0.contains(x) implies q.contains(x) || x == v by {
                let j = choose|j: int| 0 <= j < q0.len() && q0[j] == x;
                if j > 0 { assert(q[j - 1] == x); }
            }
            assert forall|x: usize| #[trigger] S0.contains(x) implies S@.contains(x) by {
                lemma_contains_push(S0, v, x);
            }
            lemma_contains_push(S0, v, v);
            assert forall|x: usize| #[trigger] S@.contains(x) && x != v implies S0.contains(x) by {
                lemma_contains_push_rev(S0, v, x);
            }
            assert(order_closed_upto(*graph, S@, fringe@, v as int, 0));
        }
//@ loop 2
            invariant
                graph.wf_nodes(),
                graph.wf_rows(),
                source < graph.n(),
                v < graph.n(),
                P@.len() == graph.n(),
                D@.len() == graph.n(),
                sigma@.len() == graph.n(),
                q == fringe@,
                S@.contains(v),
                forall|k: int| 0 <= k < fringe@.len() ==> #[trigger] fringe@[k] < graph.n(),
                forall|k: int| 0 <= k < S@.len() ==> #[trigger] S@[k] < graph.n(),
                forall|w: int, k: int| 0 <= w < graph.n() && 0 <= k < P@[w]@.len() ==> #[trigger] P@[w]@[k] < graph.n(),
                preds_are_edges(*graph, P@),
                forall|w: int| 0 <= w < graph.n() && !feq(#[trigger] D@[w], f64_max()) ==> S@.contains(w as usize) || fringe@.contains(w as usize),
                order_closed_upto(*graph, S@, fringe@, v as int, row_it.index@ as int),
                S@.contains(source) || fringe@.contains(source),
                (S@ + fringe@).no_duplicates(),
                forall|x: int| 0 <= x < graph.n() ==> ((S@.contains(x as usize) || fringe@.contains(x as usize)) <==> !feq(#[trigger] D@[x], f64_max())),
                preds_one_level_up(D@, P@),
                D@[v as int] == Dv,
//@ after let w = adj.node_index;
            proof {
                assert(graph.successors_vec@[v as int]@[row_it.index@ as int] == *adj);
                assert(has_row_entry(*graph, v, w));
            }
//@ before D[w] = vw_dist;
                let ghost D0 = D@;
                proof {
                    // w is undiscovered: it is in neither sequence, no list mentions it as a predecessor and its own list is empty
                    assert(!S@.contains(w) && !fringe@.contains(w));
                    axiom_f64_succ_not_max(Dv);
                    assert(!feq(vw_dist, f64_max()));
                }
//@ after fringe.push_back(w);
                proof {
                    assert((S@ + fringe@) =~= (S@ + q).push(w));
                    assert forall|i: int, j: int| 0 <= i < j < (S@ + fringe@).len() implies (S@ + fringe@)[i] != (S@ + fringe@)[j] by {
                        if j == (S@ + q).len() {
                            assert((S@ + q)[i] != w) by {
                                if i < S@.len() { assert(S@[i] == (S@ + q)[i]); } else { assert(q[i - S@.len()] == (S@ + q)[i]); }
                            }
                        }
                    }
                    assert forall|a: int, k: int| 0 <= a < P@.len() && 0 <= k < P@[a]@.len() implies one_level_up(D@, a, #[trigger] P@[a]@[k]) by {
                        assert(one_level_up(D0, a, P@[a]@[k]));
                    }
                    let ghost q1 = q;
                    q = fringe@;
                    assert forall|x: usize| #[trigger] q1.contains(x) implies q.contains(x) by {
                        lemma_contains_push(q1, w, x);
                    }
                    lemma_contains_push(q1, w, w);
                    assert forall|x: usize| #[trigger] q.contains(x) && x != w implies q1.contains(x) by {
                        lemma_contains_push_rev(q1, w, x);
                    }
                    assert forall|x: int| 0 <= x < graph.n() implies ((S@.contains(x as usize) || fringe@.contains(x as usize)) <==> !feq(#[trigger] D@[x], f64_max())) by {
                        if x == w as int {
                            assert(fringe@.contains(w));
                        } else {
                            assert(D@[x] == D0[x]);
                            assert(x < usize::MAX) by { assert(D@.len() == D.len()); }
                            assert((x as usize) != w);
                            if q1.contains(x as usize) { lemma_contains_push(q1, w, x as usize); }
                            if q.contains(x as usize) { lemma_contains_push_rev(q1, w, x as usize); }
                            assert(q.contains(x as usize) <==> q1.contains(x as usize));
                            assert((S@.contains(x as usize) || q1.contains(x as usize)) <==> !feq(D0[x], f64_max()));
                        }
                    }
                }
//@ before P[w].push(v);
                let ghost P0 = P@;
                proof {
                    axiom_f64_succ_not_max(Dv);
                    axiom_f64_eq_euclidean(D@[w as int], vw_dist, f64_max());
                    // feq is symmetric on the machine (Euclidean with a == a needs non-NaN); here: D[w] == vw_dist and vw_dist is not MAX
                }
//@ after P[w].push(v);
                proof {
                    assert forall|a: int, k: int| 0 <= a < P@.len() && 0 <= k < P@[a]@.len() implies has_row_entry(*graph, #[trigger] P@[a]@[k], a as usize) by {
                        if a == w as int {
                            if k < P0[a]@.len() { assert(P@[a]@[k] == P0[a]@[k]); }
                        } else {
                            assert(P@[a] == P0[a]);
                        }
                    }
                    assert forall|a: int, k: int| 0 <= a < P@.len() && 0 <= k < P@[a]@.len() implies one_level_up(D@, a, #[trigger] P@[a]@[k]) by {
                        if a == w as int && k == P0[a]@.len() {
                            assert(P@[a]@[k] == v);
                        } else {
                            if a == w as int { assert(P@[a]@[k] == P0[a]@[k]); } else { assert(P@[a] == P0[a]); }
                            assert(one_level_up(D@, a, P0[a]@[k]));
                        }
                    }
                }
//@ end

//@ extract struct src/algorithms/centrality/fringe_node.rs FringeNode
//@ end
impl Ord for FringeNode {
//@ extract fn src/algorithms/centrality/fringe_node.rs cmp ty=FringeNode props=C20
//@ end
}
impl PartialOrd for FringeNode {
//@ extract fn src/algorithms/centrality/fringe_node.rs partial_cmp ty=FringeNode props=C20
//@ end
}
impl PartialEq for FringeNode {
//@ extract fn src/algorithms/centrality/fringe_node.rs eq ty=FringeNode props=C20
//@ end
}
impl Eq for FringeNode {}
// nothing is claimed to vstd about this order (obeys_* = false); see the Kani lemmas C05.fringe.*
impl vstd::std_specs::cmp::PartialEqSpecImpl for FringeNode {
    open spec fn obeys_eq_spec() -> bool { false }
    open spec fn eq_spec(&self, other: &FringeNode) -> bool { true }
}
impl vstd::std_specs::cmp::PartialOrdSpecImpl for FringeNode {
    open spec fn obeys_partial_cmp_spec() -> bool { false }
    open spec fn partial_cmp_spec(&self, other: &FringeNode) -> Option<Ordering> { None }
}
impl vstd::std_specs::cmp::OrdSpecImpl for FringeNode {
    open spec fn obeys_cmp_spec() -> bool { false }
    open spec fn cmp_spec(&self, other: &FringeNode) -> Ordering { Ordering::Equal }
}

//@ extract fn src/algorithms/centrality/fringe_node.rs push_fringe_node props=C05,C20
//@ rewrite
distance: -vw_dist,
//@ with
distance: core::ops::Neg::neg(vw_dist),
//@ spec
    ensures
        // [C05.push.negated_distance]
        heap_view(final(fringe)) == heap_view(old(fringe)).insert(FringeNode { distance: fneg(vw_dist), pred: v, v: w }),
//@ end

//@ extract fn src/algorithms/centrality/betweenness.rs dijkstra props=C03,C05,C20
//@ rewrite
-> SingleSourceResults
//@ with
-> (r: SingleSourceResults)
//@ rewrite
        distance: -0.0,
//@ with
        distance: core::ops::Neg::neg(0.0),
//@ rewrite
let dist = -fringe_item.distance;
//@ with
let dist = core::ops::Neg::neg(fringe_item.distance);
//@ rewrite
        sigma[v] += sigma[pred];
//@ with
        sigma[v] = sigma[v] + sigma[pred];
//@ rewrite
                sigma[w] += sigma[v];
//@ with
                sigma[w] = sigma[w] + sigma[v];
//@ rewrite
    let mut S = vec![];
//@ with
    let mut S: Vec<usize> = vec![];
//@ rewrite count=any
f64::MAX
//@ with
vf64_max()
//@ rewrite
for adj in graph.get_successor_nodes_by_index(&v)
//@ with
for adj in row_it: graph.get_successor_nodes_by_index(&v)
//@ spec
    requires
        graph.wf_nodes(),
        graph.wf_rows(),
        source < graph.n(),
    ensures
        // [C05.dijkstra.results_wf]
        ssr_wf(r, graph.n()),
        r.source == source,
        // [C05.dijkstra.predecessors_are_stored_edges, C03.consumers.betweenness_dijkstra_reads_successor_rows]
        preds_are_edges(*graph, r.P@),
        // [C05.dijkstra.order_covers_reachable_set]
        // closed under the traversal rows, except for entries whose candidate length is exactly f64::MAX (never queued)
        exists|hist: Seq<(usize, f64)>| #[trigger] order_covers_reachable_w(*graph, source, r.S@, hist),
        // [C05.dijkstra.predecessors_are_tight]
        // every predecessor p listed for w was settled with a length d such that d + weight(p -> w) is w's final tentative distance
        exists|hist: Seq<(usize, f64)>, seenf: Seq<f64>| #[trigger] preds_tight(*graph, hist, seenf, r.P@),
//@ before while let Some(fringe_item) = fringe.pop() {
    let ghost mut popped: Set<usize> = Set::empty();
    let ghost mut hist: Seq<(usize, f64)> = Seq::empty();
    let ghost mut hv: vstd::multiset::Multiset<FringeNode> = heap_view(&fringe);
    proof {
        let it0 = FringeNode { distance: fneg(0.0f64), pred: source, v: source };
        assert(heap_view(&fringe) =~= vstd::multiset::Multiset::<FringeNode>::empty().insert(it0));
        assert(heap_view(&fringe).count(it0) > 0);
        assert(in_heap(heap_view(&fringe), source));
        axiom_f64_zero_not_max();
        assert(fneg(it0.distance) == 0.0f64);
    }
//@ loop 1
        invariant
            graph.wf_nodes(),
            graph.wf_rows(),
            source < graph.n(),
            P@.len() == graph.n(),
            D@.len() == graph.n(),
            seen@.len() == graph.n(),
            sigma@.len() == graph.n(),
            forall|it: FringeNode| #[trigger] heap_view(&fringe).count(it) > 0 ==> it.v < graph.n() && it.pred < graph.n(),
            forall|k: int| 0 <= k < S@.len() ==> #[trigger] S@[k] < graph.n(),
            forall|w: int, k: int| 0 <= w < graph.n() && 0 <= k < P@[w]@.len() ==> #[trigger] P@[w]@[k] < graph.n(),
            // [C05.dijkstra.sigma_reset_on_strict_improvement]
            // path counting: a node that has not been settled yet and whose predecessor list is the single node that last improved its
            // tentative distance carries no path count (counts accumulated for an earlier, longer tentative distance must have been discarded)
            forall|w: int| 0 <= w < graph.n() && !popped.contains(w as usize) && P@[w]@.len() == 1 ==> #[trigger] sigma@[w] == 0.0f64,
            forall|w: int| 0 <= w < graph.n() && !popped.contains(w as usize) && w != source && P@[w]@.len() == 0 ==> feq(#[trigger] seen@[w], f64_max()),
            forall|w: int| 0 <= w < graph.n() && !feq(#[trigger] D@[w], f64_max()) ==> popped.contains(w as usize),
            popped.contains(source) || forall|it: FringeNode| #[trigger] heap_view(&fringe).count(it) > 0 ==> it.v == source,
            hv == heap_view(&fringe),
            forall|x: usize| #![trigger popped.contains(x)] #![trigger S@.contains(x)] popped.contains(x) <==> S@.contains(x),
            preds_are_edges(*graph, P@),
            preds_tight(*graph, hist, seen@, P@),
            // [C05.dijkstra.nothing_reachable_is_dropped]
            forall|w: int| 0 <= w < graph.n() && !feq(#[trigger] seen@[w], f64_max()) ==> popped.contains(w as usize) || in_heap(heap_view(&fringe), w as usize),
            succ_closed_upto(*graph, true, hist, popped, heap_view(&fringe), -1, 0),
            popped.contains(source) || in_heap(heap_view(&fringe), source),
            hist.len() == S@.len(), forall|j: int| 0 <= j < hist.len() ==> (#[trigger] hist[j]).0 == S@[j],
            // [C20.betweenness_dijkstra.settled_once] a settled node carries a distance other than f64::MAX (no heap item carries f64::MAX),
            // so the `continue` guard skips it for good
            forall|w: usize| #[trigger] popped.contains(w) ==> w < graph.n() && !feq(D@[w as int], f64_max()),
            forall|it: FringeNode| #[trigger] heap_view(&fringe).count(it) > 0 ==> !feq(fneg(it.distance), f64_max()),
            popped.len() <= graph.n(),
        ensures
            heap_view(&fringe).len() == 0,
        // [C20.betweenness_dijkstra.terminates] a step settles a node (each at most once, there are n) or only takes an item off the heap
        decreases graph.n() - popped.len(), heap_view(&fringe).len(),
//@ before let dist = -fringe_item.distance;
        let ghost heap0 = hv;
        proof {
            hv = heap_view(&fringe);
            assert(heap0.count(fringe_item) > 0);
            assert(hv == heap0.remove(fringe_item));
            assert forall|w: usize| w != fringe_item.v && #[trigger] in_heap(heap0, w) implies in_heap(heap_view(&fringe), w) by {
                lemma_in_heap_remove(heap0, fringe_item, w);
            }
        }
//@ before continue;
            proof {
                assert(popped.contains(v));
            }
//@ before S.push(v);
        let ghost S0 = S@;
        // [C05.dijkstra.settle_only_unsettled] a node enters the visiting order only while it is unsettled (the `continue` guard above)
        assert(feq(D@[v as int], f64_max()));
//@ after S.push(v);
        proof {
            assert(!popped.contains(v));
            popped = popped.insert(v);
            assert forall|x: usize| #[trigger] S0.contains(x) implies S@.contains(x) by {
                lemma_contains_push(S0, v, x);
            }
            lemma_contains_push(S0, v, v);
            assert forall|x: usize| #[trigger] S@.contains(x) && x != v implies S0.contains(x) by {
                lemma_contains_push_rev(S0, v, x);
            }
        }
//@ after D[v] = dist;
        proof {
            let ghost h0 = hist;
            hist = hist.push((v, dist));
            assert forall|w: int, k: int| 0 <= w < P@.len() && 0 <= k < P@[w]@.len() implies tight_pred(*graph, hist, seen@, w, #[trigger] P@[w]@[k]) by {
                lemma_tight_hist_mono(*graph, h0, (v, dist), seen@, w, P@[w]@[k]);
            }
            assert forall|x: usize, k: int| #[trigger] max_cand(*graph, true, h0, x, k) implies max_cand(*graph, true, hist, x, k) by {
                lemma_max_cand_mono(*graph, true, h0, (v, dist), x, k);
            }
            assert(succ_closed_upto(*graph, true, hist, popped, heap_view(&fringe), v as int, 0));
            assert forall|w: usize| #[trigger] popped.contains(w) implies w < graph.n() by {}
            lemma_bounded_usize_set_len(popped, graph.n());
            assert(hist[h0.len() as int] == (v, dist));
        }
        let ghost vpos: int = hist.len() - 1;
//@ loop 2
            invariant
                0 <= vpos < hist.len() && hist[vpos] == (v, dist),
                preds_tight(*graph, hist, seen@, P@),
                graph.wf_nodes(),
                graph.wf_rows(),
                source < graph.n(),
                v < graph.n(),
                P@.len() == graph.n(),
                D@.len() == graph.n(),
                seen@.len() == graph.n(),
                sigma@.len() == graph.n(),
                forall|it: FringeNode| #[trigger] heap_view(&fringe).count(it) > 0 ==> it.v < graph.n() && it.pred < graph.n(),
                forall|k: int| 0 <= k < S@.len() ==> #[trigger] S@[k] < graph.n(),
                forall|w: int, k: int| 0 <= w < graph.n() && 0 <= k < P@[w]@.len() ==> #[trigger] P@[w]@[k] < graph.n(),
                forall|w: int| 0 <= w < graph.n() && !popped.contains(w as usize) && P@[w]@.len() == 1 ==> #[trigger] sigma@[w] == 0.0f64,
                forall|w: int| 0 <= w < graph.n() && !popped.contains(w as usize) && w != source && P@[w]@.len() == 0 ==> feq(#[trigger] seen@[w], f64_max()),
                forall|w: int| 0 <= w < graph.n() && !feq(#[trigger] D@[w], f64_max()) ==> popped.contains(w as usize),
                popped.contains(source),
                popped.contains(v),
                hv == heap_view(&fringe),
                forall|x: usize| #![trigger popped.contains(x)] #![trigger S@.contains(x)] popped.contains(x) <==> S@.contains(x),
                preds_are_edges(*graph, P@),
                forall|w: int| 0 <= w < graph.n() && !feq(#[trigger] seen@[w], f64_max()) ==> popped.contains(w as usize) || in_heap(heap_view(&fringe), w as usize),
                succ_closed_upto(*graph, true, hist, popped, heap_view(&fringe), v as int, row_it.index@ as int),
                hist.len() == S@.len(), forall|j: int| 0 <= j < hist.len() ==> (#[trigger] hist[j]).0 == S@[j],
                forall|w: usize| #[trigger] popped.contains(w) ==> w < graph.n() && !feq(D@[w as int], f64_max()),
                forall|it: FringeNode| #[trigger] heap_view(&fringe).count(it) > 0 ==> !feq(fneg(it.distance), f64_max()),
                popped.len() <= graph.n(),
//@ after let w = adj.node_index;
            let ghost fringe0 = heap_view(&fringe);
            let ghost P0 = P@;
            let ghost seen0 = seen@;
            proof {
                assert(graph.successors_vec@[v as int]@[row_it.index@ as int] == *adj);
                assert(has_row_entry(*graph, v, w));
            }
//@ after push_fringe_node(&mut fringe, v, w, vw_dist);
                proof {
                    let itx = FringeNode { distance: fneg(vw_dist), pred: v, v: w };
                    hv = heap_view(&fringe);
                    assert forall|x: usize| #[trigger] in_heap(fringe0, x) implies in_heap(heap_view(&fringe), x) by {
                        lemma_in_heap_insert(fringe0, itx, x);
                    }
                    lemma_in_heap_insert(fringe0, itx, w);
                    assert(fneg(itx.distance) == vw_dist);
                    assert forall|it: FringeNode| #[trigger] heap_view(&fringe).count(it) > 0 implies !feq(fneg(it.distance), f64_max()) by {
                        if it != itx { assert(fringe0.count(it) > 0); }
                    }
                }
//@ bodyend 2
            proof {
                // the entry just relaxed leads to a settled node, a queued node, or its candidate is exactly f64::MAX
                assert(entry_mark(v, row_it.index@ as int));
                if feq(vw_dist, f64_max()) {
                    assert(hist.contains((v, dist)));
                    assert(max_cand(*graph, true, hist, v, row_it.index@ as int));
                }
            }
//@ after P[w] = vec![v];
                proof {
                    assert forall|a: int, k: int| 0 <= a < P@.len() && 0 <= k < P@[a]@.len() implies has_row_entry(*graph, #[trigger] P@[a]@[k], a as usize) by {
                        if a != w as int { assert(P@[a] == P0[a]); }
                    }
                    assert forall|a: int, k: int| 0 <= a < P@.len() && 0 <= k < P@[a]@.len() implies tight_pred(*graph, hist, seen@, a, #[trigger] P@[a]@[k]) by {
                        if a != w as int {
                            assert(P@[a] == P0[a] && seen@[a] == seen0[a]);
                            assert(tight_pred(*graph, hist, seen0, a, P0[a]@[k]));
                        } else {
                            assert(P@[a]@[k] == v);
                            assert(hist[vpos].0 == v && graph.successors_vec@[v as int]@[row_it.index@ as int].node_index == w);
                            assert(seen@[a] == fadd(hist[vpos].1, graph.successors_vec@[v as int]@[row_it.index@ as int].weight));
                        }
                    }
                }
//@ after P[w].push(v);
                proof {
                    assert forall|a: int, k: int| 0 <= a < P@.len() && 0 <= k < P@[a]@.len() implies has_row_entry(*graph, #[trigger] P@[a]@[k], a as usize) by {
                        if a == w as int {
                            if k < P0[a]@.len() { assert(P@[a]@[k] == P0[a]@[k]); }
                        } else {
                            assert(P@[a] == P0[a]);
                        }
                    }
                    assert forall|a: int, k: int| 0 <= a < P@.len() && 0 <= k < P@[a]@.len() implies tight_pred(*graph, hist, seen@, a, #[trigger] P@[a]@[k]) by {
                        if a == w as int && k == P0[a]@.len() {
                            assert(P@[a]@[k] == v);
                            assert(hist[vpos].0 == v && graph.successors_vec@[v as int]@[row_it.index@ as int].node_index == w);
                            assert(feq(fadd(hist[vpos].1, graph.successors_vec@[v as int]@[row_it.index@ as int].weight), seen@[a]));
                        } else {
                            if a == w as int { assert(P@[a]@[k] == P0[a]@[k]); } else { assert(P@[a] == P0[a]); }
                            assert(tight_pred(*graph, hist, seen0, a, P0[a]@[k]));
                        }
                    }
                }
//@ before =    SingleSourceResults {
    proof {
        assert forall|x: usize| !in_heap(heap_view(&fringe), x) by {
            if in_heap(heap_view(&fringe), x) {
                let it = choose|it: FringeNode| #[trigger] heap_view(&fringe).count(it) > 0 && it.v == x;
                assert(heap_view(&fringe).count(it) <= heap_view(&fringe).len());
            }
        }
        assert(order_covers_reachable_w(*graph, source, S@, hist));
    }
//@ end

// ---- reachability + walk soundness of the weighted kernels (shared with u_sp through chain.rs) ----
// a heap item is justified: it names nodes of the graph and carries the (negated) length of a walk to its node
pub open spec fn citem_ok<T: Eq + PartialOrd + Send + Sync, A: Clone>(g: Graph<T, A>, source: usize, hist: Seq<(usize, f64)>, it: FringeNode) -> bool {
    &&& it.v < g.n() && it.pred < g.n()
    &&& (it.v == source && fneg(it.distance) == 0.0f64)
        || exists|i: int| #[trigger] extends(g, true, hist, i, it.v, fneg(it.distance))
}
pub open spec fn in_heap(h: vstd::multiset::Multiset<FringeNode>, w: usize) -> bool {
    exists|it: FringeNode| #[trigger] h.count(it) > 0 && it.v == w
}
// every traversal entry of a node of `done` leads into `done` or to a node still waiting in the heap
// trigger marker for the closure quantifiers: they are instantiated only at traversal entries named explicitly (a trigger on the
// row entry itself would chain through in_heap -> citem_ok -> extends -> another row entry and never stop)
pub open spec fn entry_mark(v: usize, k: int) -> bool { true }
// the candidate through traversal entry k of v, extending a length v was assigned, is exactly f64::MAX: such a candidate is never queued
// (f64::MAX doubles as "not reached"; a node whose only candidates are f64::MAX stays unreached, as it stays unreported)
pub open spec fn max_cand<T: Eq + PartialOrd + Send + Sync, A: Clone>(g: Graph<T, A>, weighted: bool, hist: Seq<(usize, f64)>, v: usize, k: int) -> bool {
    exists|d: f64| #[trigger] hist.contains((v, d)) && feq(fadd(d, step_cost(g, weighted, v as int, k)), f64_max())
}
pub proof fn lemma_max_cand_mono<T: Eq + PartialOrd + Send + Sync, A: Clone>(g: Graph<T, A>, weighted: bool, h0: Seq<(usize, f64)>, x: (usize, f64), v: usize, k: int)
    requires max_cand(g, weighted, h0, v, k),
    ensures max_cand(g, weighted, h0.push(x), v, k),
{
    let d = choose|d: f64| #[trigger] h0.contains((v, d)) && feq(fadd(d, step_cost(g, weighted, v as int, k)), f64_max());
    let j = choose|j: int| 0 <= j < h0.len() && h0[j] == (v, d);
    assert(h0.push(x)[j] == (v, d));
    assert(h0.push(x).contains((v, d)));
}
pub open spec fn succ_closed_upto<T: Eq + PartialOrd + Send + Sync, A: Clone>(g: Graph<T, A>, weighted: bool, hist: Seq<(usize, f64)>, done: Set<usize>, h: vstd::multiset::Multiset<FringeNode>, cur: int, upto: int) -> bool {
    forall|v: usize, k: int| #[trigger] entry_mark(v, k) && done.contains(v) && v < g.n() && 0 <= k < g.successors_vec@[v as int]@.len() && (v != cur || k < upto)
        ==> done.contains(g.successors_vec@[v as int]@[k].node_index) || in_heap(h, g.successors_vec@[v as int]@[k].node_index) || max_cand(g, weighted, hist, v, k)
}
pub open spec fn succ_closed<T: Eq + PartialOrd + Send + Sync, A: Clone>(g: Graph<T, A>, weighted: bool, hist: Seq<(usize, f64)>, done: Set<usize>) -> bool {
    forall|v: usize, k: int| #[trigger] entry_mark(v, k) && done.contains(v) && v < g.n() && 0 <= k < g.successors_vec@[v as int]@.len()
        ==> done.contains(g.successors_vec@[v as int]@[k].node_index) || max_cand(g, weighted, hist, v, k)
}
// the weighted visiting order: hist lists the assignments in visiting order; the order contains the source and is closed under the traversal rows
// except for entries whose candidate is exactly f64::MAX
pub open spec fn order_covers_reachable_w<T: Eq + PartialOrd + Send + Sync, A: Clone>(g: Graph<T, A>, source: usize, S: Seq<usize>, hist: Seq<(usize, f64)>) -> bool {
    &&& S.contains(source)
    &&& hist.len() == S.len() && forall|j: int| 0 <= j < hist.len() ==> (#[trigger] hist[j]).0 == S[j]
    &&& forall|v: usize, k: int| #[trigger] entry_mark(v, k) && S.contains(v) && v < g.n() && 0 <= k < g.successors_vec@[v as int]@.len()
            ==> S.contains(g.successors_vec@[v as int]@[k].node_index) || max_cand(g, true, hist, v, k)
}
// a duplicate-free list of positions below n has at most n entries
pub proof fn lemma_distinct_bounded_len(s: Seq<usize>, n: nat)
    requires s.no_duplicates(), forall|k: int| 0 <= k < s.len() ==> #[trigger] s[k] < n,
    ensures s.len() <= n,
{
    s.unique_seq_to_set();
    assert forall|w: usize| s.to_set().contains(w) implies w < n by {
        let k = choose|k: int| 0 <= k < s.len() && s[k] == w;
    }
    lemma_bounded_usize_set_len(s.to_set(), n);
}
// a set of positions below n has at most n members
pub proof fn lemma_bounded_usize_set_len(s: Set<usize>, n: nat)
    requires forall|w: usize| s.contains(w) ==> w < n,
    ensures s.len() <= n,
    decreases n
{
    if n == 0 {
        assert(s =~= Set::<usize>::empty());
    } else {
        let last = (n - 1) as usize;
        let s2 = s.remove(last);
        assert forall|w: usize| s2.contains(w) implies w < (n - 1) as nat by { assert(s.contains(w)); }
        lemma_bounded_usize_set_len(s2, (n - 1) as nat);
        if !s.contains(last) { assert(s2 =~= s); }
    }
}
// what a single-source kernel reports: `done` is the set of nodes reachable from the source (it contains the source, is
// closed under the traversal rows - except for entries whose candidate length is exactly f64::MAX - and each of its nodes was assigned the length of a walk from the source: chain_ok);
// `out` lists nodes of `done` with their assigned lengths, and every node of `done` is listed unless its length is f64::MAX
pub open spec fn reach_rel<T: Eq + PartialOrd + Send + Sync, A: Clone>(g: Graph<T, A>, weighted: bool, source: usize, hist: Seq<(usize, f64)>, done: Set<usize>, out: Seq<(usize, f64)>) -> bool {
    &&& chain_ok(g, weighted, source, hist)
    &&& forall|j: int| 0 <= j < out.len() ==> hist.contains(#[trigger] out[j]) && done.contains(out[j].0)
    &&& done.contains(source)
    &&& succ_closed(g, weighted, hist, done)
    &&& forall|w: usize| #[trigger] done.contains(w) ==> w < g.n() && exists|d: f64| #[trigger] hist.contains((w, d)) && (feq(d, f64_max()) || out.contains((w, d)))
}
pub proof fn lemma_in_heap_remove(h: vstd::multiset::Multiset<FringeNode>, it: FringeNode, w: usize)
    requires in_heap(h, w), w != it.v,
    ensures in_heap(h.remove(it), w),
{
    let x = choose|x: FringeNode| #[trigger] h.count(x) > 0 && x.v == w;
    assert(h.remove(it).count(x) > 0);
}
pub proof fn lemma_in_heap_insert(h: vstd::multiset::Multiset<FringeNode>, it: FringeNode, w: usize)
    requires in_heap(h, w) || it.v == w,
    ensures in_heap(h.insert(it), w),
{
    if it.v == w {
        assert(h.insert(it).count(it) > 0);
    } else {
        let x = choose|x: FringeNode| #[trigger] h.count(x) > 0 && x.v == w;
        assert(h.insert(it).count(x) > 0);
    }
}
pub proof fn lemma_citem_mono<T: Eq + PartialOrd + Send + Sync, A: Clone>(g: Graph<T, A>, source: usize, h0: Seq<(usize, f64)>, x: (usize, f64), it: FringeNode)
    requires citem_ok(g, source, h0, it),
    ensures citem_ok(g, source, h0.push(x), it),
{
    if !(it.v == source && fneg(it.distance) == 0.0f64) {
        let i = choose|i: int| #[trigger] extends(g, true, h0, i, it.v, fneg(it.distance));
        lemma_extends_mono(g, true, h0, x, i, it.v, fneg(it.distance));
    }
}

// R-ext (A5): `D.into_iter().enumerate().filter(|(_, d)| *d != f64::MAX).collect()`: ASSUMED to keep exactly the reached entries,
// in index order
#[verifier::external_body]
pub fn vcollect_reached(D: Vec<f64>) -> (r: Vec<(usize, f64)>)
    ensures
        forall|j: int| 0 <= j < r@.len() ==> (#[trigger] r@[j]).0 < D@.len() && r@[j].1 == D@[r@[j].0 as int] && !feq(r@[j].1, f64_max()),
        forall|i: int| 0 <= i < D@.len() && !feq(#[trigger] D@[i], f64_max()) ==> r@.contains((i as usize, D@[i])),
        forall|a: int, b: int| 0 <= a < b < r@.len() ==> (#[trigger] r@[a]).0 < (#[trigger] r@[b]).0,
{ D.into_iter().enumerate().filter(|(_, d)| *d != f64::MAX).collect() }

//@ extract fn src/algorithms/centrality/closeness.rs single_source_shortest_path_length_weighted props=C03,C06,C20
//@ rewrite
-> Vec<(usize, f64)>
//@ with
-> (r: Vec<(usize, f64)>)
//@ rewrite
        distance: -0.0,
//@ with
        distance: core::ops::Neg::neg(0.0),
//@ rewrite
let dist = -fringe_item.distance;
//@ with
let dist = core::ops::Neg::neg(fringe_item.distance);
//@ rewrite
        sigma[v] += sigma[pred];
//@ with
        sigma[v] = sigma[v] + sigma[pred];
//@ rewrite
                sigma[w] += sigma[v];
//@ with
                sigma[w] = sigma[w] + sigma[v];
//@ rewrite
    D.into_iter()
        .enumerate()
        .filter(|(_, d)| *d != f64::MAX)
        .collect()
//@ with
        let ghost D0 = D@;
        let out = vcollect_reached(D);
        proof {
            assert forall|x: usize| !in_heap(heap_view(&fringe), x) by {
                if in_heap(heap_view(&fringe), x) {
                    let it = choose|it: FringeNode| #[trigger] heap_view(&fringe).count(it) > 0 && it.v == x;
                    assert(heap_view(&fringe).count(it) <= heap_view(&fringe).len());
                }
            }
            assert(succ_closed(*graph, true, hist, done));
            assert forall|j: int| 0 <= j < out@.len() implies hist.contains(#[trigger] out@[j]) && done.contains(out@[j].0) by {
                assert(reported(D0, out@[j].0 as int));
            }
            assert forall|w: usize| #[trigger] done.contains(w) implies w < graph.n() && exists|d: f64| #[trigger] hist.contains((w, d)) && (feq(d, f64_max()) || out@.contains((w, d))) by {
                let d = choose|d: f64| #[trigger] hist.contains((w, d)) && (feq(d, f64_max()) || D0[w as int] == d);
                if !feq(d, f64_max()) {
                    assert(out@.contains((w, D0[w as int])));
                }
            }
            assert(reach_rel(*graph, true, source, hist, done, out@));
        }
        out
//@ rewrite count=any
f64::MAX
//@ with
vf64_max()
//@ rewrite
for adj in graph.get_successor_nodes_by_index(&v)
//@ with
for adj in row_it: graph.get_successor_nodes_by_index(&v)
//@ spec
    requires
        graph.wf_nodes(),
        graph.wf_rows(),
        source < graph.n(),
    ensures
        // [C06.kernel.weighted_reports_nodes_only]
        forall|j: int| 0 <= j < r@.len() ==> (#[trigger] r@[j]).0 < graph.n(),
        // [C06.kernel.weighted_one_entry_per_node]
        forall|a: int, b: int| 0 <= a < b < r@.len() ==> (#[trigger] r@[a]).0 < (#[trigger] r@[b]).0,
        // [C06.kernel.weighted_reports_the_reachable_set_with_walk_lengths, C03.consumers.closeness_weighted_reads_successor_rows]
        // the reported nodes are exactly the nodes reachable from the source over the rows of successors_vec (minus those whose
        // assigned length is f64::MAX), and every reported distance is the length (left fold of f64 `+` over stored weights) of a
        // walk from the source
        exists|hist: Seq<(usize, f64)>, done: Set<usize>| #[trigger] reach_rel(*graph, true, source, hist, done, r@),
//@ before while let Some(fringe_item) = fringe.pop() {
    let ghost mut hist: Seq<(usize, f64)> = Seq::empty();
    let ghost mut done: Set<usize> = Set::empty();
    let ghost mut hv: vstd::multiset::Multiset<FringeNode> = heap_view(&fringe);
    proof {
        let it0 = FringeNode { distance: fneg(0.0f64), pred: source, v: source };
        assert(heap_view(&fringe) =~= vstd::multiset::Multiset::<FringeNode>::empty().insert(it0));
        assert(heap_view(&fringe).count(it0) > 0);
        assert(in_heap(heap_view(&fringe), source));
        assert(fneg(fneg(0.0f64)) == 0.0f64);
        axiom_f64_zero_not_max();
        assert(fneg(it0.distance) == 0.0f64);
    }
//@ loop 1
        invariant
            graph.wf_nodes(),
            graph.wf_rows(),
            source < graph.n(),
            D@.len() == graph.n(),
            seen@.len() == graph.n(),
            sigma@.len() == graph.n(),
            hv == heap_view(&fringe),
            // [C06.kernel.heap_items_justified]
            forall|it: FringeNode| #[trigger] heap_view(&fringe).count(it) > 0 ==> citem_ok(*graph, source, hist, it),
            // [C06.kernel.assignments_form_walks]
            chain_ok(*graph, true, source, hist),
            forall|u: int| reported(D@, u) ==> hist.contains((u as usize, #[trigger] D@[u])),
            // [C06.kernel.settled_nodes_are_not_reassigned]
            forall|j: int| 0 <= j < hist.len() ==> (#[trigger] hist[j]).0 < D@.len() && (feq(hist[j].1, f64_max()) || D@[hist[j].0 as int] == hist[j].1),
            // [C06.kernel.nothing_reachable_is_dropped]
            forall|w: int| 0 <= w < graph.n() && !feq(#[trigger] seen@[w], f64_max()) ==> done.contains(w as usize) || in_heap(heap_view(&fringe), w as usize),
            forall|w: int| 0 <= w < graph.n() && !feq(#[trigger] D@[w], f64_max()) ==> done.contains(w as usize),
            forall|w: usize| #[trigger] done.contains(w) ==> w < graph.n() && exists|d: f64| #[trigger] hist.contains((w, d)) && (feq(d, f64_max()) || D@[w as int] == d),
            succ_closed_upto(*graph, true, hist, done, heap_view(&fringe), -1, 0),
            done.contains(source) || in_heap(heap_view(&fringe), source),
            // [C20.closeness_kernel.settled_once] a settled node carries a distance other than f64::MAX (no heap item carries f64::MAX),
            // so the `continue` guard skips it for good
            forall|w: usize| #[trigger] done.contains(w) ==> !feq(D@[w as int], f64_max()),
            forall|it: FringeNode| #[trigger] heap_view(&fringe).count(it) > 0 ==> !feq(fneg(it.distance), f64_max()),
            done.len() <= graph.n(),
        ensures
            heap_view(&fringe).len() == 0,
        // [C20.closeness_kernel.terminates] a step settles a node (each at most once, there are n) or only takes an item off the heap
        decreases graph.n() - done.len(), heap_view(&fringe).len(),
//@ before let dist = -fringe_item.distance;
        let ghost heap0 = hv;
        proof {
            hv = heap_view(&fringe);
            assert(heap0.count(fringe_item) > 0);
            assert(hv == heap0.remove(fringe_item));
            assert forall|w: usize| w != fringe_item.v && #[trigger] in_heap(heap0, w) implies in_heap(heap_view(&fringe), w) by {
                lemma_in_heap_remove(heap0, fringe_item, w);
            }
        }
//@ before continue;
            proof {
                assert(done.contains(v));
            }
//@ after D[v] = dist;
        proof {
            let ghost h0 = hist;
            let ghost done0 = done;
            assert(!done0.contains(v));
            hist = hist.push((v, dist));
            done = done.insert(v);
            assert forall|x: usize, k: int| #[trigger] max_cand(*graph, true, h0, x, k) implies max_cand(*graph, true, hist, x, k) by {
                lemma_max_cand_mono(*graph, true, h0, (v, dist), x, k);
            }
            assert(succ_closed_upto(*graph, true, hist, done, heap_view(&fringe), v as int, 0));
            lemma_chain_push(*graph, true, source, h0, v, dist);
            assert forall|it: FringeNode| #[trigger] heap_view(&fringe).count(it) > 0 implies citem_ok(*graph, source, hist, it) by {
                lemma_citem_mono(*graph, source, h0, (v, dist), it);
            }
            assert(hist[h0.len() as int] == (v, dist));
            assert forall|u: int| reported(D@, u) implies hist.contains((u as usize, #[trigger] D@[u])) by {
                if u != v as int {
                    let j = choose|j: int| 0 <= j < h0.len() && h0[j] == (u as usize, D@[u]);
                    assert(hist[j] == h0[j]);
                }
            }
            assert forall|w: usize| #[trigger] done.contains(w) implies w < graph.n() && exists|d: f64| #[trigger] hist.contains((w, d)) && (feq(d, f64_max()) || D@[w as int] == d) by {
                if w != v {
                    let d = choose|d: f64| #[trigger] h0.contains((w, d)) && (feq(d, f64_max()) || D@[w as int] == d);
                    let j = choose|j: int| 0 <= j < h0.len() && h0[j] == (w, d);
                    assert(hist[j] == h0[j]);
                    assert(hist.contains((w, d)));
                } else {
                    assert(hist.contains((v, dist)));
                }
            }
            lemma_bounded_usize_set_len(done, graph.n());
        }
        let ghost vpos: int = hist.len() - 1;
//@ loop 2
            invariant
                v < graph.n(),
                D@.len() == graph.n(),
                seen@.len() == graph.n(),
                sigma@.len() == graph.n(),
                hv == heap_view(&fringe),
                graph.wf_nodes(),
                graph.wf_rows(),
                source < graph.n(),
                0 <= vpos < hist.len() && hist[vpos] == (v, dist),
                done.contains(v),
                chain_ok(*graph, true, source, hist),
                forall|u: int| reported(D@, u) ==> hist.contains((u as usize, #[trigger] D@[u])),
                forall|j: int| 0 <= j < hist.len() ==> (#[trigger] hist[j]).0 < D@.len() && (feq(hist[j].1, f64_max()) || D@[hist[j].0 as int] == hist[j].1),
                forall|w: int| 0 <= w < graph.n() && !feq(#[trigger] D@[w], f64_max()) ==> done.contains(w as usize),
                forall|w: usize| #[trigger] done.contains(w) ==> w < graph.n() && exists|d: f64| #[trigger] hist.contains((w, d)) && (feq(d, f64_max()) || D@[w as int] == d),
                forall|it: FringeNode| #[trigger] heap_view(&fringe).count(it) > 0 ==> citem_ok(*graph, source, hist, it),
                forall|w: int| 0 <= w < graph.n() && !feq(#[trigger] seen@[w], f64_max()) ==> done.contains(w as usize) || in_heap(heap_view(&fringe), w as usize),
                succ_closed_upto(*graph, true, hist, done, heap_view(&fringe), v as int, row_it.index@ as int),
                forall|w: usize| #[trigger] done.contains(w) ==> !feq(D@[w as int], f64_max()),
                forall|it: FringeNode| #[trigger] heap_view(&fringe).count(it) > 0 ==> !feq(fneg(it.distance), f64_max()),
                done.len() <= graph.n(),
                done.contains(source) || in_heap(heap_view(&fringe), source),
//@ before let vw_dist = dist + cost;
            let ghost fringe0 = heap_view(&fringe);
//@ after let vw_dist = dist + cost;
            proof {
                assert(graph.successors_vec@[v as int]@[row_it.index@ as int] == *adj);
                assert(extends(*graph, true, hist, vpos, w, vw_dist));
                assert(fneg(fneg(vw_dist)) == vw_dist);
            }
//@ after push_fringe_node(&mut fringe, v, w, vw_dist);
                proof {
                    let itx = FringeNode { distance: fneg(vw_dist), pred: v, v: w };
                    hv = heap_view(&fringe);
                    assert(extends(*graph, true, hist, vpos, itx.v, fneg(itx.distance)));
                    assert(citem_ok(*graph, source, hist, itx));
                    assert forall|x: usize| #[trigger] in_heap(fringe0, x) implies in_heap(heap_view(&fringe), x) by {
                        lemma_in_heap_insert(fringe0, itx, x);
                    }
                    lemma_in_heap_insert(fringe0, itx, w);
                    assert(in_heap(heap_view(&fringe), w));
                    assert(fneg(itx.distance) == vw_dist);
                    assert forall|it: FringeNode| #[trigger] heap_view(&fringe).count(it) > 0 implies !feq(fneg(it.distance), f64_max()) by {
                        if it != itx { assert(fringe0.count(it) > 0); }
                    }
                }
//@ bodyend 2
            proof {
                // the entry just relaxed leads to a settled node, a queued node, or its candidate is exactly f64::MAX
                assert(entry_mark(v, row_it.index@ as int));
                if feq(vw_dist, f64_max()) {
                    assert(hist.contains((v, dist)));
                    assert(max_cand(*graph, true, hist, v, row_it.index@ as int));
                }
            }
//@ end

// ---- the betweenness driver: kernels -> accumulation -> rescale with the graph's own parameters ----
// R-ext (A5): rayon::current_num_threads(), get_all_nodes() and the final enumerate/map/collect into a name-keyed map sit
// behind local declarations with ASSUMED contracts; the rayon expression `(0..n).into_par_iter().map(f).collect()` targets
// vpar_map_collect (assumed: element i satisfies f's postcondition) while the closure f itself stays in place and is verified
#[verifier::external_body]
pub fn vrayon_threads() -> usize { unimplemented!() }
// the name-keyed result: one entry per node, node i carries b[i]
pub open spec fn name_map_of<T: Eq + PartialOrd + Send + Sync, A: Clone>(g: Graph<T, A>, b: Seq<f64>, m: Map<T, f64>) -> bool {
    &&& forall|i: int| 0 <= i < g.n() ==> m.contains_key(#[trigger] g.nodes_vec@[i].name) && m[g.nodes_vec@[i].name] == b[i]
    &&& forall|k: T| #[trigger] m.contains_key(k) ==> g.knows(k)
}
#[verifier::external_body]
pub fn vvec_to_name_map<T, A>(graph: &Graph<T, A>, b: Vec<f64>) -> (r: HashMap<T, f64>)
    where T: Hash + Eq + Clone + Ord + Debug + Display + Send + Sync, A: Clone + Send + Sync,
    requires graph.wf_nodes(), b@.len() == graph.n(),
    ensures name_map_of(*graph, b@, r@),
{ unimplemented!() }
// b is b0 with the scaling rule applied to each of its n entries
pub open spec fn scaled_form(b0: Seq<f64>, b: Seq<f64>, n: usize, normalized: bool, directed: bool) -> bool {
    &&& b0.len() == n && b.len() == n
    &&& forall|i: int| 0 <= i < n ==> #[trigger] b[i] == (match get_scale_spec(n, normalized, directed) {
            Some(s) => fmul(b0[i], s),
            None => b0[i],
        })
}

//@ extract fn src/algorithms/centrality/betweenness.rs betweenness_centrality props=C05,C20
//@ rewrite
) -> Result<HashMap<T, f64>, Error>
//@ with
) -> (r: Result<HashMap<T, f64>, Error>)
//@ rewrite
rayon::current_num_threads()
//@ with
vrayon_threads()
//@ rewrite
(0..graph.number_of_nodes())
                .into_par_iter()
                .map(|source| match weighted {
//@ with
vpar_map_collect(graph.number_of_nodes(), |source: usize| -> (o: SingleSourceResults)
                    requires source < graph.n(), graph.wf_nodes(), graph.wf_rows(),
                    ensures ssr_wf(o, graph.n()),
                { match weighted {
//@ rewrite
                })
                .collect();
//@ with
                }});
//@ rewrite
for r in results
//@ with
for r in itr: results
//@ rewrite
for source in 0..graph.number_of_nodes()
//@ with
for source in its: 0..graph.number_of_nodes()
//@ rewrite
    let hm = betweenness
        .into_iter()
        .enumerate()
        .map(|(i, v)| (graph.get_node_by_index(&i).unwrap().name.clone(), v))
        .collect();
//@ with
    let hm = vvec_to_name_map(graph, betweenness);
//@ spec
    requires
        graph.wf_nodes(),
        graph.wf_rows(),
    ensures
        r.is_ok(),
        // [C05.driver.one_entry_per_node_scaled_with_graph_parameters]
        // the returned map has exactly one entry per node, holding the accumulated vector scaled by the rule for
        // (number of nodes, normalized, this graph's directedness)
        exists|b0: Seq<f64>, b: Seq<f64>| #[trigger] scaled_form(b0, b, graph.n() as usize, normalized, graph.specs.directed) && name_map_of(*graph, b, r.unwrap()@),
//@ loop 1
                invariant
                    graph.wf_nodes(), graph.wf_rows(),
                    betweenness@.len() == graph.n(),
                    forall|k: int| 0 <= k < results@.len() ==> ssr_wf(#[trigger] results@[k], graph.n()),
//@ loop 2
                invariant
                    graph.wf_nodes(), graph.wf_rows(),
                    betweenness@.len() == graph.n(),
//@ before rescale(
    let ghost b0 = betweenness@;
//@ before =let hm = betweenness
    proof {
        assert(scaled_form(b0, betweenness@, graph.n() as usize, normalized, graph.specs.directed));
    }
//@ end


// ---- the closeness driver: (reversed graph) -> kernels -> formula -> name-keyed map ----
// R-ext (A5): `(0..n).into_par_iter().map(f).collect()` targets a local declaration ASSUMED to return, for every i < n in
// order, a value satisfying f's postcondition (the closure f itself stays in place and is verified)
#[verifier::external_body]
pub fn vpar_map_collect<O: Send, F: Fn(usize) -> O + Sync + Send>(n: usize, f: F) -> (r: Vec<O>)
    requires forall|i: usize| i < n ==> call_requires(f, (i,)),
    ensures r@.len() == n, forall|i: int| 0 <= i < n ==> call_ensures(f, (i as usize,), #[trigger] r@[i]),
{ unimplemented!() }

// what a single-source closeness kernel returns for `source`: one entry per reported node (no node twice)
// listing exactly the reachable set with walk lengths (reach_rel)
pub open spec fn kernel_out<T: Eq + PartialOrd + Send + Sync, A: Clone>(g: Graph<T, A>, weighted: bool, source: usize, sp: Seq<(usize, f64)>) -> bool {
    &&& forall|a: int, b: int| 0 <= a < sp.len() && 0 <= b < sp.len() && a != b ==> (#[trigger] sp[a]).0 != (#[trigger] sp[b]).0
    &&& exists|hist: Seq<(usize, f64)>, done: Set<usize>| #[trigger] reach_rel(g, weighted, source, hist, done, sp)
}
pub open spec fn entry_ok<T: Eq + PartialOrd + Send + Sync, A: Clone>(g: Graph<T, A>, weighted: bool, wf_improved: bool, i: usize, c: f64) -> bool {
    exists|sp: Seq<(usize, f64)>| #[trigger] kernel_out(g, weighted, i, sp) && c == node_centrality_spec(sp, g.n() as usize, wf_improved)
}
// the result map: one entry per node of the searched graph, holding the formula applied to that node's kernel output
pub open spec fn closeness_map_ok<T: Eq + PartialOrd + Send + Sync, A: Clone>(g: Graph<T, A>, weighted: bool, wf_improved: bool, upto: int, m: Map<T, f64>) -> bool {
    &&& forall|i: int| 0 <= i < upto ==> m.contains_key(#[trigger] g.nodes_vec@[i].name) && entry_ok(g, weighted, wf_improved, i as usize, m[g.nodes_vec@[i].name])
    &&& forall|k: T| #[trigger] m.contains_key(k) ==> g.knows(k) && g.nodes_map@[k] < upto
}
// the graph the kernels search: the graph itself when undirected, its reversal when directed (so that outgoing search
// yields incoming distances)
pub open spec fn search_graph<T: Eq + PartialOrd + Send + Sync, A: Clone>(g: Graph<T, A>, rg: Graph<T, A>) -> bool {
    if g.specs.directed { reverse_outcome(g, Ok(rg)) } else { rg == g }
}
pub proof fn lemma_closeness_map_insert<T: Eq + PartialOrd + Send + Sync, A: Clone>(g: Graph<T, A>, weighted: bool, wf_improved: bool, j: int, m: Map<T, f64>, nm: T, c: f64)
    requires
        g.wf_nodes(), 0 <= j < g.n(), nm == g.nodes_vec@[j].name,
        closeness_map_ok(g, weighted, wf_improved, j, m),
        entry_ok(g, weighted, wf_improved, j as usize, c),
    ensures
        closeness_map_ok(g, weighted, wf_improved, j + 1, m.insert(nm, c)),
{
    let m2 = m.insert(nm, c);
    assert forall|i: int| 0 <= i < j + 1 implies m2.contains_key(#[trigger] g.nodes_vec@[i].name) && entry_ok(g, weighted, wf_improved, i as usize, m2[g.nodes_vec@[i].name]) by {
        if i < j {
            assert(g.nodes_map@[g.nodes_vec@[i].name] == i);
            assert(g.nodes_map@[g.nodes_vec@[j].name] == j);
            assert(g.nodes_vec@[i].name != g.nodes_vec@[j].name);
        }
    }
    assert forall|k: T| #[trigger] m2.contains_key(k) implies g.knows(k) && g.nodes_map@[k] < j + 1 by {
        if k == g.nodes_vec@[j].name {
            assert(g.nodes_map@[g.nodes_vec@[j].name] == j);
        }
    }
}

// ---- the hop-count kernel of closeness: level-synchronous search over hash sets, verified in place ----
// R-ext (A5): `for v in next_level.clone()` (a cloned hash set consumed by value: HashSet::into_iter has no vstd model): the clone is handed over as a
// vector ASSUMED to hold every element exactly once
#[verifier::external_body]
pub fn vset_clone_into_vec(s: &HashSet<usize>) -> (r: Vec<usize>)
    ensures r@.no_duplicates(), r@.len() == s@.len(), forall|x: usize| s@.contains(x) <==> #[trigger] r@.contains(x),
{ s.clone().into_iter().collect() }
pub open spec fn in_results(rv: Seq<(usize, f64)>, x: usize) -> bool {
    exists|j: int| 0 <= j < rv.len() && (#[trigger] rv[j]).0 == x
}
// x is about to be assigned `level`: it is the source at level 0.0 before anything is listed, or one traversal entry away from a listed node whose
// level is one less (level == that level + 1.0, IEEE)
pub open spec fn level_just<T: Eq + PartialOrd + Send + Sync, A: Clone>(g: Graph<T, A>, source: usize, rv: Seq<(usize, f64)>, x: usize, level: f64) -> bool {
    &&& x < g.n()
    &&& (x == source && level == 0.0f64 && rv.len() == 0) || exists|i: int| #[trigger] extends(g, false, rv, i, x, level)
}
// every traversal entry of a listed node leads to a listed node or to a node of the next level
pub open spec fn level_closed<T: Eq + PartialOrd + Send + Sync, A: Clone>(g: Graph<T, A>, rv: Seq<(usize, f64)>, nl: Set<usize>) -> bool {
    forall|v: usize, k: int| #[trigger] entry_mark(v, k) && in_results(rv, v) && v < g.n() && 0 <= k < g.successors_vec@[v as int]@.len()
        ==> in_results(rv, g.successors_vec@[v as int]@[k].node_index) || nl.contains(g.successors_vec@[v as int]@[k].node_index)
}
pub proof fn lemma_extends_prefix<T: Eq + PartialOrd + Send + Sync, A: Clone>(g: Graph<T, A>, h0: Seq<(usize, f64)>, h1: Seq<(usize, f64)>, i: int, u: usize, d: f64)
    requires extends(g, false, h0, i, u, d), h1.len() >= h0.len(), forall|j: int| 0 <= j < h0.len() ==> h1[j] == h0[j],
    ensures extends(g, false, h1, i, u, d),
{
    assert(h1[i] == h0[i]);
}
// a set of n positions below n holds every position below n
pub proof fn lemma_full_usize_set(s: Set<usize>, n: nat)
    requires forall|w: usize| s.contains(w) ==> w < n, s.len() == n,
    ensures forall|w: usize| w < n ==> s.contains(w),
    decreases n
{
    if n > 0 {
        let last = (n - 1) as usize;
        let s2 = s.remove(last);
        assert forall|w: usize| s2.contains(w) implies w < (n - 1) as nat by { assert(s.contains(w)); }
        if !s.contains(last) {
            assert(s2 =~= s);
            lemma_bounded_usize_set_len(s2, (n - 1) as nat);
        } else {
            lemma_full_usize_set(s2, (n - 1) as nat);
            assert forall|w: usize| w < n implies s.contains(w) by { if w != last { assert(s2.contains(w)); } }
        }
    }
}
// what the kernel has established when it returns: the listed nodes are exactly the nodes reachable from the source, each with a walk length
pub proof fn lemma_level_result<T: Eq + PartialOrd + Send + Sync, A: Clone>(g: Graph<T, A>, source: usize, rv: Seq<(usize, f64)>)
    requires
        chain_ok(g, false, source, rv), in_results(rv, source), level_closed(g, rv, Set::<usize>::empty()),
        forall|a: int, b: int| 0 <= a < rv.len() && 0 <= b < rv.len() && a != b ==> (#[trigger] rv[a]).0 != (#[trigger] rv[b]).0,
    ensures
        kernel_out(g, false, source, rv),
{
    let nodes = Seq::new(rv.len(), |j: int| rv[j].0);
    let done = nodes.to_set();
    assert forall|x: usize| done.contains(x) <==> in_results(rv, x) by {
        if done.contains(x) { let j = choose|j: int| 0 <= j < nodes.len() && nodes[j] == x; assert(rv[j].0 == x); }
        if in_results(rv, x) { let j = choose|j: int| 0 <= j < rv.len() && (#[trigger] rv[j]).0 == x; assert(nodes[j] == x); assert(nodes.contains(x)); }
    }
    assert forall|j: int| 0 <= j < rv.len() implies rv.contains(#[trigger] rv[j]) && done.contains(rv[j].0) by { assert(in_results(rv, rv[j].0)); }
    assert(succ_closed(g, false, rv, done)) by {
        assert forall|v: usize, k: int| #[trigger] entry_mark(v, k) && done.contains(v) && v < g.n() && 0 <= k < g.successors_vec@[v as int]@.len()
                implies done.contains(g.successors_vec@[v as int]@[k].node_index) || max_cand(g, false, rv, v, k) by {
            assert(in_results(rv, v));
        }
    }
    assert forall|w: usize| #[trigger] done.contains(w) implies w < g.n() && exists|d: f64| #[trigger] rv.contains((w, d)) && (feq(d, f64_max()) || rv.contains((w, d))) by {
        let j = choose|j: int| 0 <= j < rv.len() && (#[trigger] rv[j]).0 == w;
        assert(rv[j] == (w, rv[j].1));
        assert(rv.contains((w, rv[j].1)));
    }
    assert(reach_rel(g, false, source, rv, done, rv));
}

//@ extract fn src/algorithms/centrality/closeness.rs single_source_shortest_path_length_unweighted props=C03,C06,C20
//@ rewrite
-> Vec<(usize, f64)>
//@ with
-> (r: Vec<(usize, f64)>)
//@ rewrite
let mut seen = IntMap::default();
//@ with
let mut seen: IntMap<usize, f64> = IntMap::default();
//@ rewrite
let mut level = 0.0;
    let mut next_level = IntSet::default();
//@ with
let mut level: f64 = 0.0;
    let mut next_level: IntSet<usize> = IntSet::default();
//@ rewrite
let mut results = vec![];
//@ with
let mut results: Vec<(usize, f64)> = vec![];
//@ rewrite
let mut found = vec![];
        for v in next_level.clone()
//@ with
let mut found: Vec<usize> = vec![];
        let ghost rv0 = results@;
        let ghost seen0 = seen@;
        let nlv = vset_clone_into_vec(&next_level);
        let ghost nl = nlv@;
        proof {
            if rv0.len() == 0 {
                assert(next_level@ =~= set![source]);
                assert(set![source].len() == 1);
                assert(nl.contains(source));
                let k = choose|k: int| 0 <= k < nl.len() && nl[k] == source;
            }
            assert forall|x: usize| #[trigger] nlset0.contains(x) implies exists|k: int| 0 <= k < nl.len() && #[trigger] nl[k] == x by {
                assert(nl.contains(x));
                let k = choose|k: int| 0 <= k < nl.len() && nl[k] == x;
                assert(nl[k] == x);
            }
        }
        for v in itv: nlv
//@ rewrite
for v in found {
//@ with
let ghost fv = found@;
        let ghost rv1 = results@;
        for v in itf: found
            invariant
                graph.wf_nodes(), graph.wf_rows(), fv == itf.seq(), rv1 == results@,
                forall|t: int| 0 <= t < fv.len() ==> #[trigger] fv[t] < graph.n(),
                fv.len() == 0 ==> next_level@ =~= Set::<usize>::empty(),
                forall|x: usize| #[trigger] next_level@.contains(x) ==> x < graph.n() && exists|t: int, k: int| 0 <= t < itf.index@ && 0 <= k < graph.successors_vec@[fv[t] as int]@.len()
                    && (#[trigger] graph.successors_vec@[fv[t] as int]@[k]).node_index == x,
                forall|t: int, k: int| 0 <= t < itf.index@ && 0 <= k < graph.successors_vec@[fv[t] as int]@.len()
                    ==> next_level@.contains((#[trigger] graph.successors_vec@[fv[t] as int]@[k]).node_index),
        {
//@ rewrite
for w in adj {
//@ with
let ghost nl1 = next_level@;
            for w in itw: adj
                invariant
                    graph.wf_nodes(), graph.wf_rows(), v < graph.n(), *adj == graph.successors_vec@[v as int],
                    forall|x: usize| #[trigger] next_level@.contains(x) ==> nl1.contains(x) || exists|k: int| 0 <= k < itw.index@ && (#[trigger] adj@[k]).node_index == x,
                    forall|x: usize| nl1.contains(x) ==> next_level@.contains(x),
                    forall|k: int| 0 <= k < itw.index@ ==> next_level@.contains((#[trigger] adj@[k]).node_index),
            {
//@ rewrite
level += 1.0;
//@ with
proof {
            // the next round: every node of the new level is one entry away from a node listed with the current level
            assert forall|x: usize| #[trigger] next_level@.contains(x) implies level_just(*graph, source, results@, x, fadd(level, 1.0f64)) by {
                let (t, k) = choose|t: int, k: int| 0 <= t < fv.len() && 0 <= k < graph.successors_vec@[fv[t] as int]@.len()
                    && (#[trigger] graph.successors_vec@[fv[t] as int]@[k]).node_index == x;
                assert(results@[rv0.len() + t] == (fv[t], level));
                assert(extends(*graph, false, results@, rv0.len() + t, x, fadd(level, 1.0f64)));
            }
            assert(level_closed(*graph, results@, next_level@)) by {
                assert forall|v: usize, k: int| #[trigger] entry_mark(v, k) && in_results(results@, v) && v < graph.n() && 0 <= k < graph.successors_vec@[v as int]@.len()
                        implies in_results(results@, graph.successors_vec@[v as int]@[k].node_index) || next_level@.contains(graph.successors_vec@[v as int]@[k].node_index) by {
                    let u = graph.successors_vec@[v as int]@[k].node_index;
                    if in_results(rv0, v) {
                        // listed before this round: its entries led into the list or into the level just processed, all of which is listed now
                        assert(entry_mark(v, k));
                        if !in_results(rv0, u) {
                            assert(nlset0.contains(u));
                            assert(seen@.contains_key(u));
                        } else {
                            let j = choose|j: int| 0 <= j < rv0.len() && (#[trigger] rv0[j]).0 == u;
                            assert(results@[j] == rv0[j]);
                        }
                    } else {
                        // found in this round: its entries were just put into the next level
                        let j = choose|j: int| 0 <= j < results@.len() && (#[trigger] results@[j]).0 == v;
                        assert(j >= rv0.len()) by { if j < rv0.len() { assert(rv0[j] == results@[j]); assert(in_results(rv0, v)); } }
                        let t = j - rv0.len();
                        assert(results@[rv0.len() + t] == (fv[t], level));
                        assert(next_level@.contains(graph.successors_vec@[fv[t] as int]@[k].node_index));
                    }
                }
            }
        }
        level = level + 1.0;
//@ spec
    requires
        graph.wf_nodes(),
        graph.wf_rows(),
        source < graph.n(),
    ensures
        // [C06.kernel.unweighted_reports_the_reachable_set_with_hop_counts, C03.consumers.closeness_unweighted_reads_successor_rows]
        // one entry per reported node (no node twice); the reported nodes are exactly the nodes reachable from the source over the rows of
        // successors_vec, each with the length (1.0 per entry, left fold of f64 `+`) of a walk from the source
        kernel_out(*graph, false, source, r@),
//@ before while next_level.len() > 0 {
    proof {
        assert(next_level@ =~= set![source]);
        assert(level_closed(*graph, results@, next_level@));
    }
//@ loop 1
        invariant
            graph.wf_nodes(), graph.wf_rows(), source < graph.n(), num_nodes == graph.n(),
            forall|x: usize| #[trigger] seen@.contains_key(x) <==> in_results(results@, x),
            forall|x: usize| #[trigger] seen@.contains_key(x) ==> x < graph.n(),
            forall|a: int, b: int| 0 <= a < results@.len() && 0 <= b < results@.len() && a != b ==> (#[trigger] results@[a]).0 != (#[trigger] results@[b]).0,
            chain_ok(*graph, false, source, results@),
            forall|x: usize| #[trigger] next_level@.contains(x) ==> level_just(*graph, source, results@, x, level),
            level_closed(*graph, results@, next_level@),
            results@.len() == 0 ==> next_level@ =~= set![source],
            results@.len() > 0 ==> in_results(results@, source),
            seen@.dom().len() <= graph.n(),
        // [C20.closeness_hop_kernel.terminates] a round marks a new node (there are n) or leaves the next level empty
        decreases graph.n() - seen@.dom().len(), next_level@.len(),
//@ before let mut found = vec![];
        let ghost nlset0 = next_level@;
//@ loop 2
            invariant
                graph.wf_nodes(), graph.wf_rows(), source < graph.n(),
                nl == itv.seq(), nl.no_duplicates(), forall|x: usize| nlset0.contains(x) <==> #[trigger] nl.contains(x),
                forall|j: int| 0 <= j < rv0.len() ==> results@[j] == rv0[j],
                forall|x: usize| #[trigger] seen@.contains_key(x) <==> in_results(results@, x),
                forall|x: usize| #[trigger] seen@.contains_key(x) ==> x < graph.n(),
                forall|a: int, b: int| 0 <= a < results@.len() && 0 <= b < results@.len() && a != b ==> (#[trigger] results@[a]).0 != (#[trigger] results@[b]).0,
                chain_ok(*graph, false, source, results@),
                forall|x: usize| #[trigger] nlset0.contains(x) ==> level_just(*graph, source, rv0, x, level),
                // every node of the level is listed already, or still to come in this loop
                forall|x: usize| #[trigger] nlset0.contains(x) ==> seen@.contains_key(x) || exists|k: int| itv.index@ <= k < nl.len() && #[trigger] nl[k] == x,
                // the nodes found in this round are exactly the entries listed since it began, in order, each with the current level
                results@.len() == rv0.len() + found@.len(),
                forall|t: int| 0 <= t < found@.len() ==> #[trigger] results@[rv0.len() + t] == (found@[t], level),
                forall|t: int| 0 <= t < found@.len() ==> #[trigger] found@[t] < graph.n(),
                seen@.dom().len() == seen0.dom().len() + found@.len(),
                rv0.len() == 0 ==> nl.len() == 1 && nl[0] == source,
//@ before if !seen.contains_key(&v) {
            let ghost r0 = results@;
            let ghost f0 = found@;
            let ghost s0 = seen@;
//@ after results.push((v, level));
                proof {
                    assert(nl[itv.index@ as int] == v);
                    assert(nl.contains(v));
                    assert(level_just(*graph, source, rv0, v, level));
                    if !(v == source && level == 0.0f64 && rv0.len() == 0) {
                        let i = choose|i: int| #[trigger] extends(*graph, false, rv0, i, v, level);
                        lemma_extends_prefix(*graph, rv0, r0, i, v, level);
                    } else {
                        assert(itv.index@ == 0);
                    }
                    assert(results@ == r0.push((v, level)));
                    assert(found@ == f0.push(v));
                    lemma_chain_push(*graph, false, source, r0, v, level);
                    assert forall|x: usize| #[trigger] seen@.contains_key(x) <==> in_results(results@, x) by {
                        if in_results(r0, x) { let j = choose|j: int| 0 <= j < r0.len() && (#[trigger] r0[j]).0 == x; assert(results@[j] == r0[j]); }
                        if x == v { assert(results@[r0.len() as int].0 == v); }
                        if in_results(results@, x) && x != v { let j = choose|j: int| 0 <= j < results@.len() && (#[trigger] results@[j]).0 == x; assert(r0[j] == results@[j]); }
                    }
                    assert forall|a: int, b: int| 0 <= a < results@.len() && 0 <= b < results@.len() && a != b implies (#[trigger] results@[a]).0 != (#[trigger] results@[b]).0 by {
                        if a < r0.len() && b < r0.len() { assert(r0[a] == results@[a] && r0[b] == results@[b]); }
                        else if a < r0.len() { assert(r0[a] == results@[a]); assert(in_results(r0, r0[a].0)); }
                        else { assert(r0[b] == results@[b]); assert(in_results(r0, r0[b].0)); }
                    }
                    assert forall|t: int| 0 <= t < found@.len() implies #[trigger] results@[rv0.len() + t] == (found@[t], level) by {
                        if t < f0.len() { assert(results@[rv0.len() + t] == r0[rv0.len() + t]); assert(found@[t] == f0[t]); }
                    }
                    assert(s0.dom().insert(v) =~= seen@.dom());
                }
//@ bodyend 2
            proof {
                assert forall|x: usize| #[trigger] nlset0.contains(x) implies seen@.contains_key(x) || exists|k: int| itv.index@ + 1 <= k < nl.len() && #[trigger] nl[k] == x by {
                    if !seen@.contains_key(x) {
                        assert(!s0.contains_key(x));
                        let k = choose|k: int| itv.index@ <= k < nl.len() && #[trigger] nl[k] == x;
                        assert(k != itv.index@);
                    }
                }
            }
//@ before if seen.len() == num_nodes {
        proof {
            // every node of the level just processed is listed now
            assert forall|x: usize| nlset0.contains(x) implies in_results(results@, x) by {
                assert(seen@.contains_key(x));
            }
            lemma_bounded_usize_set_len(seen@.dom(), graph.n());
        }
//@ before return results;
            proof {
                // every node is listed: the list is trivially closed under the traversal rows
                lemma_full_usize_set(seen@.dom(), graph.n());
                assert(level_closed(*graph, results@, Set::<usize>::empty())) by {
                    assert forall|v: usize, k: int| #[trigger] entry_mark(v, k) && in_results(results@, v) && v < graph.n() && 0 <= k < graph.successors_vec@[v as int]@.len()
                            implies in_results(results@, graph.successors_vec@[v as int]@[k].node_index) by {
                        assert(seen@.dom().contains(graph.successors_vec@[v as int]@[k].node_index));
                    }
                }
                assert(in_results(results@, source)) by { if results@.len() == 0 { assert(nlset0.contains(source)); } }
                lemma_level_result(*graph, source, results@);
            }
//@ tail
    // (reached when the next level is empty)
//@ before =    results
    proof {
        assert(next_level@ =~= Set::<usize>::empty());
        assert(results@.len() > 0);
        lemma_level_result(*graph, source, results@);
    }
//@ end

//@ extract fn src/algorithms/centrality/closeness.rs closeness_centrality props=C06,C20
//@ rewrite
) -> Result<HashMap<T, f64>, Error>
//@ with
) -> (r: Result<HashMap<T, f64>, Error>)
//@ rewrite
rayon::current_num_threads()
//@ with
vrayon_threads()
//@ rewrite
(0..the_graph.number_of_nodes())
                .into_par_iter()
                .map(|source| {
//@ with
vpar_map_collect(the_graph.number_of_nodes(), |source: usize| -> (o: (T, f64))
                    requires source < the_graph.n(), the_graph.wf_nodes(), the_graph.wf_rows(), num_nodes == the_graph.n(),
                    ensures o.0 == the_graph.nodes_vec@[source as int].name, entry_ok(*the_graph, weighted, wf_improved, source, o.1),
                {
//@ rewrite
                })
                .collect();
//@ with
                });
//@ rewrite
for (node, cc) in results
//@ with
for (node, cc) in itr: results
//@ rewrite
for source in 0..the_graph.number_of_nodes()
//@ with
for source in its: 0..the_graph.number_of_nodes()
//@ spec
    requires
        graph.wf_nodes(),
        graph.wf_rows(),
        // reversing the (well-formed, directed) graph does not fail
        graph.specs.directed ==> forall|rr: Result<Graph<T, A>, Error>| #[trigger] reverse_outcome(*graph, rr) ==> rr.is_ok(),
    ensures
        r.is_ok(),
        // [C06.driver.formula_of_kernel_output_on_reversed_graph_for_every_node]
        // the map has exactly one entry per node; node i carries the closeness formula applied to the output of the single-source
        // kernel (weighted or hop-count, as requested) started at i on the searched graph: the graph itself when undirected,
        // its reversal (same nodes, every edge flipped) when directed - in the sequential and in the parallel branch alike
        exists|rg: Graph<T, A>| #[trigger] search_graph(*graph, rg) && closeness_map_ok(rg, weighted, wf_improved, rg.n() as int, r.unwrap()@),
//@ before let num_nodes = the_graph.number_of_nodes();
    let ghost rg: Graph<T, A> = *the_graph;
    proof {
        assert(search_graph(*graph, rg));
    }
//@ loop 1
                invariant
                    rg == *the_graph,
                    rg.wf_nodes(),
                    results@.len() == rg.n(),
                    forall|i: int| 0 <= i < results@.len() ==> (#[trigger] results@[i]).0 == rg.nodes_vec@[i].name && entry_ok(rg, weighted, wf_improved, i as usize, results@[i].1),
                    closeness_map_ok(rg, weighted, wf_improved, itr.index@ as int, centralities@),
//@ before centralities.insert(node, cc);
                proof {
                    lemma_closeness_map_insert(rg, weighted, wf_improved, itr.index@ as int, centralities@, node, cc);
                }
//@ loop 2
                invariant
                    rg == *the_graph,
                    rg.wf_nodes(),
                    rg.wf_rows(),
                    num_nodes == rg.n(),
                    closeness_map_ok(rg, weighted, wf_improved, its.index@ as int, centralities@),
//@ before #1 let node_name = the_graph.get_node_by_index(&source).unwrap().name.clone();
                    proof {
                        assert(kernel_out(*the_graph, weighted, source, shortest_paths@));
                        assert(entry_ok(*the_graph, weighted, wf_improved, source, cc));
                    }
//@ before #2 let node_name = the_graph.get_node_by_index(&source).unwrap().name.clone();
                proof {
                    assert(kernel_out(rg, weighted, source, shortest_paths@));
                    assert(entry_ok(rg, weighted, wf_improved, source, cc));
                }
//@ before centralities.insert(node_name, cc);
                proof {
                    lemma_closeness_map_insert(rg, weighted, wf_improved, source as int, centralities@, node_name, cc);
                }
//@ end

} // verus!
fn main() {}
