//@ unit u_tri
//@ depends u_graph u_bfs u_query
// C20 for the undirected triangle counters (the property's anchor cluster/undirected.rs:56, `neighbors_map.get(w).unwrap()`):
// cluster::utility::get_neighbors_of_nodes, cluster::undirected::{get_triangles_and_degrees, get_triangles_and_degrees_for_node} and the public
// cluster::{triangles, generalized_degree}, for every undirected graph and every list of existing node names (also a proper subset of the nodes).
#![allow(unused_imports)]
use vstd::prelude::*;
use vstd::std_specs::cmp::*;
use vstd::std_specs::hash::EntrySpecFns;
use std::collections::{HashMap, HashSet};
use std::sync::Arc;
use std::hash::Hash;
use std::fmt::Display;
verus! {
//@ include float.rs
//@ include std_axioms.rs
broadcast use {f64ax::group_f64_axioms, dispax::axiom_display_total, cloneax::axiom_clone_eq};
//@ include types.rs
//@ include graph_spec.rs
//@ include-assumed adjvec.rs u_graph
//@ include-assumed graph_fns.rs u_graph
//@ include-assumed bfs_fns.rs u_bfs
//@ include-assumed traversal_inv.rs u_trav
//@ include-assumed coherence_inv.rs u_coh
//@ include-assumed query_fns.rs u_query

// the names one step away from the node named a
pub open spec fn step_names<T: Eq + PartialOrd + Send + Sync, A: Clone>(g: Graph<T, A>, a: T, s: Set<T>) -> bool {
    forall|x: T| s.contains(x) <==> #[trigger] steps_to(g, a, x)
}
pub open spec fn all_known<T: Eq + PartialOrd + Send + Sync, A: Clone>(g: Graph<T, A>, names: Option<&[T]>) -> bool {
    names is Some ==> forall|i: int| 0 <= i < names.unwrap()@.len() ==> g.knows(#[trigger] names.unwrap()@[i])
}
// the nodes a call works on: the listed ones, or all nodes when no list or an empty list is given
pub open spec fn wanted<T: Eq + PartialOrd + Send + Sync, A: Clone>(g: Graph<T, A>, names: Option<&[T]>, k: T) -> bool {
    if names is None || names.unwrap()@.len() == 0 { g.knows(k) } else { names.unwrap()@.contains(k) }
}
// what get_neighbors_of_nodes returns: one entry per wanted node, holding exactly the names one step away from it
pub open spec fn neighbor_sets_of<T: Eq + PartialOrd + Send + Sync, A: Clone>(g: Graph<T, A>, names: Option<&[T]>, m: Map<T, HashSet<T>>) -> bool {
    &&& forall|k: T| #[trigger] m.contains_key(k) <==> wanted(g, names, k)
    &&& forall|k: T| #[trigger] m.contains_key(k) ==> g.knows(k) && step_names(g, k, m[k]@)
}

// R-ext (A5): the crate's extension trait HashSetExt::without, hash-set intersection counted, `v.into_iter().cloned().collect()`, `s.to_vec()`
#[verifier::external_body]
pub fn vset_without<T: Clone + Eq + Hash>(s: &HashSet<T>, v: &T) -> (r: HashSet<T>)
    ensures r@ == s@.remove(*v),
{ s.iter().filter(|x| *x != v).cloned().collect() }
#[verifier::external_body]
pub fn vcommon_len<T: Eq + Hash + Clone>(a: &HashSet<T>, b: &HashSet<T>) -> (r: usize)
    ensures r == a@.intersect(b@).len(),
{ a.intersection(b).count() }
#[verifier::external_body]
pub fn vcloned_collect<T: Clone>(v: Vec<&T>) -> (r: Vec<T>)
    ensures r@.len() == v@.len(), forall|i: int| 0 <= i < r@.len() ==> #[trigger] r@[i] == *v@[i],
{ v.into_iter().cloned().collect() }
#[verifier::external_body]
pub fn vslice_to_vec<T: Clone>(s: &[T]) -> (r: Vec<T>)
    ensures r@ == s@,
{ s.to_vec() }
// R-ext (A5): `v.into_iter().map(f).collect::<HashMap<_, _>>()`: ASSUMED to call f on every element in order and to insert the pairs in that order;
// f stays in place and is verified
#[verifier::external_body]
pub fn vinto_map_collect_map<X, K: Eq + Hash, V, F: FnMut(X) -> (K, V)>(v: Vec<X>, f: F) -> (r: HashMap<K, V>)
    requires forall|i: int| 0 <= i < v@.len() ==> call_requires(f, (#[trigger] v@[i],)),
    ensures exists|pairs: Seq<(K, V)>| pairs.len() == v@.len() && (forall|i: int| 0 <= i < v@.len() ==> call_ensures(f, (v@[i],), #[trigger] pairs[i]))
        && r@ == map_of_pairs(pairs),
{ v.into_iter().map(f).collect() }
// R-ext (A5): `m.into_iter().map(f).collect::<Vec<_>>()` over an owned hash map: ASSUMED to call f once on every (key, value) entry; f stays in place
#[verifier::external_body]
pub fn vmap_entries_map_collect<K: Eq + Hash, V, O, F: FnMut((K, V)) -> O>(m: HashMap<K, V>, f: F) -> (r: Vec<O>)
    requires forall|k: K| #[trigger] m@.contains_key(k) ==> call_requires(f, ((k, m@[k]),)),
    ensures r@.len() == m@.len(),
        forall|i: int| 0 <= i < r@.len() ==> exists|k: K| m@.contains_key(k) && call_ensures(f, ((k, m@[k]),), #[trigger] r@[i]),
{ m.into_iter().map(f).collect() }
#[verifier::external_body]
pub fn vclone_map<K: Clone + Eq + Hash, V: Clone>(m: &HashMap<K, V>) -> (r: HashMap<K, V>)
    ensures r@ == m@,
{ m.clone() }
// R-ext (A5): `s.iter().map(f).sorted().chunk_by_count().collect::<HashMap<usize, usize>>()` (itertools + the crate's IteratorExt): ASSUMED to call f on
// every element of the set; f stays in place and is verified (its lookup included). `m.iter().map(|(k, val)| k * val).sum()`: ASSUMED not to overflow
// (the sum is the number of ordered neighbour pairs that are adjacent, at most n^2)
#[verifier::external_body]
pub fn vset_map_sorted_chunks<T: Eq + Hash, F: FnMut(&T) -> usize>(s: &HashSet<T>, f: F) -> (r: HashMap<usize, usize>)
    requires forall|w: T| s@.contains(w) ==> call_requires(f, (&w,)),
{ unimplemented!() /* itertools sorted + chunk_by in the repository */ }
#[verifier::external_body]
pub fn vsum_products(m: &HashMap<usize, usize>) -> (r: usize)
{ m.iter().map(|(k, val)| k * val).sum() }

// a key of map_of_pairs carries the value of one of the pairs with that key
pub proof fn lemma_map_of_pairs_value_of_some_pair<K, V>(pairs: Seq<(K, V)>, k: K)
    requires map_of_pairs(pairs).contains_key(k),
    ensures exists|i: int| 0 <= i < pairs.len() && (#[trigger] pairs[i]).0 == k && map_of_pairs(pairs)[k] == pairs[i].1,
    decreases pairs.len()
{
    if pairs.len() > 0 {
        if pairs.last().0 == k {
            assert(pairs[pairs.len() - 1].0 == k);
        } else {
            lemma_map_of_pairs_value_of_some_pair(pairs.drop_last(), k);
            let i = choose|i: int| 0 <= i < pairs.drop_last().len() && (#[trigger] pairs.drop_last()[i]).0 == k && map_of_pairs(pairs.drop_last())[k] == pairs.drop_last()[i].1;
            assert(pairs[i] == pairs.drop_last()[i]);
        }
    }
}

impl<T, A> Graph<T, A>
where
    T: Eq + Clone + PartialOrd + Ord + Hash + Send + Sync + Display,
    A: Clone,
{
//@ extract fn src/graph/query.rs get_all_node_names ty=Graph nobody
//@ head
    #[verifier::external_body]
//@ rewrite
-> Vec<&T>
//@ with
-> (r: Vec<&T>)
//@ spec
    ensures
        r@.len() == self.n(),
        forall|i: int| 0 <= i < r@.len() ==> *(#[trigger] r@[i]) == self.nodes_vec@[i].name,
//@ end
}

//@ extract struct src/algorithms/cluster/undirected.rs TrianglesAndDegrees
//@ end

//@ extract fn src/algorithms/cluster/utility.rs get_neighbors_of_nodes props=C20
//@ rewrite
-> HashMap<T, HashSet<T>>
//@ with
-> (r: HashMap<T, HashSet<T>>)
//@ rewrite
node_names.unwrap().is_empty()
//@ with
node_names.unwrap().len() == 0
//@ rewrite
graph.get_all_node_names().into_iter().cloned().collect(),
//@ with
vcloned_collect(graph.get_all_node_names()),
//@ rewrite
node_names.unwrap().to_vec(),
//@ with
vslice_to_vec(node_names.unwrap()),
//@ rewrite
all_node_names
        .into_iter()
        .map(|n| {
//@ with
let ghost nv = all_node_names@;
    proof {
        assert forall|i: int| 0 <= i < nv.len() implies graph.knows(#[trigger] nv[i]) by {
            if node_names is None || node_names.unwrap()@.len() == 0 { assert(graph.nodes_vec@[i].name == nv[i]); }
        }
    }
    let entry_fn = |n: T| -> (o: (T, HashSet<T>))
        requires graph.wf_nodes(), graph.wf_rows(), !graph.specs.directed, graph.knows(n),
        ensures o.0 == n, step_names(*graph, n, o.1@),
    {
//@ rewrite
let hs = graph
                .get_neighbor_nodes(n.clone())
                .unwrap()
                .into_iter()
                .map(|nn|
//@ with
let ghost a = n;
            let nbrs = graph.get_neighbor_nodes(n.clone()).unwrap();
            let ghost lv = nbrs@;
            let name_fn = |nn: &Arc<Node<T, A>>| -> (o: T) ensures o == nn.name {
//@ rewrite
)
                .collect();
            (n, hs)
        })
        .collect()
//@ with
 };
            let hs: HashSet<T> = vmap_collect_set(nbrs, name_fn);
            proof {
                let outs = choose|outs: Seq<T>| #[trigger] map_set_rel(lv, outs, hs@, name_fn);
                assert(map_set_rel(lv, outs, hs@, name_fn));
                assert forall|x: T| hs@.contains(x) <==> #[trigger] steps_to(*graph, a, x) by {
                    if hs@.contains(x) {
                        assert(outs.contains(x));
                        let k = choose|k: int| 0 <= k < outs.len() && outs[k] == x;
                        assert(call_ensures(name_fn, (lv[k],), outs[k]));
                        assert(lv[k].name == x);
                    }
                    if steps_to(*graph, a, x) {
                        let k = choose|k: int| 0 <= k < lv.len() && (#[trigger] lv[k]).name == x;
                        assert(call_ensures(name_fn, (lv[k],), outs[k]));
                        assert(outs[k] == x);
                        assert(outs.contains(x));
                    }
                }
            }
            (n, hs)
        };
    let out = vinto_map_collect_map(all_node_names, entry_fn);
    proof {
        let pairs = choose|pairs: Seq<(T, HashSet<T>)>| pairs.len() == nv.len() && (forall|i: int| 0 <= i < nv.len() ==> call_ensures(entry_fn, (nv[i],), #[trigger] pairs[i]))
            && out@ == map_of_pairs(pairs);
        assert forall|k: T| #[trigger] out@.contains_key(k) <==> wanted(*graph, node_names, k) by {
            lemma_map_of_pairs_keys(pairs, k);
            if out@.contains_key(k) {
                let i = choose|i: int| 0 <= i < pairs.len() && (#[trigger] pairs[i]).0 == k;
                assert(call_ensures(entry_fn, (nv[i],), pairs[i]));
                assert(nv[i] == k);
                if node_names is None || node_names.unwrap()@.len() == 0 { assert(graph.nodes_vec@[i].name == k); }
            }
            if wanted(*graph, node_names, k) {
                if node_names is None || node_names.unwrap()@.len() == 0 {
                    let i = graph.nodes_map@[k] as int;
                    assert(nv[i] == k);
                    assert(call_ensures(entry_fn, (nv[i],), pairs[i]));
                    assert(pairs[i].0 == k);
                } else {
                    let i = choose|i: int| 0 <= i < nv.len() && nv[i] == k;
                    assert(call_ensures(entry_fn, (nv[i],), pairs[i]));
                    assert(pairs[i].0 == k);
                }
            }
        }
        assert forall|k: T| #[trigger] out@.contains_key(k) implies graph.knows(k) && step_names(*graph, k, out@[k]@) by {
            lemma_map_of_pairs_value_of_some_pair(pairs, k);
            let i = choose|i: int| 0 <= i < pairs.len() && (#[trigger] pairs[i]).0 == k && map_of_pairs(pairs)[k] == pairs[i].1;
            assert(call_ensures(entry_fn, (nv[i],), pairs[i]));
        }
    }
    out
//@ spec
    requires
        graph.wf_nodes(), graph.wf_rows(), !graph.specs.directed,
        all_known(*graph, node_names),
    ensures
        // [C20.triangles.neighbor_sets_one_entry_per_wanted_node]
        neighbor_sets_of(*graph, node_names, r@),
//@ end

//@ extract fn src/algorithms/cluster/undirected.rs get_triangles_and_degrees_for_node props=C20
//@ rewrite
-> TrianglesAndDegrees<T>
//@ with
-> (r: TrianglesAndDegrees<T>)
//@ rewrite
let nbrs = &n_nbrs.without(&n);
//@ with
let nbrs = &vset_without(&n_nbrs, &n);
//@ rewrite
nbrs
        .iter()
        .map(|w| {
//@ with
vset_map_sorted_chunks(nbrs, |w: &T| -> (o: usize) requires neighbors_map@.contains_key(*w), key_model_ok::<T>() {
//@ rewrite
let w_nbrs = neighbors_map.get(w).unwrap().without(w);
//@ with
let w_nbrs = vset_without(neighbors_map.get(w).unwrap(), w);
//@ rewrite
w_nbrs.intersection(nbrs).collect::<HashSet<&T>>().len()
//@ with
vcommon_len(&w_nbrs, nbrs)
//@ rewrite
})
        .sorted()
        .chunk_by_count()
        .collect();
//@ with
});
//@ rewrite
generalized_degree.iter().map(|(k, val)| k * val).sum();
//@ with
vsum_products(&generalized_degree);
//@ spec
    requires
        key_model_ok::<T>(),
        // every neighbour of n (other than n itself) has an entry: the obligation of `neighbors_map.get(w).unwrap()`
        forall|w: T| n_nbrs@.contains(w) && w != n ==> neighbors_map@.contains_key(w),
    ensures
        // [C20.triangles.record_is_for_the_node_degree_counts_the_other_neighbours]
        r.node_name == n,
        r.degree == n_nbrs@.remove(n).len(),
//@ end

//@ extract fn src/algorithms/cluster/undirected.rs get_triangles_and_degrees props=C20
//@ rewrite
) -> Vec<TrianglesAndDegrees<T>>
//@ with
) -> (r: Vec<TrianglesAndDegrees<T>>)
//@ rewrite
get_neighbors_of_nodes(node_names, graph)
        .into_iter()
        .map(|(v, v_nbrs)|
//@ with
vmap_entries_map_collect(get_neighbors_of_nodes(node_names, graph), |kv: (T, HashSet<T>)| -> (o: TrianglesAndDegrees<T>)
        requires graph.wf_nodes(), graph.knows(kv.0), step_names(*graph, kv.0, kv.1@), forall|w: T| graph.knows(w) ==> neighbors_map@.contains_key(w),
        ensures o.node_name == kv.0,
        { let (v, v_nbrs) = kv;
          proof { assert forall|w: T| v_nbrs@.contains(w) implies graph.knows(w) by { assert(steps_to(*graph, v, w)); } }
//@ rewrite
)
        .collect()
//@ with
 })
//@ spec
    requires
        graph.wf_nodes(), graph.wf_rows(), !graph.specs.directed,
        all_known(*graph, node_names),
    ensures
        // [C20.triangles.one_record_per_wanted_node]
        forall|i: int| 0 <= i < r@.len() ==> wanted(*graph, node_names, (#[trigger] r@[i]).node_name),
//@ end

//@ extract fn src/algorithms/cluster/mod.rs triangles props=C20
//@ rewrite
) -> Result<HashMap<T, usize>, Error>
//@ with
) -> (r: Result<HashMap<T, usize>, Error>)
//@ rewrite
Ok(tads
        .into_iter()
        .map(|item|
//@ with
Ok(vinto_map_collect_map(tads, |item: TrianglesAndDegrees<T>| -> (o: (T, usize)) {
//@ rewrite
)
        .collect())
//@ with
 }))
//@ spec
    requires
        graph.wf_nodes(), graph.wf_rows(),
        all_known(*graph, node_names),
    ensures
        // [C20.triangles.error_channel]
        graph.specs.directed ==> is_err_kind(r, ErrorKind::WrongMethod),
        !graph.specs.directed ==> r.is_ok(),
//@ end

//@ extract fn src/algorithms/cluster/mod.rs generalized_degree props=C20
//@ rewrite
) -> Result<HashMap<T, HashMap<usize, usize>>, Error>
//@ with
) -> (r: Result<HashMap<T, HashMap<usize, usize>>, Error>)
//@ rewrite
Ok(tads
        .into_iter()
        .map(|item|
//@ with
Ok(vinto_map_collect_map(tads, |item: TrianglesAndDegrees<T>| -> (o: (T, HashMap<usize, usize>)) {
//@ rewrite
)
        .collect())
//@ with
 }))
//@ spec
    requires
        graph.wf_nodes(), graph.wf_rows(),
        all_known(*graph, node_names),
    ensures
        // [C20.generalized_degree.error_channel]
        graph.specs.directed ==> is_err_kind(r, ErrorKind::WrongMethod),
        !graph.specs.directed ==> r.is_ok(),
//@ end
} // verus!
fn main() {}
