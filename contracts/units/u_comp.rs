//@ unit u_comp
//@ depends u_graph u_bfs u_wbfs
// C10: connected_components / weakly_connected_components / number_of_connected_components / node_connected_component over the
// verified searches: WrongMethod guards, coverage, every set the (weakly) reachable set of a node, sets pairwise disjoint.
// breadth_first_search / plain_bfs are verified in u_bfs / u_wbfs and enter here with those contracts (include-assumed).
#![allow(unused_imports)]
use vstd::prelude::*;
use vstd::std_specs::cmp::*;
use vstd::std_specs::hash::EntrySpecFns;
use std::collections::{HashMap, HashSet};
use std::sync::Arc;
use std::hash::Hash;
use std::fmt::Display;
verus! {
//@ include float.rs
//@ include std_axioms.rs
broadcast use {f64ax::group_f64_axioms, dispax::axiom_display_total, cloneax::axiom_clone_eq};
//@ include types.rs
//@ include graph_spec.rs
//@ include-assumed adjvec.rs u_graph
//@ include-assumed graph_fns.rs u_graph
//@ include-assumed bfs_fns.rs u_bfs
//@ include-assumed wbfs_fns.rs u_wbfs

// ---- A5: assumed contracts on unverified graphrs functions (iterator / hash-set pipelines) ----
impl<T, A> Graph<T, A>
where
    T: Eq + Clone + PartialOrd + Ord + Hash + Send + Sync + Display,
    A: Clone,
{
//@ extract fn src/graph/query.rs get_all_node_names ty=Graph nobody
//@ head
    #[verifier::external_body]
//@ rewrite
-> Vec<&T>
//@ with
-> (r: Vec<&T>)
//@ spec
    ensures
        r@.len() == self.n(),
        forall|i: int| 0 <= i < r@.len() ==> *(#[trigger] r@[i]) == self.nodes_vec@[i].name,
//@ end

}


// R-ext: `vec.to_hashset()` (extension trait crate::ext::vec::VecExt) and `a.union(&b).cloned().collect()`
#[verifier::external_body]
pub fn vto_hashset<T: Clone + Eq + Hash>(v: Vec<T>) -> (r: HashSet<T>)
    ensures forall|x: T| r@.contains(x) <==> v@.contains(x),
{ v.iter().cloned().collect() }
#[verifier::external_body]
pub fn vset_union<T: Clone + Eq + Hash>(a: &HashSet<T>, b: &HashSet<T>) -> (r: HashSet<T>)
    ensures forall|x: T| r@.contains(x) <==> (a@.contains(x) || b@.contains(x)),
{ a.union(b).cloned().collect() }

pub open spec fn covered<T>(sets: Seq<HashSet<T>>, x: T) -> bool {
    exists|c: int| 0 <= c < sets.len() && #[trigger] sets[c]@.contains(x)
}

//@ extract fn src/algorithms/components/connectivity.rs connected_components props=C10,C20
//@ rewrite
-> Result<Vec<HashSet<T>>, Error>
//@ with
-> (r: Result<Vec<HashSet<T>>, Error>)
//@ rewrite
    let mut seen = HashSet::new();
//@ with
    let mut seen: HashSet<T> = HashSet::new();
//@ rewrite
    let mut return_vec = vec![];
//@ with
    let mut return_vec: Vec<HashSet<T>> = vec![];
//@ rewrite
for v in graph.get_all_node_names()
//@ with
for v in it: graph.get_all_node_names()
//@ rewrite
let bfs = graph.breadth_first_search(&v).to_hashset();
//@ with
let bfs_list = graph.breadth_first_search(&v);
            let ghost ov = bfs_list@;
            let bfs = vto_hashset(bfs_list);
//@ rewrite
seen.union(&bfs).cloned().collect()
//@ with
vset_union(&seen, &bfs)
//@ spec
    requires
        graph.wf_nodes(), graph.wf_rows(), graph.wf_index_members(),
        // on an undirected graph with mirrored traversal rows steps are symmetric (u_trav: lemma_steps_symmetric)
        !graph.specs.directed ==> steps_symmetric(*graph),
    ensures
        // [C10.cc.wrong_method_on_directed]
        graph.specs.directed ==> is_err_kind(r, ErrorKind::WrongMethod),
        !graph.specs.directed ==> r.is_ok(),
        // [C10.cc.every_node_in_some_set]
        r.is_ok() ==> forall|i: int| 0 <= i < graph.n() ==> covered(r.unwrap()@, #[trigger] graph.nodes_vec@[i].name),
        // [C10.cc.each_set_is_the_reachable_set_of_a_node]
        r.is_ok() ==> forall|k: int| 0 <= k < r.unwrap()@.len() ==> is_reach_set(*graph, #[trigger] r.unwrap()@[k]@),
        // [C10.cc.sets_are_pairwise_disjoint]
        r.is_ok() ==> forall|j: int, k: int, x: T| 0 <= j < k < r.unwrap()@.len() && #[trigger] r.unwrap()@[j]@.contains(x) && #[trigger] r.unwrap()@[k]@.contains(x) ==> false,
//@ loop 1
        invariant
            graph.wf_nodes(), graph.wf_rows(), graph.wf_index_members(),
            forall|x: T| seen@.contains(x) <==> covered(return_vec@, x),
            !graph.specs.directed && steps_symmetric(*graph),
            forall|k: int| 0 <= k < return_vec@.len() ==> is_reach_set(*graph, #[trigger] return_vec@[k]@),
            forall|j: int, k: int, x: T| 0 <= j < k < return_vec@.len() && #[trigger] return_vec@[j]@.contains(x) && #[trigger] return_vec@[k]@.contains(x) ==> false,
            forall|j: int| 0 <= j < it.index@ ==> covered(return_vec@, #[trigger] graph.nodes_vec@[j].name),
//@ before seen = seen.union(&bfs).cloned().collect();
            let ghost seen_before = seen@;
//@ before return_vec.push(bfs);
            let ghost rv0 = return_vec@;
            let ghost bfs_view = bfs@;
//@ after return_vec.push(bfs);
            proof {
                assert(return_vec@[rv0.len() as int]@ == bfs_view);
                assert forall|x: T| covered(rv0, x) implies covered(return_vec@, x) by {
                    let c = choose|c: int| 0 <= c < rv0.len() && #[trigger] rv0[c]@.contains(x);
                    assert(return_vec@[c] == rv0[c]);
                }
                assert forall|x: T| bfs_view.contains(x) implies covered(return_vec@, x) by {
                    assert(return_vec@[rv0.len() as int]@.contains(x));
                }
                assert forall|x: T| seen@.contains(x) <==> covered(return_vec@, x) by {
                    if seen@.contains(x) && !bfs_view.contains(x) {
                        assert(seen_before.contains(x));
                        assert(covered(rv0, x));
                    }
                    if covered(return_vec@, x) {
                        let c = choose|c: int| 0 <= c < return_vec@.len() && #[trigger] return_vec@[c]@.contains(x);
                        if c < rv0.len() { assert(return_vec@[c] == rv0[c]); assert(covered(rv0, x)); }
                    }
                }
                // the new set is the reachable set of v ...
                assert(reach_set_of(*graph, *v, ov, bfs_view));
                assert forall|k: int| 0 <= k < return_vec@.len() implies is_reach_set(*graph, #[trigger] return_vec@[k]@) by {
                    if k < rv0.len() { assert(return_vec@[k] == rv0[k]); assert(is_reach_set(*graph, rv0[k]@)); }
                }
                // ... and meets no earlier set: an earlier set is closed under steps, so it would contain v, which was not seen
                assert forall|j: int, k: int, x: T| 0 <= j < k < return_vec@.len() && #[trigger] return_vec@[j]@.contains(x) && #[trigger] return_vec@[k]@.contains(x) implies false by {
                    if k == rv0.len() {
                        assert(return_vec@[j] == rv0[j]);
                        assert(is_reach_set(*graph, rv0[j]@));
                        let (st, oj) = choose|st: T, oj: Seq<T>| #[trigger] reach_set_of(*graph, st, oj, rv0[j]@);
                        assert(closed_under_steps(*graph, rv0[j]@)) by {
                            assert forall|a: T, y: T| rv0[j]@.contains(a) && #[trigger] steps_to(*graph, a, y) implies rv0[j]@.contains(y) by {
                                assert(oj.contains(a));
                                assert(oj.contains(y));
                            }
                        }
                        assert(ov.contains(x));
                        let i = choose|i: int| 0 <= i < ov.len() && ov[i] == x;
                        lemma_reaches_back(*graph, *v, ov, i, rv0[j]@);
                        assert(covered(rv0, *v));
                        assert(seen_before.contains(*v));
                    } else {
                        assert(return_vec@[j] == rv0[j] && return_vec@[k] == rv0[k]);
                    }
                }
            }
//@ end

//@ extract fn src/algorithms/components/weak_connectivity.rs weakly_connected_components props=C10,C20
//@ rewrite
-> Result<Vec<HashSet<T>>, Error>
//@ with
-> (r: Result<Vec<HashSet<T>>, Error>)
//@ rewrite
    let mut seen = HashSet::new();
//@ with
    let mut seen: HashSet<T> = HashSet::new();
//@ rewrite
    let mut components = vec![];
//@ with
    let mut components: Vec<HashSet<T>> = vec![];
//@ rewrite
for v in graph.get_all_node_names()
//@ with
for v in it: graph.get_all_node_names()
//@ rewrite
let bfs = plain_bfs(graph, v).to_hashset();
//@ with
let bfs_list = plain_bfs(graph, v);
            let ghost ov = bfs_list@;
            let bfs = vto_hashset(bfs_list);
//@ rewrite
seen.union(&bfs).cloned().collect()
//@ with
vset_union(&seen, &bfs)
//@ spec
    requires
        graph.wf_nodes(),
        // on a directed graph whose name-keyed adjacency maps are coherent, weak steps are symmetric (u_coh: lemma_wsteps_symmetric)
        graph.specs.directed ==> wsteps_symmetric(*graph),
        // weak steps lead to node names (u_coh: lemma_wsteps_known): bounds plain_bfs
        wsteps_known(*graph),
    ensures
        // [C10.wcc.wrong_method_on_undirected]
        !graph.specs.directed ==> is_err_kind(r, ErrorKind::WrongMethod),
        graph.specs.directed ==> r.is_ok(),
        // [C10.wcc.every_node_in_some_set]
        r.is_ok() ==> forall|i: int| 0 <= i < graph.n() ==> covered(r.unwrap()@, #[trigger] graph.nodes_vec@[i].name),
        // [C10.wcc.each_set_is_the_weakly_reachable_set_of_a_node]
        r.is_ok() ==> forall|k: int| 0 <= k < r.unwrap()@.len() ==> is_w_reach_set(*graph, #[trigger] r.unwrap()@[k]@),
        // [C10.wcc.sets_are_pairwise_disjoint]
        r.is_ok() ==> forall|j: int, k: int, x: T| 0 <= j < k < r.unwrap()@.len() && #[trigger] r.unwrap()@[j]@.contains(x) && #[trigger] r.unwrap()@[k]@.contains(x) ==> false,
//@ loop 1
        invariant
            graph.wf_nodes(),
            forall|x: T| seen@.contains(x) <==> covered(components@, x),
            graph.specs.directed && wsteps_symmetric(*graph), wsteps_known(*graph),
            forall|k: int| 0 <= k < components@.len() ==> is_w_reach_set(*graph, #[trigger] components@[k]@),
            forall|j: int, k: int, x: T| 0 <= j < k < components@.len() && #[trigger] components@[j]@.contains(x) && #[trigger] components@[k]@.contains(x) ==> false,
            forall|j: int| 0 <= j < it.index@ ==> covered(components@, #[trigger] graph.nodes_vec@[j].name),
//@ before seen = seen.union(&bfs).cloned().collect();
            let ghost seen_before = seen@;
//@ before components.push(bfs);
            let ghost rv0 = components@;
            let ghost bfs_view = bfs@;
//@ after components.push(bfs);
            proof {
                assert(components@[rv0.len() as int]@ == bfs_view);
                assert forall|x: T| covered(rv0, x) implies covered(components@, x) by {
                    let c = choose|c: int| 0 <= c < rv0.len() && #[trigger] rv0[c]@.contains(x);
                    assert(components@[c] == rv0[c]);
                }
                assert forall|x: T| bfs_view.contains(x) implies covered(components@, x) by {
                    assert(components@[rv0.len() as int]@.contains(x));
                }
                assert forall|x: T| seen@.contains(x) <==> covered(components@, x) by {
                    if seen@.contains(x) && !bfs_view.contains(x) {
                        assert(seen_before.contains(x));
                        assert(covered(rv0, x));
                    }
                    if covered(components@, x) {
                        let c = choose|c: int| 0 <= c < components@.len() && #[trigger] components@[c]@.contains(x);
                        if c < rv0.len() { assert(components@[c] == rv0[c]); assert(covered(rv0, x)); }
                    }
                }
                assert(w_reach_set_of(*graph, *v, ov, bfs_view));
                assert forall|k: int| 0 <= k < components@.len() implies is_w_reach_set(*graph, #[trigger] components@[k]@) by {
                    if k < rv0.len() { assert(components@[k] == rv0[k]); assert(is_w_reach_set(*graph, rv0[k]@)); }
                }
                assert forall|j: int, k: int, x: T| 0 <= j < k < components@.len() && #[trigger] components@[j]@.contains(x) && #[trigger] components@[k]@.contains(x) implies false by {
                    if k == rv0.len() {
                        assert(components@[j] == rv0[j]);
                        assert(is_w_reach_set(*graph, rv0[j]@));
                        let (st, oj) = choose|st: T, oj: Seq<T>| #[trigger] w_reach_set_of(*graph, st, oj, rv0[j]@);
                        assert(wclosed(*graph, rv0[j]@)) by {
                            assert forall|a: T, y: T| rv0[j]@.contains(a) && #[trigger] wsteps(*graph, a, y) implies rv0[j]@.contains(y) by {
                                assert(oj.contains(a));
                                assert(oj.contains(y));
                            }
                        }
                        assert(ov.contains(x));
                        let i = choose|i: int| 0 <= i < ov.len() && ov[i] == x;
                        lemma_w_reaches_back(*graph, *v, ov, i, rv0[j]@);
                        assert(covered(rv0, *v));
                        assert(seen_before.contains(*v));
                    } else {
                        assert(components@[j] == rv0[j] && components@[k] == rv0[k]);
                    }
                }
            }
//@ end

//@ extract fn src/algorithms/components/connectivity.rs number_of_connected_components props=C10,C20
//@ rewrite
-> Result<usize, Error>
//@ with
-> (r: Result<usize, Error>)
//@ spec
    requires
        graph.wf_nodes(), graph.wf_rows(), graph.wf_index_members(),
        !graph.specs.directed ==> steps_symmetric(*graph),
    ensures
        // [C10.ncc.wrong_method_on_directed]
        graph.specs.directed ==> is_err_kind(r, ErrorKind::WrongMethod),
        !graph.specs.directed ==> r.is_ok(),
//@ end

//@ extract fn src/algorithms/components/connectivity.rs node_connected_component props=C10,C20
//@ rewrite
) -> Result<HashSet<T>, Error>
//@ with
) -> (r: Result<HashSet<T>, Error>)
//@ rewrite
Ok(bfs.to_hashset())
//@ with
let ghost ov = bfs@;
    let out = vto_hashset(bfs);
    proof { assert(reach_set_of(*graph, *node_name, ov, out@)); }
    let res: Result<HashSet<T>, Error> = Ok(out);
    proof { assert(res.unwrap()@ == out@); }
    res
//@ spec
    requires
        graph.wf_nodes(), graph.wf_rows(), graph.wf_index_members(),
        graph.knows(*node_name),
    ensures
        // [C10.node_cc.guard_and_contains_the_node]
        graph.specs.directed ==> is_err_kind(r, ErrorKind::WrongMethod),
        !graph.specs.directed ==> r.is_ok() && r.unwrap()@.contains(*node_name),
        // [C10.node_cc.is_the_reachable_set_of_the_node]
        !graph.specs.directed ==> exists|o: Seq<T>| #[trigger] reach_set_of(*graph, *node_name, o, r.unwrap()@),
//@ end

} // verus!
fn main() {}
