//@ unit u_bfs
//@ depends u_graph
// C10: Graph::breadth_first_search returns the start first and then every node reachable from it exactly once (reachability over the
// one-step relation that get_successors_or_neighbors lists, proved in u_graph).
#![allow(unused_imports)]
use vstd::prelude::*;
use vstd::std_specs::cmp::*;
use vstd::std_specs::hash::EntrySpecFns;
use vstd::std_specs::iter::IteratorSpec;
use std::collections::{HashMap, HashSet};
use std::sync::Arc;
use std::hash::Hash;
use std::fmt::Display;
verus! {
//@ include float.rs
//@ include std_axioms.rs
broadcast use {f64ax::group_f64_axioms, dispax::axiom_display_total, cloneax::axiom_clone_eq};
//@ include types.rs
//@ include graph_spec.rs
//@ include-assumed adjvec.rs u_graph
//@ include-assumed graph_fns.rs u_graph
//@ include bfs_fns.rs
} // verus!
fn main() {}
