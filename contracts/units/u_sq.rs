//@ unit u_sq
//@ depends u_graph u_bfs
// C20 for cluster::square_clustering (src/algorithms/cluster/square.rs, the usize arithmetic the property's anchors name): panic-freedom of
// gnos, get_coefficient_for_combination, get_coefficient_for_node and square_clustering on every kind of graph (the function has no error
// channel and no kind guard, so directed graphs and self-loops are valid inputs).
#![allow(unused_imports)]
use vstd::prelude::*;
use vstd::std_specs::cmp::*;
use vstd::std_specs::hash::EntrySpecFns;
use std::collections::{HashMap, HashSet};
use std::sync::Arc;
use std::hash::Hash;
use std::fmt::Display;
verus! {
// the arithmetic below is checked for 64-bit targets
global size_of usize == 8;
//@ include float.rs
//@ include std_axioms.rs
broadcast use {f64ax::group_f64_axioms, dispax::axiom_display_total, cloneax::axiom_clone_eq};
//@ include types.rs
//@ include graph_spec.rs
//@ include-assumed adjvec.rs u_graph
//@ include-assumed graph_fns.rs u_graph
//@ include-assumed bfs_fns.rs u_bfs

// the names one step away from the node named a (what gnos returns)
pub open spec fn step_names<T: Eq + PartialOrd + Send + Sync, A: Clone>(g: Graph<T, A>, a: T, s: Set<T>) -> bool {
    forall|x: T| s.contains(x) <==> #[trigger] steps_to(g, a, x)
}

// R-ext (A5): `a.intersection(&b).collect::<HashSet<&T>>().without(&&v).len()` (hash-set intersection iterator, the crate's extension trait
// HashSetExt::without on a set of references) targets a local declaration ASSUMED to return the number of common elements other than v;
// `a.intersection(&b).count()` likewise the number of common elements
#[verifier::external_body]
pub fn vcommon_except_len<T: Eq + Hash + Clone>(a: &HashSet<T>, b: &HashSet<T>, v: &T) -> (r: usize)
    ensures r == a@.intersect(b@).remove(*v).len(),
{ a.intersection(b).filter(|x| *x != v).count() }
#[verifier::external_body]
pub fn vcommon_len<T: Eq + Hash + Clone>(a: &HashSet<T>, b: &HashSet<T>) -> (r: usize)
    ensures r == a@.intersect(b@).len(),
{ a.intersection(b).count() }

// R-ext (A5): `v.into_iter().combinations(2).map(f).fold((0, 0), |acc, x| (acc.0 + x.0, acc.1 + x.1))` (itertools) targets a local
// declaration ASSUMED to call f once on every two-element combination [v[i], v[j]], i < j, and to add the results up without overflow
// (the sums are bounded by n^3 for n nodes); the closure f stays in place and is verified - its indexing and the callee's preconditions included
#[verifier::external_body]
pub fn vcomb2_map_sum2<X: Clone, F: FnMut(Vec<X>) -> (usize, usize)>(v: Vec<X>, f: F) -> (r: (usize, usize))
    requires forall|c: Vec<X>, i: int, j: int| 0 <= i < j < v@.len() && c@.len() == 2 && c@[0] == v@[i] && c@[1] == v@[j] ==> call_requires(f, (c,)),
{ unimplemented!() /* itertools::Itertools::combinations in the repository */ }

// R-ext (A5): `v.into_iter().map(f).collect::<HashMap<_, _>>()`: ASSUMED to call f on every element; f stays in place and is verified
#[verifier::external_body]
pub fn vinto_map_collect_map<X, K: Eq + Hash, V, F: FnMut(X) -> (K, V)>(v: Vec<X>, f: F) -> (r: HashMap<K, V>)
    requires forall|i: int| 0 <= i < v@.len() ==> call_requires(f, (#[trigger] v@[i],)),
{ v.into_iter().map(f).collect() }
#[verifier::external_body]
pub fn vslice_to_vec<T: Clone>(s: &[T]) -> (r: Vec<T>)
    ensures r@ == s@,
{ s.to_vec() }

pub open spec fn all_known<T: Eq + PartialOrd + Send + Sync, A: Clone>(g: Graph<T, A>, names: Option<&[T]>) -> bool {
    names is Some ==> forall|i: int| 0 <= i < names.unwrap()@.len() ==> g.knows(#[trigger] names.unwrap()@[i])
}

//@ extract fn src/algorithms/cluster/square.rs gnos props=C20
//@ rewrite
-> HashSet<T>
//@ with
-> (r: HashSet<T>)
//@ rewrite
graph
        .get_successors_or_neighbors(nn)
        .into_iter()
        .map(|n|
//@ with
let ghost a = nn;
    let nbrs = graph.get_successors_or_neighbors(nn);
    let ghost nv = nbrs@;
    let name_fn = |n: &Arc<Node<T, A>>| -> (o: T) ensures o == n.name {
//@ rewrite
)
        .collect::<HashSet<T>>()
//@ with
 };
    let out = vmap_collect_set(nbrs, name_fn);
    proof {
        let outs = choose|outs: Seq<T>| #[trigger] map_set_rel(nv, outs, out@, name_fn);
        assert(map_set_rel(nv, outs, out@, name_fn));
        assert forall|x: T| out@.contains(x) <==> #[trigger] steps_to(*graph, a, x) by {
            if out@.contains(x) {
                assert(outs.contains(x));
                let k = choose|k: int| 0 <= k < outs.len() && outs[k] == x;
                assert(call_ensures(name_fn, (nv[k],), outs[k]));
                assert(nv[k].name == x);
            }
            if steps_to(*graph, a, x) {
                let k = choose|k: int| 0 <= k < nv.len() && (#[trigger] nv[k]).name == x;
                assert(call_ensures(name_fn, (nv[k],), outs[k]));
                assert(outs[k] == x);
                assert(outs.contains(x));
            }
        }
    }
    out
//@ spec
    requires
        graph.wf_nodes(), graph.wf_rows(), graph.wf_index_members(),
        graph.knows(nn),
    ensures
        // [C20.square.gnos_is_the_one_step_name_set]
        step_names(*graph, nn, r@),
//@ end

//@ extract fn src/algorithms/cluster/square.rs get_coefficient_for_combination props=C20
//@ rewrite
-> (usize, usize)
//@ with
-> (r: (usize, usize))
//@ rewrite count=opt
u_nbrs
        .intersection(&w_nbrs)
        .collect::<HashSet<&T>>()
        .without(&&v)
        .len();
//@ with
vcommon_except_len(&u_nbrs, &w_nbrs, &v);
    // machine bound treated as given: a hash set holds fewer than 2^62 elements
    assume(u_nbrs@.len() < 0x3FFF_FFFF_FFFF_FFFF && w_nbrs@.len() < 0x3FFF_FFFF_FFFF_FFFF);
    proof {
        vstd::set_lib::lemma_len_subset(u_nbrs@.intersect(w_nbrs@).remove(v), u_nbrs@);
    }
//@ rewrite count=opt
u_nbrs.intersection(&w_nbrs).count()
//@ with
vcommon_len(&u_nbrs, &w_nbrs)
//@ spec
    requires
        graph.wf_nodes(), graph.wf_rows(), graph.wf_index_members(),
        graph.knows(u), graph.knows(w),
    ensures
        // [C20.square.combination_counts_common_names_other_than_v]
        exists|nu: Set<T>, nw: Set<T>| #[trigger] step_names(*graph, u, nu) && #[trigger] step_names(*graph, w, nw)
            && r.0 == nu.intersect(nw).remove(v).len(),
//@ end

//@ extract fn src/algorithms/cluster/square.rs get_coefficient_for_node props=C20
//@ rewrite
-> (T, f64)
//@ with
-> (r: (T, f64))
//@ rewrite
let (clustering_v, potential) = nbrs
        .into_iter()
        .combinations(2)
        .map(|c| {
//@ with
let ghost nv = nbrs@;
    let (clustering_v, potential) = vcomb2_map_sum2(nbrs, |c: Vec<&Arc<Node<T, A>>>| -> (o: (usize, usize))
            requires c@.len() == 2, graph.wf_nodes(), graph.wf_rows(), graph.wf_index_members(), graph.knows(c@[0].name), graph.knows(c@[1].name)
        {
//@ rewrite
})
        .fold((0, 0), |acc: (usize, usize), v: (usize, usize)| {
            (acc.0 + v.0, acc.1 + v.1)
        });
//@ with
});
//@ rewrite count=2
clustering_v as f64
//@ with
vcast_usize_f64(clustering_v)
//@ rewrite
potential as f64
//@ with
vcast_usize_f64(potential)
//@ spec
    requires
        graph.wf_nodes(), graph.wf_rows(), graph.wf_index_members(),
        graph.knows(v),
    ensures
        // [C20.square.node_entry_is_keyed_by_the_node]
        r.0 == v,
//@ end

//@ extract fn src/algorithms/cluster/square.rs square_clustering props=C20
//@ rewrite
-> HashMap<T, f64>
//@ with
-> (r: HashMap<T, f64>)
//@ rewrite
None => graph
            .get_all_nodes()
            .into_iter()
            .map(|n|
//@ with
None => vmap_collect(graph.get_all_nodes(), |n: &Arc<Node<T, A>>| -> (o: T) ensures o == n.name {
//@ rewrite
)
            .collect(),
        Some(names) => names.to_vec(),
//@ with
 }),
        Some(names) => vslice_to_vec(names),
//@ rewrite
ns.into_iter()
        .map(|v|
//@ with
proof {
        assert forall|i: int| 0 <= i < ns@.len() implies graph.knows(#[trigger] ns@[i]) by {
            if node_names is None { assert(graph.nodes_vec@[i].name == ns@[i]); }
        }
    }
    vinto_map_collect_map(ns, |v: T| -> (o: (T, f64))
        requires graph.wf_nodes(), graph.wf_rows(), graph.wf_index_members(), graph.knows(v) {
//@ rewrite
)
        .collect()
}
//@ with
 })
}
//@ spec
    requires
        graph.wf_nodes(), graph.wf_rows(), graph.wf_index_members(),
        // the property's "node names that exist"
        all_known(*graph, node_names),
//@ end
} // verus!
fn main() {}
