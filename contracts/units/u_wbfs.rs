//@ unit u_wbfs
//@ depends u_graph
// C10: plain_bfs (weak connectivity) lists exactly the nodes weakly reachable from its start.
#![allow(unused_imports)]
use vstd::prelude::*;
use vstd::std_specs::cmp::*;
use vstd::std_specs::hash::EntrySpecFns;
use vstd::std_specs::iter::IteratorSpec;
use std::collections::{HashMap, HashSet};
use std::sync::Arc;
use std::hash::Hash;
use std::fmt::Display;
verus! {
//@ include float.rs
//@ include std_axioms.rs
broadcast use {f64ax::group_f64_axioms, dispax::axiom_display_total, cloneax::axiom_clone_eq};
//@ include types.rs
//@ include graph_spec.rs
//@ include-assumed adjvec.rs u_graph
//@ include-assumed graph_fns.rs u_graph
//@ include wbfs_fns.rs
} // verus!
fn main() {}
