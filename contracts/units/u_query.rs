//@ unit u_query
//@ depends u_graph u_coh
// C02: the per-node edge lists (in / out) answer from the name-keyed stores exactly what the position-keyed store holds
// (exec functions verified against the coherence invariants proved in u_coh).
#![allow(unused_imports)]
use vstd::prelude::*;
use vstd::std_specs::cmp::*;
use vstd::std_specs::hash::EntrySpecFns;
use vstd::std_specs::iter::IteratorSpec;
use std::collections::{HashMap, HashSet};
use std::sync::Arc;
use std::hash::Hash;
use std::fmt::Display;
verus! {
//@ include float.rs
//@ include std_axioms.rs
broadcast use {f64ax::group_f64_axioms, dispax::axiom_display_total, cloneax::axiom_clone_eq};
//@ include types.rs
//@ include graph_spec.rs
//@ include-assumed adjvec.rs u_graph
//@ include-assumed graph_fns.rs u_graph
//@ include-assumed traversal_inv.rs u_trav
//@ include-assumed coherence_inv.rs u_coh
//@ include query_fns.rs
} // verus!
fn main() {}
