//@ unit u_gnp
//@ depends u_graph
// C16: the two geometric-skipping loops of fast_gnp_random_graph and its argument validation.
// The Graph functions they call keep their contracts but are not re-verified here (include-assumed; proved in u_graph).
#![allow(unused_imports)]
use vstd::prelude::*;
use vstd::std_specs::cmp::*;
use vstd::std_specs::hash::EntrySpecFns;
use std::collections::{HashMap, HashSet};
use std::sync::Arc;
use std::hash::Hash;
use std::fmt::Display;
verus! {
//@ include float.rs
//@ include std_axioms.rs
broadcast use {f64ax::group_f64_axioms, dispax::axiom_display_total, cloneax::axiom_clone_eq};
//@ include types.rs
//@ include graph_spec.rs
//@ include-assumed adjvec.rs u_graph
//@ include-assumed graph_fns.rs u_graph

// ---- R-ext: calls into code that cannot be linked in single-file mode, behind local declarations with ASSUMED contracts (A5) ----
// the random generator: an opaque state; nothing is assumed about the numbers it returns
#[verifier::external_body]
pub struct VRng { _opaque: u64 }
#[verifier::external_body]
pub fn vrng_gen_f64(rng: &mut VRng) -> (r: f64)
{ unimplemented!() /* rng.gen::<f64>() in the repository */ }
// natural logarithm: uninterpreted
pub uninterp spec fn f64_ln(x: f64) -> f64;
#[verifier::external_body]
pub fn vln(x: f64) -> (r: f64)
    ensures r == f64_ln(x)
{ x.ln() }
// `(lr / lp) as i32`: the quotient of two non-positive logarithms, truncated (saturating): assumed non-negative.
// (false only for edge_probability < 2^-53, where ln(1 - p) is +0.0: see DESIGN.md, not decided)
#[verifier::external_body]
pub fn vcast_skip(x: f64) -> (r: i32)
    ensures r >= 0
{ x as i32 }
pub assume_specification[ i32::saturating_add ](a: i32, b: i32) -> (r: i32)
    ensures
        a + b > i32::MAX ==> r == i32::MAX,
        a + b < i32::MIN ==> r == i32::MIN,
        i32::MIN <= a + b <= i32::MAX ==> r == a + b;
#[verifier::external_body]
pub fn get_random_number_generator(seed: Option<u64>) -> VRng
{ unimplemented!() }

// A2 for the concrete name type i32 of the generated graphs: tuple keys obey the key model
pub broadcast axiom fn axiom_i32_pair_key_model()
    ensures #[trigger] vstd::std_specs::hash::obeys_key_model::<(i32, i32)>();

// slot index of the pair (v, w), 0 <= w < v, in the lower-triangle enumeration (row v has v slots)
pub open spec fn tri_slot(v: int, w: int) -> int {
    v * (v - 1) / 2 + w
}

pub proof fn lemma_tri_step(v: int)
    ensures tri_slot(v + 1, 0) == tri_slot(v, 0) + v,
{
    assert((v + 1) * v / 2 == v * (v - 1) / 2 + v) by(nonlinear_arith);
}

// pairs pushed so far: in range, below the diagonal, slot indices strictly increasing (hence no repeated pair)
pub open spec fn undirected_pairs_ok(edges: Seq<(i32, i32)>, n: int) -> bool {
    &&& forall|k: int| 0 <= k < edges.len() ==> 0 <= (#[trigger] edges[k]).1 < edges[k].0 < n
    &&& forall|j: int, k: int| 0 <= j < k < edges.len() ==> tri_slot(edges[j].0 as int, edges[j].1 as int) < tri_slot(edges[k].0 as int, edges[k].1 as int)
}

// directed: in range, off the diagonal, strictly increasing in row-major order (hence no repeated pair)
pub open spec fn row_major_lt(a: (i32, i32), b: (i32, i32)) -> bool {
    a.0 < b.0 || (a.0 == b.0 && a.1 < b.1)
}
pub open spec fn directed_pairs_ok(edges: Seq<(i32, i32)>, n: int) -> bool {
    &&& forall|k: int| 0 <= k < edges.len() ==> 0 <= (#[trigger] edges[k]).0 < n && 0 <= edges[k].1 < n && edges[k].0 != edges[k].1
    &&& forall|j: int, k: int| 0 <= j < k < edges.len() ==> row_major_lt(edges[j], edges[k])
}

//@ extract const src/graph_specs.rs DEFAULT_GRAPH_SPECS
//@ end
impl GraphSpecs {
//@ extract fn src/graph_specs.rs directed_create_missing ty=GraphSpecs props=C16
//@ rewrite
-> GraphSpecs
//@ with
-> (r: GraphSpecs)
//@ spec
    ensures
        // [C16.specs.directed_create_missing]
        r.directed, !r.multi_edges, !r.self_loops, r.missing_node_strategy == MissingNodeStrategy::Create,
//@ end
//@ extract fn src/graph_specs.rs undirected_create_missing ty=GraphSpecs props=C16
//@ rewrite
-> GraphSpecs
//@ with
-> (r: GraphSpecs)
//@ spec
    ensures
        // [C16.specs.undirected_create_missing]
        !r.directed, !r.multi_edges, !r.self_loops, r.missing_node_strategy == MissingNodeStrategy::Create,
//@ end
//@ extract fn src/graph_specs.rs directed ty=GraphSpecs props=C16
//@ rewrite
-> GraphSpecs
//@ with
-> (r: GraphSpecs)
//@ spec
    ensures
        // [C16.specs.directed]
        r.directed, !r.multi_edges, !r.self_loops, r.missing_node_strategy == MissingNodeStrategy::Error,
        r.edge_dedupe_strategy == EdgeDedupeStrategy::Error, r.self_loops_false_strategy == SelfLoopsFalseStrategy::Error,
//@ end
//@ extract fn src/graph_specs.rs undirected ty=GraphSpecs props=C16
//@ rewrite
-> GraphSpecs
//@ with
-> (r: GraphSpecs)
//@ spec
    ensures
        // [C16.specs.undirected]
        !r.directed, !r.multi_edges, !r.self_loops, r.missing_node_strategy == MissingNodeStrategy::Error,
        r.edge_dedupe_strategy == EdgeDedupeStrategy::Error, r.self_loops_false_strategy == SelfLoopsFalseStrategy::Error,
//@ end
//@ extract fn src/graph_specs.rs multi_directed ty=GraphSpecs props=C16,C20
//@ rewrite
-> GraphSpecs
//@ with
-> (r: GraphSpecs)
//@ spec
    ensures
        // [C16.specs.multi_directed]
        r.directed, r.multi_edges, r.self_loops, r.missing_node_strategy == MissingNodeStrategy::Error,
        r.edge_dedupe_strategy == EdgeDedupeStrategy::Error, r.self_loops_false_strategy == SelfLoopsFalseStrategy::Error,
//@ end
//@ extract fn src/graph_specs.rs multi_undirected ty=GraphSpecs props=C16,C20
//@ rewrite
-> GraphSpecs
//@ with
-> (r: GraphSpecs)
//@ spec
    ensures
        // [C16.specs.multi_undirected]
        !r.directed, r.multi_edges, r.self_loops, r.missing_node_strategy == MissingNodeStrategy::Error,
        r.edge_dedupe_strategy == EdgeDedupeStrategy::Error, r.self_loops_false_strategy == SelfLoopsFalseStrategy::Error,
//@ end
}

//@ extract fn src/generators/random.rs fast_gnp_random_graph_undirected props=C16,C20
//@ rewrite
rng: &mut Box<dyn RngCore>,
//@ with
rng: &mut VRng,
//@ rewrite
-> Result<Graph<i32, ()>, Error>
//@ with
-> (r: Result<Graph<i32, ()>, Error>)
//@ rewrite
    let lp = (1.0 - edge_probability).ln();
//@ with
    let lp = vln(1.0 - edge_probability);
//@ rewrite
        let lr: f64 = (1.0_f64 - rng.gen::<f64>()).ln();
//@ with
        let lr: f64 = vln(1.0_f64 - vrng_gen_f64(rng));
//@ rewrite
(lr / lp) as i32
//@ with
vcast_skip(lr / lp)
//@ rewrite
    let mut edges = vec![];
//@ with
    let mut edges: Vec<(i32, i32)> = vec![];
//@ rewrite
    for i in 0..num_nodes
//@ with
    for i in it: 0..num_nodes
//@ spec
//@ body
    broadcast use axiom_i32_pair_key_model;
//@ loop 1
        invariant
            graph.wf_nodes(),
            graph.wf_estore(),
//@ loop 2
        invariant
            graph.wf_nodes(),
            graph.wf_estore(),
            // [C16.undirected.walk_state]
            1 <= v,
            -1 <= w,
            v < num_nodes ==> w < v,
            // [C16.undirected.in_range_no_self_loop_no_repeat]
            undirected_pairs_ok(edges@, num_nodes as int),
            edges@.len() > 0 && v < num_nodes ==> edges@[edges@.len() - 1] == (v, w),
            // [C16.undirected.walk_starts_before_first_slot]
            // until a pair has been pushed the walk sits just before slot 0, so the first skip s selects slot s: every slot can be the first one
            edges@.len() == 0 && v < num_nodes ==> tri_slot(v as int, w as int) == -1,
        decreases num_nodes - v, v - w,
//@ before while w >= v && v < num_nodes {
        // the skip moved the column forward by at least one slot (saturating at i32::MAX, never wrapping)
        assert(w > w_before);
        let ghost slot_in = tri_slot(v as int, w as int);
        let ghost v_in = v;
//@ before let lr: f64
        let ghost w_before = w;
        let ghost slot_before = tri_slot(v as int, w as int);
//@ loop 3
            invariant
                1 <= v_in <= v <= num_nodes,
                0 <= w,
                // [C16.undirected.slot_walk]
                // the inner loop only re-expresses the same slot index in (row, column) form
                tri_slot(v as int, w as int) == slot_in,
            decreases num_nodes - v,
//@ before v += 1;
            proof { lemma_tri_step(v as int); }
//@ end


//@ extract fn src/generators/random.rs fast_gnp_random_graph_directed props=C16,C20
//@ rewrite
rng: &mut Box<dyn RngCore>,
//@ with
rng: &mut VRng,
//@ rewrite
-> Result<Graph<i32, ()>, Error>
//@ with
-> (r: Result<Graph<i32, ()>, Error>)
//@ rewrite
    let lp = (1.0 - edge_probability).ln();
//@ with
    let lp = vln(1.0 - edge_probability);
//@ rewrite
        let lr: f64 = (1.0_f64 - rng.gen::<f64>()).ln();
//@ with
        let lr: f64 = vln(1.0_f64 - vrng_gen_f64(rng));
//@ rewrite
(lr / lp) as i32
//@ with
vcast_skip(lr / lp)
//@ rewrite
    let mut edges = vec![];
//@ with
    let mut edges: Vec<(i32, i32)> = vec![];
//@ rewrite
    for i in 0..num_nodes
//@ with
    for i in it: 0..num_nodes
//@ spec
//@ body
    broadcast use axiom_i32_pair_key_model;
//@ loop 1
        invariant
            graph.wf_nodes(),
            graph.wf_estore(),
//@ loop 2
        invariant
            graph.wf_nodes(),
            graph.wf_estore(),
            // [C16.directed.walk_state]
            0 <= v,
            -1 <= w,
            v < num_nodes ==> w < num_nodes,
            // [C16.directed.in_range_no_self_loop_no_repeat]
            directed_pairs_ok(edges@, num_nodes as int),
            edges@.len() > 0 && v < num_nodes ==> edges@[edges@.len() - 1] == (v, w),
            // [C16.directed.walk_starts_before_first_slot]
            edges@.len() == 0 && v < num_nodes ==> v == 0 && w == -1,
        decreases num_nodes - v, num_nodes - w,
//@ before let lr: f64
        let ghost w_before = w;
        let ghost v_before = v;
//@ before while v < num_nodes && num_nodes <= w {
        // the skip moved the column forward by at least one slot (saturating at i32::MAX, never wrapping) and off the diagonal
        assert(w > w_before && v != w);
//@ before #1 if v < num_nodes {
        proof {
            // the pair about to be pushed comes after the last pushed pair, hence after all of them
            if v < num_nodes && edges@.len() > 0 {
                let last = edges@[edges@.len() - 1];
                assert(row_major_lt(last, (v, w)));
                assert forall|j: int| 0 <= j < edges@.len() implies row_major_lt(#[trigger] edges@[j], (v, w)) by {
                    if j < edges@.len() - 1 {
                        assert(row_major_lt(edges@[j], last));
                    }
                }
            }
        }
//@ loop 3
            invariant
                0 <= v_before <= v <= num_nodes,
                0 <= w,
                // [C16.directed.row_wrap_keeps_off_diagonal]
                v != w,
                v == v_before ==> w > w_before,
            decreases num_nodes - v,
//@ end

//@ extract fn src/generators/random.rs fast_gnp_random_graph props=C16,C20
//@ rewrite
-> Result<Graph<i32, ()>, Error>
//@ with
-> (r: Result<Graph<i32, ()>, Error>)
//@ spec
    ensures
        // [C16.args.invalid_probability]
        fle(edge_probability, 0.0f64) || fle(1.0f64, edge_probability) ==> is_err_kind(r, ErrorKind::InvalidArgument),
//@ end


// ---- complete_graph: itertools' combinations(2) / permutations(2) sit behind local declarations with ASSUMED contracts (A5) ----
// every element is a pair [a, b] of distinct numbers of 0..n (a < b for combinations), no pair twice, every such pair present
pub open spec fn wanted_pair(n: i32, directed: bool, a: i32, b: i32) -> bool {
    0 <= a < n && 0 <= b < n && (if directed { a != b } else { a < b })
}
pub open spec fn pairs_complete(n: i32, directed: bool, x: Seq<Vec<i32>>) -> bool {
    &&& forall|k: int| 0 <= k < x.len() ==> (#[trigger] x[k])@.len() == 2 && 0 <= x[k]@[0] < n && 0 <= x[k]@[1] < n
            && (if directed { x[k]@[0] != x[k]@[1] } else { x[k]@[0] < x[k]@[1] })
    &&& forall|j: int, k: int| 0 <= j < k < x.len() ==> !((#[trigger] x[j])@[0] == (#[trigger] x[k])@[0] && x[j]@[1] == x[k]@[1])
    &&& forall|a: i32, b: i32| #[trigger] wanted_pair(n, directed, a, b)
            ==> exists|k: int| 0 <= k < x.len() && (#[trigger] x[k])@[0] == a && x[k]@[1] == b
}
#[verifier::external_body]
pub fn vcombinations2(n: i32) -> (r: Vec<Vec<i32>>)
    ensures pairs_complete(n, false, r@),
{ unimplemented!() /* (0..n).combinations(2).collect::<Vec<Vec<i32>>>() in the repository */ }
#[verifier::external_body]
pub fn vpermutations2(n: i32) -> (r: Vec<Vec<i32>>)
    ensures pairs_complete(n, true, r@),
{ unimplemented!() /* (0..n).permutations(2).collect::<Vec<Vec<i32>>>() in the repository */ }
pub open spec fn complete_specs(directed: bool) -> GraphSpecs {
    GraphSpecs { directed: directed, edge_dedupe_strategy: EdgeDedupeStrategy::Error, missing_node_strategy: MissingNodeStrategy::Create,
                 multi_edges: false, self_loops: false, self_loops_false_strategy: SelfLoopsFalseStrategy::Error }
}
pub open spec fn pair_edges(x: Seq<Vec<i32>>) -> Seq<Edge<i32, ()>> {
    Seq::new(x.len(), |k: int| Edge { u: x[k]@[0], v: x[k]@[1], attributes: None, weight: f64_nan() })
}
// the node names 0, 1, .., n-1 in that order (none for n <= 0)
pub open spec fn names_0_to(n: i32) -> Seq<i32> {
    Seq::new(if n > 0 { n as nat } else { 0 }, |k: int| k as i32)
}
// what complete_graph builds: new_from_nodes_and_edges(the nodes 0..n-1, one unweighted edge per pair of the complete pair list, create-missing specs)
pub open spec fn complete_outcome(n: i32, directed: bool, x: Seq<Vec<i32>>, r: Result<Graph<i32, ()>, Error>) -> bool {
    pairs_complete(n, directed, x) && nfne_rel(names_0_to(n), pair_edges(x), complete_specs(directed), r)
}
// R-ext (A5): `(0..n).map(Node::from_name).collect()` (a range mapped through a function item): ASSUMED to build the nodes named 0..n-1 in order, without attributes
#[verifier::external_body]
pub fn vnodes_0_to(n: i32) -> (r: Vec<Arc<Node<i32, ()>>>)
    ensures node_names_of(r@) =~= names_0_to(n),
{ (0..n).map(Node::from_name).collect() }

//@ extract fn src/generators/classic.rs complete_graph props=C16,C20
//@ rewrite
-> Graph<i32, ()>
//@ with
-> (r: Graph<i32, ()>)
//@ rewrite
(0..num_nodes).combinations(2).collect::<Vec<Vec<i32>>>(),
//@ with
vcombinations2(num_nodes),
//@ rewrite
(0..num_nodes).permutations(2).collect::<Vec<Vec<i32>>>(),
//@ with
vpermutations2(num_nodes),
//@ rewrite
let nodes = (0..num_nodes).map(Node::from_name).collect();
//@ with
let nodes: Vec<Arc<Node<i32, ()>>> = vnodes_0_to(num_nodes);
//@ rewrite
let edges = x
        .into_iter()
        .map(|x|
//@ with
let ghost xs = x@;
    let edges = vmap_collect(x, |x: Vec<i32>| -> (o: Arc<Edge<i32, ()>>)
        requires x@.len() == 2,
        ensures o.u == x@[0], o.v == x@[1], o.attributes.is_none(), o.weight == f64_nan(),
    {
//@ rewrite
)
        .collect::<Vec<Arc<Edge<i32, ()>>>>();
//@ with
 });
//@ spec
    requires
        // rebuilding from the pair list does not fail
        forall|x: Seq<Vec<i32>>, rr: Result<Graph<i32, ()>, Error>| #[trigger] complete_outcome(num_nodes, directed, x, rr) ==> rr.is_ok(),
    ensures
        // [C16.complete.one_edge_per_pair_of_distinct_nodes]
        exists|x: Seq<Vec<i32>>| #[trigger] complete_outcome(num_nodes, directed, x, Ok(r)),
//@ body
    broadcast use axiom_i32_pair_key_model;
//@ before Graph::new_from_nodes_and_edges(nodes, edges, specs).unwrap()
    proof {
        assert(specs == complete_specs(directed));
        assert(node_names_of(nodes@) =~= names_0_to(num_nodes));
        assert(edges_of(edges@) =~= pair_edges(xs));
        assert forall|rr: Result<Graph<i32, ()>, Error>| #[trigger] nfne_rel(node_names_of(nodes@), edges_of(edges@), specs, rr)
            implies rr.is_ok() && complete_outcome(num_nodes, directed, xs, rr) by {
            assert(complete_outcome(num_nodes, directed, xs, rr));
        }
    }
//@ end

} // verus!
fn main() {}
