//@ unit u_comm
//@ depends u_graph u_trav u_coh u_query
// C12 (the acceptance half): is_partition accepts exactly the families of pairwise disjoint sets of node names whose union is the
// node set.
#![allow(unused_imports)]
use vstd::prelude::*;
use vstd::std_specs::cmp::*;
use vstd::std_specs::hash::EntrySpecFns;
use vstd::std_specs::iter::IteratorSpec;
use std::collections::{HashMap, HashSet};
use std::sync::Arc;
use std::hash::Hash;
use std::fmt::Display;
verus! {
//@ include float.rs
//@ include std_axioms.rs
broadcast use {f64ax::group_f64_axioms, dispax::axiom_display_total, cloneax::axiom_clone_eq};
//@ include types.rs
//@ include graph_spec.rs
//@ include-assumed adjvec.rs u_graph
//@ include-assumed graph_fns.rs u_graph
//@ include-assumed traversal_inv.rs u_trav
//@ include-assumed coherence_inv.rs u_coh
//@ include-assumed query_fns.rs u_query

// the communities are sets of node names, pairwise disjoint, and every node is in one of them
pub open spec fn true_partition<T: Eq + PartialOrd + Send + Sync, A: Clone>(g: Graph<T, A>, c: Seq<HashSet<T>>) -> bool {
    &&& forall|i: int, x: T| 0 <= i < c.len() && #[trigger] c[i]@.contains(x) ==> g.knows(x)
    &&& forall|i: int, j: int, x: T| 0 <= i < j < c.len() && #[trigger] c[i]@.contains(x) && #[trigger] c[j]@.contains(x) ==> false
    &&& forall|k: T| g.knows(k) ==> exists|i: int| 0 <= i < c.len() && #[trigger] c[i]@.contains(k)
}

// names listed in the first i communities
pub open spec fn listed_upto<T>(c: Seq<HashSet<T>>, i: int, x: T) -> bool {
    exists|j: int| 0 <= j < i && j < c.len() && #[trigger] c[j]@.contains(x)
}
pub open spec fn disjoint_upto<T>(c: Seq<HashSet<T>>, i: int) -> bool {
    forall|j: int, k: int, x: T| 0 <= j < k < i && k < c.len() && #[trigger] c[j]@.contains(x) && #[trigger] c[k]@.contains(x) ==> false
}
// the node names are n different values
pub proof fn lemma_names_set_len<T: Eq + PartialOrd + Send + Sync, A: Clone>(g: Graph<T, A>)
    requires g.wf_nodes(),
    ensures
        node_names_of(g.nodes_vec@).to_set().len() == g.n(),
        forall|k: T| node_names_of(g.nodes_vec@).to_set().contains(k) <==> g.knows(k),
{
    let names = node_names_of(g.nodes_vec@);
    assert(names.no_duplicates()) by {
        assert forall|a: int, b: int| 0 <= a < names.len() && 0 <= b < names.len() && a != b implies names[a] != names[b] by {
            assert(g.nodes_map@[g.nodes_vec@[a].name] == a && g.nodes_map@[g.nodes_vec@[b].name] == b);
        }
    }
    names.unique_seq_to_set();
    assert forall|k: T| names.to_set().contains(k) <==> g.knows(k) by {
        if g.knows(k) {
            let i = g.nodes_map@[k] as int;
            assert(names[i] == k);
        }
        if names.to_set().contains(k) {
            let i = choose|i: int| 0 <= i < names.len() && names[i] == k;
            assert(g.nodes_map@.contains_key(g.nodes_vec@[i].name));
        }
    }
}

//@ extract fn src/algorithms/community/partitions.rs is_partition props=C12,C20
//@ rewrite
-> bool
//@ with
-> (r: bool)
//@ rewrite
for community in communities.iter()
//@ with
for community in itc: communities.iter()
//@ rewrite
for name in community.iter()
//@ with
for name in itn: vset_iter_t(community)
//@ spec
    requires
        graph.wf_nodes(),
    ensures
        // [C12.is_partition.accepts_exactly_the_true_partitions]
        r <==> true_partition(*graph, communities@),
//@ loop 1
        invariant
            graph.wf_nodes(),
            forall|x: T| seen@.contains(x) <==> #[trigger] listed_upto(communities@, itc.index@ as int, x),
            forall|x: T| #[trigger] seen@.contains(x) ==> graph.knows(x),
            disjoint_upto(communities@, itc.index@ as int),
//@ before for name in community.iter()
        let ghost seen0 = seen@;
        let ghost ci = itc.index@ as int;
        let ghost mut done_names: Set<T> = Set::empty();
        proof {
            assert(communities@[ci] == *community);
        }
//@ loop 2
            invariant
                graph.wf_nodes(),
                0 <= ci < communities@.len() && communities@[ci] == *community && ci == itc.index@,
                forall|x: T| seen0.contains(x) <==> #[trigger] listed_upto(communities@, ci, x),
                disjoint_upto(communities@, ci),
                forall|x: T| #[trigger] seen@.contains(x) ==> graph.knows(x),
                forall|x: T| #[trigger] seen@.contains(x) <==> (seen0.contains(x) || done_names.contains(x)),
                forall|x: T| #[trigger] done_names.contains(x) ==> community@.contains(x) && !seen0.contains(x),
                forall|x: T| #[trigger] done_names.contains(x) <==> exists|t: int| 0 <= t < itn.index@ && *#[trigger] itn.seq()[t] == x,
                forall|a: int, b: int| 0 <= a < itn.seq().len() && 0 <= b < itn.seq().len() && a != b ==> *itn.seq()[a] != *itn.seq()[b],
                forall|k: int| 0 <= k < itn.seq().len() ==> community@.contains(*#[trigger] itn.seq()[k]),
                forall|x: T| community@.contains(x) ==> exists|k: int| 0 <= k < itn.seq().len() && *#[trigger] itn.seq()[k] == x,
//@ before return false;
                proof {
                    // the name is not a node, or it was listed before: in an earlier community (it cannot repeat inside one set)
                    assert(community@.contains(*name));
                    if graph.knows(*name) {
                        assert(seen0.contains(*name)) by {
                            if !seen0.contains(*name) {
                                assert(done_names.contains(*name));
                                let t = choose|t: int| 0 <= t < itn.index@ && *#[trigger] itn.seq()[t] == *name;
                                assert(*itn.seq()[t] != *itn.seq()[itn.index@ as int]);
                            }
                        }
                        assert(listed_upto(communities@, ci, *name));
                        let j = choose|j: int| 0 <= j < ci && j < communities@.len() && #[trigger] communities@[j]@.contains(*name);
                        assert(communities@[j]@.contains(*name) && communities@[ci]@.contains(*name));
                    }
                    assert(!true_partition(*graph, communities@));
                }
//@ bodyend 2
            proof {
                // the name was inserted: it is a node and was not seen before
                let ghost d0 = done_names;
                done_names = done_names.insert(*name);
                assert forall|x: T| #[trigger] done_names.contains(x) <==> exists|t: int| 0 <= t < itn.index@ + 1 && *#[trigger] itn.seq()[t] == x by {
                    if d0.contains(x) {
                        let t = choose|t: int| 0 <= t < itn.index@ && *#[trigger] itn.seq()[t] == x;
                        assert(*itn.seq()[t] == x);
                    }
                    if x == *name { assert(*itn.seq()[itn.index@ as int] == x); }
                    if exists|t: int| 0 <= t < itn.index@ + 1 && *#[trigger] itn.seq()[t] == x {
                        let t = choose|t: int| 0 <= t < itn.index@ + 1 && *#[trigger] itn.seq()[t] == x;
                        if t < itn.index@ { assert(d0.contains(x)); }
                    }
                }
            }
//@ endloop 2
        proof {
            assert forall|x: T| community@.contains(x) implies done_names.contains(x) by {}
            // after the whole community: seen = names listed in communities 0..=ci, still pairwise disjoint
            assert forall|x: T| seen@.contains(x) <==> #[trigger] listed_upto(communities@, ci + 1, x) by {
                if seen@.contains(x) {
                    if seen0.contains(x) {
                        assert(listed_upto(communities@, ci, x));
                        let j = choose|j: int| 0 <= j < ci && j < communities@.len() && #[trigger] communities@[j]@.contains(x);
                        assert(communities@[j]@.contains(x));
                    } else {
                        assert(done_names.contains(x));
                        assert(communities@[ci]@.contains(x));
                    }
                }
                if listed_upto(communities@, ci + 1, x) {
                    let j = choose|j: int| 0 <= j < ci + 1 && j < communities@.len() && #[trigger] communities@[j]@.contains(x);
                    if j < ci { assert(listed_upto(communities@, ci, x)); } else {
                        assert(done_names.contains(x));
                    }
                }
            }
            assert(disjoint_upto(communities@, ci + 1)) by {
                assert forall|j: int, k: int, x: T| 0 <= j < k < ci + 1 && k < communities@.len() && #[trigger] communities@[j]@.contains(x) && #[trigger] communities@[k]@.contains(x) implies false by {
                    if k == ci {
                        assert(listed_upto(communities@, ci, x));
                        assert(done_names.contains(x));
                    }
                }
            }
        }
//@ endloop 1
    proof {
        let c = communities@;
        let names = node_names_of(graph.nodes_vec@).to_set();
        lemma_names_set_len(*graph);
        assert(seen@.subset_of(names));
        assert(disjoint_upto(c, c.len() as int));
        assert forall|i: int, x: T| 0 <= i < c.len() && #[trigger] c[i]@.contains(x) implies graph.knows(x) by {
            assert(listed_upto(c, c.len() as int, x));
        }
        if seen@.len() == graph.n() {
            vstd::set_lib::lemma_subset_equality(seen@, names);
            assert forall|k: T| graph.knows(k) implies exists|i: int| 0 <= i < c.len() && #[trigger] c[i]@.contains(k) by {
                assert(seen@.contains(k));
                assert(listed_upto(c, c.len() as int, k));
            }
            assert(true_partition(*graph, c));
        }
        if true_partition(*graph, c) {
            assert(names.subset_of(seen@)) by {
                assert forall|k: T| names.contains(k) implies seen@.contains(k) by {
                    assert(graph.knows(k));
                    let i = choose|i: int| 0 <= i < c.len() && #[trigger] c[i]@.contains(k);
                    assert(c[i]@.contains(k));
                    assert(listed_upto(c, c.len() as int, k));
                }
            }
            assert(seen@ =~= names);
        }
    }
//@ end

// ---- C12 / C20: modularity - the NotAPartition guard, panic-freedom of its lookups, and its value as an expression over uninterpreted f64 operators and sums ----
// R-ext (A5): float pipelines over hash maps / sets / slices as local declarations with ASSUMED contracts; closures that hold a lookup stay in place
// the float sums and the square are uninterpreted functions of their operands (A1: deterministic, nothing assumed about values)
pub uninterp spec fn map_fsum<K>(m: Map<K, f64>) -> f64;
pub uninterp spec fn set_fsum<K>(s: Set<K>, m: Map<K, f64>) -> f64;
pub uninterp spec fn seq_fsum(v: Seq<f64>) -> f64;
pub uninterp spec fn fpow2(x: f64) -> f64;
pub uninterp spec fn wsum_edges<T: PartialOrd + Send, A>(v: Seq<Edge<T, A>>) -> f64;
#[verifier::external_body]
pub fn vsum_values<K>(m: &HashMap<K, f64>) -> (r: f64)
    ensures r == map_fsum(m@),
{ m.values().sum() }
#[verifier::external_body]
pub fn vpowf2(x: f64) -> (r: f64)
    ensures r == fpow2(x),
{ x.powf(2.0) }
#[verifier::external_body]
pub fn vclone_f64_map<K: Clone + Eq + Hash>(m: &HashMap<K, f64>) -> (r: HashMap<K, f64>)
    ensures r@ == m@,
{ m.clone() }
// `set.iter().cloned().collect::<Vec<T>>()`
#[verifier::external_body]
pub fn vset_cloned_vec<T: Clone + Eq + Hash>(s: &HashSet<T>) -> (r: Vec<T>)
    ensures forall|x: T| r@.contains(x) <==> s@.contains(x),
{ s.iter().cloned().collect() }
// `set.iter().map(f).sum::<f64>()` where f yields references to numbers: ASSUMED to call f on every element; f is verified in place
#[verifier::external_body]
pub fn vsum_refs_over_set<'a, T: Eq + Hash, F: FnMut(&'a T) -> &'a f64>(s: &'a HashSet<T>, f: F) -> (r: f64)
    requires forall|x: &'a T| s@.contains(*x) ==> call_requires(f, (x,)),
    // if f looks its argument up in a map mm, the result is the sum of mm over the set
    ensures forall|mm: Map<T, f64>| (forall|x: &'a T, o: &'a f64| s@.contains(*x) && #[trigger] call_ensures(f, (x,), o) ==> mm.contains_key(*x) && *o == mm[*x]) ==> r == #[trigger] set_fsum(s@, mm),
{ s.iter().map(f).sum() }
// `slice.iter().map(f).sum::<f64>()`
#[verifier::external_body]
pub fn vsum_over_slice<X, F: FnMut(&X) -> f64>(s: &[X], f: F) -> (r: f64)
    requires forall|i: int| 0 <= i < s@.len() ==> call_requires(f, (&#[trigger] s@[i],)),
    ensures exists|outs: Seq<f64>| outs.len() == s@.len() && (forall|i: int| 0 <= i < s@.len() ==> call_ensures(f, (&s@[i],), #[trigger] outs[i])) && r == seq_fsum(outs),
{ s.iter().map(f).sum() }
#[verifier::external_body]
pub fn vsum_edge_weights<T: PartialOrd + Send, A>(v: &Vec<&Arc<Edge<T, A>>>) -> (r: f64)
    ensures r == wsum_edges(Seq::new(v@.len(), |i: int| **v@[i])),
{ v.iter().map(|e| e.weight).sum() }

// ---- what modularity computes (as an expression over uninterpreted f64 operators and sums) ----
pub open spec fn sub_out<T: Eq + PartialOrd + Send + Sync, A: Clone>(g: &Graph<T, A>, sel: Set<T>, kn: Seq<int>, ke: Seq<int>, sg: &Graph<T, A>) -> bool {
    subgraph_outcome(*g, sel, kn, ke, Ok(*sg))
}
pub open spec fn res_of(resolution: Option<f64>) -> f64 { if resolution is Some { resolution.unwrap() } else { 1.0f64 } }
// the contribution of one community: L_c / m - resolution * (out-degree sum) * (in-degree sum) * norm, where L_c is the number (or weight sum) of the
// edges of the subgraph induced by the community and the in-degree sum is the out-degree sum on an undirected graph
pub open spec fn contribution_of<T: Eq + PartialOrd + Send + Sync, A: Clone>(g: &Graph<T, A>, sel: Set<T>, weighted: bool, res: f64, m: f64, norm: f64,
        outd: Map<T, f64>, ind: Map<T, f64>, c: f64) -> bool {
    exists|sg: Graph<T, A>, kn: Seq<int>, ke: Seq<int>| #[trigger] sub_out(g, sel, kn, ke, &sg) && ({
        let l = if weighted { wsum_edges(sg.all_edges_seq()) } else { usize_to_f64(sg.all_edges_seq().len() as usize) };
        let os = set_fsum(sel, outd);
        let is = if g.specs.directed { set_fsum(sel, ind) } else { os };
        c == fsub(fdiv(l, m), fmul(fmul(fmul(res, os), is), norm))
    })
}
// the degree maps modularity reads: one entry per node carrying the (weighted) out- / in-degree when directed, the (weighted) degree for both when undirected
pub open spec fn mod_degrees<T: Eq + PartialOrd + Send + Sync, A: Clone>(g: &Graph<T, A>, weighted: bool, outd: Map<T, f64>, ind: Map<T, f64>) -> bool {
    &&& forall|k: T| #[trigger] outd.contains_key(k) <==> g.knows(k)
    &&& forall|k: T| #[trigger] ind.contains_key(k) <==> g.knows(k)
    &&& !g.specs.directed ==> ind == outd
    &&& forall|k: T| #[trigger] outd.contains_key(k) ==> (
            if g.specs.directed { if weighted { is_weighted_out_degree_of(*g, k, outd[k]) } else { exists|d: usize| #[trigger] is_out_degree_of(*g, k, d) && outd[k] == usize_to_f64(d) } }
            else { if weighted { is_weighted_degree_of(*g, k, outd[k]) } else { exists|d: usize| #[trigger] is_degree_of(*g, k, d) && outd[k] == usize_to_f64(d) } })
    &&& g.specs.directed ==> forall|k: T| #[trigger] ind.contains_key(k) ==> (
            if weighted { is_weighted_in_degree_of(*g, k, ind[k]) } else { exists|d: usize| #[trigger] is_in_degree_of(*g, k, d) && ind[k] == usize_to_f64(d) })
}
// m and the normalisation: directed m = sum of out-degrees, norm = (1 / m)^2; undirected m = degree sum / 2, norm = (1 / degree sum)^2
pub open spec fn mod_scale<T: Eq + PartialOrd + Send + Sync, A: Clone>(g: &Graph<T, A>, outd: Map<T, f64>, m: f64, norm: f64) -> bool {
    if g.specs.directed { m == map_fsum(outd) && norm == fpow2(fdiv(1.0f64, m)) }
    else { m == fdiv(map_fsum(outd), 2.0f64) && norm == fpow2(fdiv(1.0f64, map_fsum(outd))) }
}
pub open spec fn mod_parts<T: Eq + PartialOrd + Send + Sync, A: Clone>(g: &Graph<T, A>, comms: Seq<HashSet<T>>, weighted: bool, resolution: Option<f64>,
        outd: Map<T, f64>, ind: Map<T, f64>, m: f64, norm: f64, cs: Seq<f64>, r: f64) -> bool {
    &&& mod_degrees(g, weighted, outd, ind)
    &&& mod_scale(g, outd, m, norm)
    &&& cs.len() == comms.len()
    &&& forall|i: int| 0 <= i < comms.len() ==> contribution_of(g, comms[i]@, weighted, res_of(resolution), m, norm, outd, ind, #[trigger] cs[i])
    &&& r == seq_fsum(cs)
}
pub open spec fn modularity_value<T: Eq + PartialOrd + Send + Sync, A: Clone>(g: &Graph<T, A>, comms: Seq<HashSet<T>>, weighted: bool, resolution: Option<f64>, r: f64) -> bool {
    exists|outd: Map<T, f64>, ind: Map<T, f64>, m: f64, norm: f64, cs: Seq<f64>| #[trigger] mod_parts(g, comms, weighted, resolution, outd, ind, m, norm, cs, r)
}

// rebuilding the subgraph induced by one community does not fail (precondition of Graph::get_subgraph, which unwraps: C15)
pub open spec fn community_rebuilds<T: Eq + PartialOrd + Send + Sync, A: Clone>(g: &Graph<T, A>, sel: Set<T>) -> bool {
    forall|kn: Seq<int>, ke: Seq<int>, rr: Result<Graph<T, A>, Error>| #[trigger] subgraph_outcome(*g, sel, kn, ke, rr) ==> rr.is_ok()
}

//@ extract fn src/algorithms/community/partitions.rs convert_values_to_f64 nobody
//@ head
#[verifier::external_body]
//@ rewrite
-> HashMap<T, f64>
//@ with
-> (r: HashMap<T, f64>)
//@ spec
    ensures
        r@.dom() =~= hashmap@.dom(),
        forall|k: T| #[trigger] r@.contains_key(k) ==> r@[k] == usize_to_f64(hashmap@[k]),
//@ end

//@ extract fn src/algorithms/community/partitions.rs modularity props=C12,C20
//@ rewrite
) -> Result<f64, Error>
//@ with
) -> (r: Result<f64, Error>)
//@ rewrite
let m: f64 = outd.values().sum();
            let norm = (1.0 / m).powf(2.0);
//@ with
let m: f64 = vsum_values(&outd);
            let norm = vpowf2(1.0 / m);
//@ rewrite
let deg_sum: f64 = deg.values().sum();
            let m = deg_sum / 2.0;
            let norm = (1.0 / deg_sum).powf(2.0);
            (deg.clone(), deg, m, norm)
//@ with
let deg_sum: f64 = vsum_values(&deg);
            let m = deg_sum / 2.0;
            let norm = vpowf2(1.0 / deg_sum);
            (vclone_f64_map(&deg), deg, m, norm)
//@ rewrite
let community_contribution = |community: &HashSet<T>| {
        let comm_vec: Vec<T> = community.iter().cloned().collect();
//@ with
proof {
        assert(mod_degrees(graph, weighted, out_degree@, in_degree@));
        assert(mod_scale(graph, out_degree@, m, norm));
    }
    let community_contribution = |community: &HashSet<T>| -> (o: f64)
        requires
            graph.wf_nodes(), graph.wf_estore(), graph.wf_rows(),
            forall|x: T| community@.contains(x) ==> graph.knows(x),
            forall|k: T| graph.knows(k) ==> out_degree@.contains_key(k) && in_degree@.contains_key(k),
            community_rebuilds(graph, community@),
        ensures
            contribution_of(graph, community@, weighted, res_of(resolution), m, norm, out_degree@, in_degree@, o),
    {
        let comm_vec: Vec<T> = vset_cloned_vec(community);
        proof { assert(comm_vec@.to_set() =~= community@); }
//@ rewrite
true => subgraph_edges.iter().map(|e| e.weight).sum(),
            false => subgraph_edges.len() as f64,
//@ with
true => vsum_edge_weights(&subgraph_edges),
            false => vcast_usize_f64(subgraph_edges.len()),
//@ rewrite
let out_degree_sum: f64 = community.iter().map(|n| out_degree.get(n).unwrap()).sum();
//@ with
let out_degree_sum: f64 = vsum_refs_over_set(community, |n: &T| -> (o: &f64) requires out_degree@.contains_key(*n), key_model_ok::<T>() ensures out_degree@.contains_key(*n) && *o == out_degree@[*n] { out_degree.get(n).unwrap() });
        proof { assert(out_degree_sum == set_fsum(community@, out_degree@)); }
//@ rewrite
true => community.iter().map(|n| in_degree.get(n).unwrap()).sum(),
//@ with
true => vsum_refs_over_set(community, |n: &T| -> (o: &f64) requires in_degree@.contains_key(*n), key_model_ok::<T>() ensures in_degree@.contains_key(*n) && *o == in_degree@[*n] { in_degree.get(n).unwrap() }),
//@ before subgraph_edges_weight / m
        proof {
            let gr: &Graph<T, A> = graph;
            let (kn, ke) = choose|kn: Seq<int>, ke: Seq<int>| #[trigger] subgraph_outcome(*gr, comm_vec@.to_set(), kn, ke, Ok(subgraph));
            assert(subgraph_outcome(*gr, comm_vec@.to_set(), kn, ke, Ok(subgraph)));
            assert(sub_out(graph, community@, kn, ke, &subgraph));
            assert(Seq::new(subgraph_edges@.len(), |i: int| **subgraph_edges@[i]) =~= subgraph.all_edges_seq());
            if graph.specs.directed { assert(in_degree_sum == set_fsum(community@, in_degree@)); }
        }
//@ rewrite
Ok(communities.iter().map(community_contribution).sum())
//@ with
let total = vsum_over_slice(communities, community_contribution);
    proof {
        let cs = choose|outs: Seq<f64>| outs.len() == communities@.len() && (forall|i: int| 0 <= i < communities@.len() ==> call_ensures(community_contribution, (&communities@[i],), #[trigger] outs[i])) && total == seq_fsum(outs);
        assert forall|i: int| 0 <= i < communities@.len() implies contribution_of(graph, communities@[i]@, weighted, res_of(resolution), m, norm, out_degree@, in_degree@, #[trigger] cs[i]) by {
            assert(call_ensures(community_contribution, (&communities@[i],), cs[i]));
        }
        assert(mod_parts(graph, communities@, weighted, resolution, out_degree@, in_degree@, m, norm, cs, total));
    }
    Ok(total)
//@ spec
    requires
        graph.wf_nodes(), graph.wf_estore(), graph.wf_rows(),
        graph.wf_index_sets(), graph.wf_name_sets(), graph.wf_name_store(),
        name_order_total::<T>(),
        forall|c: int| 0 <= c < communities@.len() ==> community_rebuilds(graph, (#[trigger] communities@[c])@),
    ensures
        // [C12.modularity.rejects_exactly_the_non_partitions]
        !true_partition(*graph, communities@) ==> is_err_kind(r, ErrorKind::NotAPartition),
        true_partition(*graph, communities@) ==> r.is_ok(),
        // [C12.modularity.value_is_the_sum_of_the_community_contributions]
        // as an expression over uninterpreted f64 operators and sums: sum over the communities of L_c / m - resolution * out-sum * in-sum * norm
        r.is_ok() ==> modularity_value(graph, communities@, weighted, resolution, r.unwrap()),
//@ end
} // verus!
fn main() {}
