//@ unit u_trav
//@ depends u_graph
// C03, global form: the traversal rows always match the position-keyed edge store —
//   wf_traversal(g): every entry (i -> j, weight) names a stored pair and carries the fold-min of the weights stored for it,
//   every stored pair has its entry (both directions when undirected), predecessor rows mirror (directed) or stay empty.
// Pure specification-level lemmas over the contract of add_edge / add_node / new proved in u_graph (add_edge_rel etc.):
// wf_traversal holds for the empty graph and is preserved by every successful or refused add_edge and by add_node,
// hence after every history.
#![allow(unused_imports)]
use vstd::prelude::*;
use vstd::std_specs::cmp::*;
use vstd::std_specs::hash::EntrySpecFns;
use std::collections::{HashMap, HashSet};
use std::sync::Arc;
use std::hash::Hash;
use std::fmt::Display;
verus! {
//@ include float.rs
//@ include std_axioms.rs
broadcast use {f64ax::group_f64_axioms, dispax::axiom_display_total, cloneax::axiom_clone_eq};
//@ include types.rs
//@ include graph_spec.rs
//@ include-assumed adjvec.rs u_graph
//@ include traversal_inv.rs
} // verus!
fn main() {}
