//@ unit u_clus
//@ depends u_graph
// C20 for cluster::transitivity: the error channel (WrongMethod on directed graphs) and panic-freedom of the arithmetic over the
// per-node triangle / degree records (the records themselves come from get_triangles_and_degrees, ASSUMED: HashSet pipelines).
#![allow(unused_imports)]
use vstd::prelude::*;
use vstd::std_specs::cmp::*;
use vstd::std_specs::hash::EntrySpecFns;
use std::collections::{HashMap, HashSet};
use std::sync::Arc;
use std::hash::Hash;
use std::fmt::Display;
verus! {
// the arithmetic below is checked for 64-bit targets
global size_of usize == 8;
//@ include float.rs
//@ include std_axioms.rs
broadcast use {f64ax::group_f64_axioms, dispax::axiom_display_total, cloneax::axiom_clone_eq};
//@ include types.rs
//@ include graph_spec.rs
//@ include-assumed adjvec.rs u_graph
//@ include-assumed graph_fns.rs u_graph

//@ extract struct src/algorithms/cluster/undirected.rs TrianglesAndDegrees
//@ end

// A5: ASSUMED contract of get_triangles_and_degrees (HashSet intersection / without / chunk pipelines, outside the verifier's reach):
// nothing is assumed about the counts except the machine bound that a node has fewer than 2^32 neighbours
//@ extract fn src/algorithms/cluster/undirected.rs get_triangles_and_degrees nobody
//@ head
#[verifier::external_body]
//@ rewrite
) -> Vec<TrianglesAndDegrees<T>>
//@ with
) -> (r: Vec<TrianglesAndDegrees<T>>)
//@ spec
    ensures
        forall|i: int| 0 <= i < r@.len() ==> (#[trigger] r@[i]).degree <= 0xFFFF_FFFF,
//@ end

// R-ext (A5): `v.iter().map(f).sum::<usize>()` targets a local declaration ASSUMED to return the sum of f over the elements
// (and not to overflow); the closure f stays in place and is verified - its arithmetic included
#[verifier::external_body]
pub fn vsum_map_usize<X, F: FnMut(&X) -> usize>(v: &Vec<X>, f: F) -> (r: usize)
    requires forall|i: int| 0 <= i < v@.len() ==> call_requires(f, (&#[trigger] v@[i],)),
{ v.iter().map(f).sum::<usize>() }

//@ extract fn src/algorithms/cluster/mod.rs transitivity props=C20
//@ rewrite
-> Result<f64, Error>
//@ with
-> (r: Result<f64, Error>)
//@ rewrite
let triangles = tads
        .iter()
        .map(|item|
//@ with
let triangles = vcast_usize_f64(vsum_map_usize(&tads, |item: &TrianglesAndDegrees<T>| -> (o: usize) {
//@ rewrite
)
        .sum::<usize>() as f64;
    let contri = tads
        .iter()
        .map(|item|
//@ with
 }));
    let contri = vcast_usize_f64(vsum_map_usize(&tads, |item: &TrianglesAndDegrees<T>| -> (o: usize) requires item.degree <= 0xFFFF_FFFF {
        proof {
            let d = item.degree as int;
            assert(0 <= d <= 0xFFFF_FFFF ==> d * (d - 1) <= 0xFFFF_FFFF * 0xFFFF_FFFF && d * 0 == 0) by (nonlinear_arith);
        }
//@ rewrite
)
        .sum::<usize>() as f64;
    match triangles == 0.0 {
//@ with
 }));
    match triangles == 0.0 {
//@ spec
    requires
        graph.wf_nodes(),
    ensures
        // [C20.transitivity.error_channel]
        graph.specs.directed ==> is_err_kind(r, ErrorKind::WrongMethod),
        !graph.specs.directed ==> r.is_ok(),
//@ end

// A5: the four per-kind coefficient functions (HashSet pipelines over triangle records, float formulas) are ASSUMED total: clustering's own obligations
// are its dispatch and its error channel
//@ extract fn src/algorithms/cluster/mod.rs get_clustering_directed nobody
//@ head
#[verifier::external_body]
//@ end
//@ extract fn src/algorithms/cluster/mod.rs get_clustering_directed_weighted nobody
//@ head
#[verifier::external_body]
//@ end
//@ extract fn src/algorithms/cluster/mod.rs get_clustering_undirected nobody
//@ head
#[verifier::external_body]
//@ end
//@ extract fn src/algorithms/cluster/mod.rs get_clustering_undirected_weighted nobody
//@ head
#[verifier::external_body]
//@ end

pub open spec fn all_weighted<T: Eq + PartialOrd + Send + Sync, A: Clone>(g: Graph<T, A>) -> bool {
    forall|i: int| 0 <= i < g.all_edges_seq().len() ==> feq((#[trigger] g.all_edges_seq()[i]).weight, g.all_edges_seq()[i].weight)
}

//@ extract fn src/algorithms/cluster/mod.rs clustering props=C20
//@ rewrite
) -> Result<HashMap<T, f64>, Error>
//@ with
) -> (r: Result<HashMap<T, f64>, Error>)
//@ spec
    ensures
        // [C20.clustering.error_channel]
        graph.specs.multi_edges ==> is_err_kind(r, ErrorKind::WrongMethod),
        !graph.specs.multi_edges && weighted && !all_weighted(*graph) ==> is_err_kind(r, ErrorKind::EdgeWeightNotSpecified),
        !graph.specs.multi_edges && (!weighted || all_weighted(*graph)) ==> r.is_ok(),
//@ end

// R-ext (A5): `c.values().into_iter().filter(..).collect::<Vec<&f64>>()` and `vs.iter().cloned().sum::<f64>() / vs.len() as f64` (float pipeline over a hash map;
// 0.0 / 0.0 is NaN, not a panic): ASSUMED total
#[verifier::external_body]
pub fn vmean_counted<K>(c: &HashMap<K, f64>, count_zeros: bool) -> (r: f64)
{
    let vs = c.values().into_iter().filter(|v| count_zeros || v.abs() > 0.0).collect::<Vec<&f64>>();
    vs.iter().cloned().sum::<f64>() / vs.len() as f64
}
//@ extract fn src/algorithms/cluster/mod.rs average_clustering props=C20
//@ rewrite
) -> Result<f64, Error>
//@ with
) -> (r: Result<f64, Error>)
//@ rewrite
let vs = c
        .values()
        .into_iter()
        .filter(|v| count_zeros || v.abs() > 0.0)
        .collect::<Vec<&f64>>();
    Ok(vs.iter().cloned().sum::<f64>() / vs.len() as f64)
//@ with
Ok(vmean_counted(&c, count_zeros))
//@ spec
    ensures
        // [C20.average_clustering.error_channel]
        graph.specs.multi_edges ==> is_err_kind(r, ErrorKind::WrongMethod),
        !graph.specs.multi_edges && weighted && !all_weighted(*graph) ==> is_err_kind(r, ErrorKind::EdgeWeightNotSpecified),
        !graph.specs.multi_edges && (!weighted || all_weighted(*graph)) ==> r.is_ok(),
//@ end

//@ extract fn src/algorithms/cluster/utility.rs get_normalized_edge_weight props=C20
//@ rewrite
-> f64
//@ with
-> (r: f64)
//@ spec
    requires
        graph.wf_nodes(), graph.wf_estore(),
    ensures
        // [C20.normalized_edge_weight.total_on_every_pair] no lookup is unwrapped: a missing edge, a missing node and a multi-edge graph all take the 1 / max branch
        !graph.specs.multi_edges && graph.knows(*u) && graph.knows(*v) && graph.has_pair(graph.canon(graph.nodes_map@[*u], graph.nodes_map@[*v]).0, graph.canon(graph.nodes_map@[*u], graph.nodes_map@[*v]).1)
            ==> r == fdiv(graph.pair_list(graph.canon(graph.nodes_map@[*u], graph.nodes_map@[*v]).0, graph.canon(graph.nodes_map@[*u], graph.nodes_map@[*v]).1)[0].weight, *max_weight),
        graph.specs.multi_edges || !graph.knows(*u) || !graph.knows(*v) ==> r == fdiv(1.0f64, *max_weight),
//@ end
} // verus!
fn main() {}
