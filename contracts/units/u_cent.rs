//@ unit u_cent
// C05 / C06: scaling rule, rescale, dependency accumulation (betweenness.rs) and the closeness formula (closeness.rs).
#![allow(unused_imports)]
#![allow(non_snake_case)]
use vstd::prelude::*;
use vstd::std_specs::cmp::*;
use vstd::std_specs::iter::IteratorSpec;
use vstd::std_specs::hash::EntrySpecFns;
use std::collections::{HashMap, HashSet, VecDeque, BinaryHeap};
use std::sync::Arc;
use std::hash::Hash;
use std::fmt::Display;
verus! {
//@ include float.rs
//@ include std_axioms.rs
broadcast use {f64ax::group_f64_axioms};

//@ include cent_fns.rs

// ---- C06 ----
// R-ext: `shortest_paths.iter().map(|(_, sp)| sp).sum::<f64>()` (tuple-pattern closure + Iterator::sum are outside Verus):
// ASSUMED (A5) to return the fold of f64 `+` over the second components; the only fact used is that the sum of an empty list
// is not greater than 0.0 (std starts the fold from a zero: 0.0 or -0.0 depending on the toolchain)
pub uninterp spec fn fsum_snd(s: Seq<(usize, f64)>) -> f64;
pub broadcast axiom fn axiom_fsum_snd_empty(s: Seq<(usize, f64)>)
    ensures s.len() == 0 ==> !flt(0.0f64, #[trigger] fsum_snd(s));
#[verifier::external_body]
pub fn vsum_snd(v: &Vec<(usize, f64)>) -> (r: f64)
    ensures r == fsum_snd(v@)
{ v.iter().map(|(_, sp)| sp).sum::<f64>() }

//@ extract fn src/algorithms/centrality/closeness.rs get_node_centrality props=C06,C20
//@ rewrite
) -> f64
//@ with
) -> (r: f64)
//@ rewrite
shortest_paths.iter().map(|(_, sp)| sp).sum::<f64>()
//@ with
vsum_snd(shortest_paths)
//@ rewrite
(shortest_paths.len() - 1) as f64
//@ with
vcast_usize_f64(shortest_paths.len() - 1)
//@ rewrite
(num_nodes - 1) as f64
//@ with
vcast_usize_f64(num_nodes - 1)
//@ rewrite
cc *= s;
//@ with
cc = cc * s;
//@ spec
    ensures
        // [C06.centrality.formula]
        flt(0.0f64, fsum_snd(shortest_paths@)) && num_nodes > 1 ==> shortest_paths@.len() >= 1 && ({
            let s = usize_to_f64((shortest_paths@.len() - 1) as usize);
            let cc = fdiv(s, fsum_snd(shortest_paths@));
            &&& wf_improved ==> r == fmul(cc, fdiv(s, usize_to_f64((num_nodes - 1) as usize)))
            &&& !wf_improved ==> r == cc
        }),
        // [C06.centrality.zero_when_nothing_reaches]
        !(flt(0.0f64, fsum_snd(shortest_paths@)) && num_nodes > 1) ==> r == 0.0f64,
//@ body
    broadcast use axiom_fsum_snd_empty;
//@ end

} // verus!
fn main() {}
