//@ unit u_cent
// C05 / C06: scaling rule, rescale, dependency accumulation (betweenness.rs) and the closeness formula (closeness.rs).
#![allow(unused_imports)]
#![allow(non_snake_case)]
use vstd::prelude::*;
use vstd::std_specs::cmp::*;
use vstd::std_specs::iter::IteratorSpec;
use vstd::std_specs::hash::EntrySpecFns;
use std::collections::{HashMap, HashSet, VecDeque, BinaryHeap};
use std::sync::Arc;
use std::hash::Hash;
use std::fmt::Display;
verus! {
//@ include float.rs
//@ include std_axioms.rs
broadcast use {f64ax::group_f64_axioms};

//@ include cent_fns.rs

} // verus!
fn main() {}
