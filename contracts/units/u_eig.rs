//@ unit u_eig
//@ depends u_graph u_trav u_coh u_query
// C20 for centrality::eigenvector::eigenvector_centrality (the property's anchor eigenvector.rs:62): the error channel on the kind of graph it does
// not support (multi-edge: get_edge answers WrongMethod there) and panic-freedom of its lookups - `get_edge(n, nbr).unwrap()` for every listed
// neighbour, `x.get_mut(nbr).unwrap()`, `xlast.get(n).unwrap()`. The float pipelines (sum of squares, sqrt, division of all values, sum of absolute
// differences) are ASSUMED declarations (A5) over uninterpreted relations / exact per-entry effects.
// C18 (the clauses a contract over uninterpreted floats can decide): one entry per node; Ok is returned only for a vector that (a) is the per-entry
// quotient of the accumulated vector by the norm the code computes from it (sqrt of its sum of squares, 1.0 when that is 0.0), (b) passed the
// convergence test `sum |x - xlast| < n * tolerance` against the iterate it was computed from, and (c) left every entry nobody points to at its previous
// value before the division (the accumulation follows out-steps: A^T, not A); exhaustion of max_iter yields PowerIterationFailedConvergence.
#![allow(unused_imports)]
use vstd::prelude::*;
use vstd::std_specs::cmp::*;
use vstd::std_specs::hash::EntrySpecFns;
use vstd::std_specs::iter::IteratorSpec;
use std::collections::{HashMap, HashSet};
use std::sync::Arc;
use std::hash::Hash;
use std::fmt::Display;
verus! {
//@ include float.rs
//@ include std_axioms.rs
broadcast use {f64ax::group_f64_axioms, dispax::axiom_display_total, cloneax::axiom_clone_eq};
//@ include types.rs
//@ include graph_spec.rs
//@ include-assumed adjvec.rs u_graph
//@ include-assumed graph_fns.rs u_graph
//@ include-assumed traversal_inv.rs u_trav
//@ include-assumed coherence_inv.rs u_coh
//@ include-assumed query_fns.rs u_query

// R-ext (A5): hash-map iteration and float pipelines of the power iteration, as local declarations with ASSUMED contracts.
// `m.clone()`: an equal map
#[verifier::external_body]
pub fn vclone_map<K: Clone + Eq + Hash, V: Clone>(m: &HashMap<K, V>) -> (r: HashMap<K, V>)
    ensures r@ == m@,
{ m.clone() }
// `for n in m.keys()`: the keys are handed over as a vector (every element is a key of the map)
#[verifier::external_body]
pub fn vmap_keys_vec<K: Eq + Hash, V>(m: &HashMap<K, V>) -> (r: Vec<&K>)
    ensures forall|i: int| 0 <= i < r@.len() ==> m@.contains_key(*#[trigger] r@[i]),
{ m.keys().collect() }
// `*m.get_mut(k).unwrap() += v`: the entry must exist (the unwrap's obligation, stated as the precondition); no key is added or removed
#[verifier::external_body]
pub fn vmap_add_assign<K: Eq + Hash>(m: &mut HashMap<K, f64>, k: &K, v: f64)
    requires old(m)@.contains_key(*k),
    ensures final(m)@ == old(m)@.insert(*k, fadd(old(m)@[*k], v)),
{ *m.get_mut(k).unwrap() += v; }
// `m.values().map(|v| v.powf(2.0)).sum()`, `x.sqrt()`, `m.values_mut().for_each(|v| *v /= d)`: total float pipelines, no key is added or removed
// The two sums run in hash-iteration order and float addition is not associative: they are RELATIONS between the map(s) and the result, not functions.
pub uninterp spec fn sum_squares_of<K>(m: Map<K, f64>, r: f64) -> bool;
pub uninterp spec fn sum_abs_diff_of<K>(a: Map<K, f64>, b: Map<K, f64>, r: f64) -> bool;
pub uninterp spec fn fsqrt(x: f64) -> f64;
// the norm the code divides by: sqrt of the sum of squares, replaced by 1.0 when it compares equal to 0.0
pub open spec fn norm_of(s: f64) -> f64 { if feq(fsqrt(s), 0.0f64) { 1.0f64 } else { fsqrt(s) } }
// per-entry division (order-independent, exact)
pub open spec fn div_all<K>(m: Map<K, f64>, d: f64) -> Map<K, f64> { Map::new(m.dom(), |k: K| fdiv(m[k], d)) }
#[verifier::external_body]
pub fn vsum_squares<K: Eq + Hash>(m: &HashMap<K, f64>) -> (r: f64)
    ensures sum_squares_of(m@, r),
{ m.values().map(|v| v.powf(2.0)).sum() }
#[verifier::external_body]
pub fn vsqrt(x: f64) -> (r: f64)
    ensures r == fsqrt(x),
{ x.sqrt() }
#[verifier::external_body]
pub fn vmap_div_all<K: Eq + Hash>(m: &mut HashMap<K, f64>, d: f64)
    ensures final(m)@ == div_all(old(m)@, d),
{ m.values_mut().for_each(|v| *v /= d); }
// `a.iter().map(|(k, v)| (v - b.get(k).unwrap()).abs()).sum()`: every key of a must be a key of b (the unwrap's obligation, stated as the precondition)
#[verifier::external_body]
pub fn vsum_abs_diff<K: Eq + Hash>(a: &HashMap<K, f64>, b: &HashMap<K, f64>) -> (r: f64)
    requires forall|k: K| a@.contains_key(k) ==> b@.contains_key(k),
    ensures sum_abs_diff_of(a@, b@, r),
{ a.iter().map(|(k, v)| (v - b.get(k).unwrap()).abs()).sum() }

// the tolerance in force (`tolerance.unwrap_or(1.0e-6)`)
pub open spec fn tol_of(t: Option<f64>) -> f64 { match t { Some(v) => v, None => 1.0e-6f64 } }
// nobody points to k: no node has a step (successor when directed, neighbour otherwise) to k
pub open spec fn no_in_step<T: Eq + PartialOrd + Send + Sync, A: Clone>(g: Graph<T, A>, k: T) -> bool {
    forall|n: T| !#[trigger] steps_to(g, n, k)
}
// what an Ok result of the power iteration is: the normalised accumulation of a previous iterate `xl` that passed the convergence test against it
pub open spec fn converged_iterate<T: Eq + PartialOrd + Send + Sync, A: Clone>(g: Graph<T, A>, tol: f64, res: Map<T, f64>, xl: Map<T, f64>, acc: Map<T, f64>, s: f64, y: f64) -> bool {
    &&& xl.dom() =~= res.dom() && acc.dom() =~= res.dom()
    &&& forall|k: T| #[trigger] acc.contains_key(k) && no_in_step(g, k) ==> acc[k] == xl[k]
    &&& sum_squares_of(acc, s)
    &&& res == div_all(acc, norm_of(s))
    &&& sum_abs_diff_of(res, xl, y)
    &&& flt(y, fmul(usize_to_f64(g.nodes_vec@.len() as usize), tol))
}

pub open spec fn is_converged_iterate<T: Eq + PartialOrd + Send + Sync, A: Clone>(g: Graph<T, A>, tol: f64, res: Map<T, f64>) -> bool {
    exists|xl: Map<T, f64>, acc: Map<T, f64>, s: f64, y: f64| #[trigger] converged_iterate(g, tol, res, xl, acc, s, y)
}

//@ extract fn src/algorithms/centrality/eigenvector.rs eigenvector_centrality props=C20,C18
//@ rewrite
-> Result<HashMap<T, f64>, Error>
//@ with
-> (r: Result<HashMap<T, f64>, Error>)
//@ rewrite
let mut x: HashMap<T, f64> = graph
        .get_all_nodes()
        .iter()
        .map(|n|
//@ with
proof {
        if graph.specs.directed { lemma_steps_are_stored_directed(*graph); } else { lemma_steps_are_stored_undirected(*graph); }
        lemma_index_members_from_coherence(*graph);
    }
    let all_v = graph.get_all_nodes();
    let ghost av = all_v@;
    let init_fn = |n: &&Arc<Node<T, A>>| -> (o: (T, f64)) ensures o.0 == n.name {
//@ rewrite count=2
nnodes as f64
//@ with
vcast_usize_f64(nnodes)
//@ rewrite
)
        .collect();
//@ with
 };
    let mut x: HashMap<T, f64> = viter_map_collect_map(all_v, init_fn);
    proof {
        let pairs = choose|pairs: Seq<(T, f64)>| pairs.len() == av.len() && (forall|i: int| 0 <= i < av.len() ==> call_ensures(init_fn, (&av[i],), #[trigger] pairs[i]))
            && x@ == map_of_pairs(pairs);
        assert forall|i: int| 0 <= i < pairs.len() implies (#[trigger] pairs[i]).0 == graph.nodes_vec@[i].name by {
            assert(call_ensures(init_fn, (&av[i],), pairs[i]));
        }
        lemma_pairs_to_node_map(*graph, pairs);
    }
//@ rewrite
_max_iter {
//@ with
_max_iter
        invariant
            graph.wf_nodes(), graph.wf_estore(), graph.wf_rows(), graph.wf_index_members(), steps_are_stored(*graph),
            !graph.specs.multi_edges,
            nnodes == graph.nodes_vec@.len(),
            _tolerance == tol_of(tolerance),
            max_iter == Some(0u32) ==> _max_iter == 0,
            forall|k: T| #[trigger] x@.contains_key(k) <==> graph.knows(k),
    {
//@ rewrite
for n in xlast.keys() {
//@ with
let keys = vmap_keys_vec(&xlast);
        for n in it1: keys
            invariant
                graph.wf_nodes(), graph.wf_estore(), graph.wf_rows(), graph.wf_index_members(), steps_are_stored(*graph),
                !graph.specs.multi_edges,
                xlast@.dom() =~= x@.dom(),
                forall|k: T| #[trigger] x@.contains_key(k) <==> graph.knows(k),
                forall|i: int| 0 <= i < keys@.len() ==> xlast@.contains_key(*#[trigger] keys@[i]),
                forall|k: T| #[trigger] x@.contains_key(k) && no_in_step(*graph, k) ==> x@[k] == xlast@[k],
        {
//@ rewrite
for nbr in graph.get_successors_or_neighbors(n.clone()) {
//@ with
let nbrs = graph.get_successors_or_neighbors(n.clone());
            for nbr in it2: nbrs
                invariant
                    graph.wf_nodes(), graph.wf_estore(), graph.wf_rows(), graph.wf_index_members(), steps_are_stored(*graph),
                    !graph.specs.multi_edges,
                    xlast@.dom() =~= x@.dom(),
                    forall|k: T| #[trigger] x@.contains_key(k) <==> graph.knows(k),
                    graph.knows(*n),
                    one_step_list(*graph, *n, nbrs@),
                    forall|k: T| #[trigger] x@.contains_key(k) && no_in_step(*graph, k) ==> x@[k] == xlast@[k],
            {
                proof { assert(steps_to(*graph, *n, nbr.name)); }
//@ rewrite
*x.get_mut(&nbr.name).unwrap() +=
//@ with
vmap_add_assign(&mut x, &nbr.name,
//@ rewrite
.unwrap() * w;
//@ with
.unwrap() * w);
//@ rewrite
let mut norm: f64 = x.values().map(|v| v.powf(2.0)).sum();
        norm = norm.sqrt();
//@ with
let ghost acc = x@;
        let mut norm: f64 = vsum_squares(&x);
        let ghost ssq = norm;
        norm = vsqrt(norm);
//@ rewrite
x.values_mut().for_each(|v| *v /= norm);
        let y: f64 = x
            .iter()
            .map(|(k, v)| (v - xlast.get(k).unwrap()).abs())
            .sum();
//@ with
vmap_div_all(&mut x, norm);
        let y: f64 = vsum_abs_diff(&x, &xlast);
        proof {
            assert(norm == norm_of(ssq));
            if flt(y, fmul(usize_to_f64(nnodes), _tolerance)) {
                assert(converged_iterate(*graph, tol_of(tolerance), x@, xlast@, acc, ssq, y));
                assert(is_converged_iterate(*graph, tol_of(tolerance), x@));
            }
        }
//@ spec
    requires
        graph.wf_nodes(), graph.wf_estore(), graph.wf_rows(),
        graph.wf_index_sets(), graph.wf_traversal(),
    ensures
        // [C20.eigenvector.error_channel_on_multi_edge_graphs]
        graph.specs.multi_edges ==> is_err_kind(r, ErrorKind::WrongMethod),
        // [C20.eigenvector.only_documented_errors_and_one_entry_per_node]
        r.is_err() ==> is_err_kind(r, ErrorKind::WrongMethod) || is_err_kind(r, ErrorKind::PowerIterationFailedConvergence),
        // [C18.eigenvector.one_entry_per_node]
        r.is_ok() ==> forall|k: T| #[trigger] r.unwrap()@.contains_key(k) <==> graph.knows(k),
        // [C18.eigenvector.ok_only_for_a_normalised_iterate_that_passed_the_convergence_test]
        r.is_ok() ==> is_converged_iterate(*graph, tol_of(tolerance), r.unwrap()@),
        // [C18.eigenvector.exhaustion_is_reported_as_an_error]
        !graph.specs.multi_edges && max_iter == Some(0u32) ==> is_err_kind(r, ErrorKind::PowerIterationFailedConvergence),
        !graph.specs.multi_edges && r.is_err() ==> is_err_kind(r, ErrorKind::PowerIterationFailedConvergence),
//@ end
} // verus!
fn main() {}
