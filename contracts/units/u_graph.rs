//@ unit u_graph
//@ rlimit 400
#![allow(unused_imports)]
use vstd::prelude::*;
use vstd::std_specs::cmp::*;
use vstd::std_specs::hash::EntrySpecFns;
use std::collections::{HashMap, HashSet};
use std::sync::Arc;
use std::hash::Hash;
use std::fmt::Display;
verus! {
//@ include float.rs
//@ include std_axioms.rs
broadcast use {f64ax::group_f64_axioms, dispax::axiom_display_total, cloneax::axiom_clone_eq};
//@ include types.rs
//@ include graph_spec.rs
//@ include adjvec.rs

impl<T, A> Node<T, A>
where
    T: Eq + Clone + PartialOrd + Ord + Hash + Send + Sync + Display,
    A: Clone,
{
//@ extract fn src/node.rs from_name props=C01,C20 ty=Node
//@ rewrite
-> Arc<Node<T, A>>
//@ with
-> (r: Arc<Node<T, A>>)
//@ spec
    ensures
        // [C01.node.from_name]
        r.name == name,
        r.attributes.is_none(),
//@ end
}

impl<T, A> Edge<T, A>
where
    T: Eq + Clone + PartialOrd + Ord + Hash + Send + Sync + Display,
    A: Clone,
{
//@ extract fn src/edge.rs new props=C01,C20 ty=Edge
//@ rewrite
-> Arc<Edge<T, A>>
//@ with
-> (r: Arc<Edge<T, A>>)
//@ rewrite
f64::NAN
//@ with
vf64_nan()
//@ spec
    ensures
        // [C01.edge.new_fields]
        r.u == u, r.v == v, r.attributes.is_none(), r.weight == f64_nan(),
//@ end

//@ extract fn src/edge.rs with_weight props=C01,C20 ty=Edge
//@ rewrite
-> Arc<Edge<T, A>>
//@ with
-> (r: Arc<Edge<T, A>>)
//@ spec
    ensures
        // [C01.edge.with_weight_fields]
        r.u == u, r.v == v, r.attributes.is_none(), r.weight == weight,
//@ end

//@ extract fn src/edge.rs reversed props=C01,C20 ty=Edge
//@ rewrite
-> Edge<T, A>
//@ with
-> (r: Edge<T, A>)
//@ spec
    ensures
        // [C01.edge.reversed_flips]
        r.u == self.v, r.v == self.u, r.attributes == self.attributes, r.weight == self.weight,
//@ end

//@ extract fn src/edge.rs ordered props=C01,C20 ty=Edge
//@ rewrite
-> Edge<T, A>
//@ with
-> (r: Edge<T, A>)
//@ spec
    requires
        key_model_ok::<T>(),
    ensures
        // [C01.edge.ordered_canonical]
        r.attributes == self.attributes, r.weight == self.weight,
        tgt(self.u, self.v) ==> r.u == self.v && r.v == self.u,
        !tgt(self.u, self.v) ==> r.u == self.u && r.v == self.v,
//@ end
}

impl<T, A> Graph<T, A>
where
    T: Eq + Clone + PartialOrd + Ord + Hash + Send + Sync + Display,
    A: Clone,
{
//@ extract fn src/graph/creation.rs new props=C01,C20 ty=Graph
//@ rewrite
-> Graph<T, A>
//@ with
-> (g: Graph<T, A>)
//@ spec
    requires
        key_model_ok::<T>(),
    ensures
        // [C01.new.empty_wf]
        g.wf_nodes(),
        g.nodes_vec@.len() == 0,
        g.edges_map@.len() == 0,
        g.specs == specs,
//@ end

//@ extract fn src/graph/query.rs get_node_index props=C02,C20 ty=Graph
//@ rewrite
-> Result<usize, Error>
//@ with
-> (r: Result<usize, Error>)
//@ spec
    requires
        self.wf_nodes(),
    ensures
        // [C02.lookup.name_to_index]
        self.nodes_map@.contains_key(*node_name) ==> r.is_ok() && r.unwrap() == self.nodes_map@[*node_name]
            && r.unwrap() < self.nodes_vec@.len() && self.nodes_vec@[r.unwrap() as int].name == *node_name,
        !self.nodes_map@.contains_key(*node_name) ==> is_err_kind(r, ErrorKind::NodeNotFound),
//@ end

//@ extract fn src/graph/query.rs get_node props=C02,C20 ty=Graph
//@ rewrite
-> Option<&Arc<Node<T, A>>>
//@ with
-> (r: Option<&Arc<Node<T, A>>>)
//@ spec
    requires
        self.wf_nodes(),
    ensures
        // [C02.lookup.get_node]
        self.nodes_map@.contains_key(name) ==> r.is_some() && **r.unwrap() == *self.nodes_vec@[self.nodes_map@[name] as int] && r.unwrap().name == name,
        !self.nodes_map@.contains_key(name) ==> r.is_none(),
//@ end

//@ extract fn src/graph/query.rs has_node props=C02,C20 ty=Graph
//@ rewrite
-> bool
//@ with
-> (r: bool)
//@ spec
    requires
        self.wf_nodes(),
    ensures
        // [C02.lookup.has_node]
        r == self.nodes_map@.contains_key(*node_name),
//@ end

//@ extract fn src/graph/query.rs has_nodes props=C02,C20 ty=Graph
//@ rewrite
-> bool
//@ with
-> (r: bool)
//@ spec
    requires
        self.wf_nodes(),
    ensures
        // [C02.lookup.has_nodes]
        r == (forall|i: int| 0 <= i < node_names@.len() ==> self.nodes_map@.contains_key(#[trigger] node_names@[i])),
//@ rewrite
for node_name in node_names
//@ with
for node_name in it: node_names
//@ loop 1
            invariant
                self.wf_nodes(),
                forall|i: int| 0 <= i < it.index@ ==> self.nodes_map@.contains_key(#[trigger] node_names@[i]),
//@ end

//@ extract fn src/graph/query.rs number_of_nodes props=C09,C20 ty=Graph
//@ rewrite
-> usize
//@ with
-> (r: usize)
//@ spec
    ensures
        // [C09.count.nodes]
        r == self.nodes_vec@.len(),
//@ end

//@ extract fn src/graph/creation.rs add_node props=C01,C03,C20 ty=Graph
//@ spec
    requires
        old(self).wf_nodes(),
    ensures
        // [C01.add_node.wf_nodes_preserved]
        final(self).wf_nodes(),
        // [C01.add_node.replace_in_place]
        old(self).nodes_map@.contains_key(node.name) ==> final(self).nodes_vec@ == old(self).nodes_vec@.update(old(self).nodes_map@[node.name] as int, node),
        // [C01.add_node.append]
        !old(self).nodes_map@.contains_key(node.name) ==> final(self).nodes_vec@ == old(self).nodes_vec@.push(node),
        // [C01.add_node.name_index_frame]
        old(self).nodes_map@.contains_key(node.name) ==> final(self).nodes_map@ == old(self).nodes_map@,
        !old(self).nodes_map@.contains_key(node.name) ==> final(self).nodes_map@ == old(self).nodes_map@.insert(node.name, old(self).nodes_vec@.len() as usize),
        // [C01.add_node.edge_store_frame]
        final(self).edges@ == old(self).edges@,
        final(self).edges_map@ == old(self).edges_map@,
        final(self).specs == old(self).specs,
        final(self).successors@ == old(self).successors@,
        final(self).predecessors@ == old(self).predecessors@,
        // [C01.add_node.wf_estore_preserved]
        old(self).wf_estore() ==> final(self).wf_estore(),
        // [C03.add_node.traversal_rows_frame]
        old(self).nodes_map@.contains_key(node.name) ==> final(self).successors_vec@ == old(self).successors_vec@ && final(self).predecessors_vec@ == old(self).predecessors_vec@,
        !old(self).nodes_map@.contains_key(node.name) ==> rows_extended(old(self).successors_vec@, final(self).successors_vec@) && rows_extended(old(self).predecessors_vec@, final(self).predecessors_vec@),
//@ tail
        proof {
            if old(self).wf_estore() {
                lemma_estore_frame(*old(self), *self);
            }
        }
//@ end

//@ extract fn src/graph/query.rs get_edge_by_indexes props=C02,C20 ty=Graph
//@ rewrite
-> Result<&Edge<T, A>, Error>
//@ with
-> (r: Result<&Edge<T, A>, Error>)
//@ spec
    requires
        self.wf_estore(),
    ensures
        // [C02.pair.by_indexes_lookup]
        self.has_pair(self.canon(u, v).0, self.canon(u, v).1) ==> r.is_ok() && *r.unwrap() == *self.pair_list(self.canon(u, v).0, self.canon(u, v).1)[0],
        !self.has_pair(self.canon(u, v).0, self.canon(u, v).1) ==> is_err_kind(r, ErrorKind::EdgeNotFound),
//@ before match self.edges_map.get(&ordered_u) {
        proof {
            // instantiate wf_estore at the canonical key: a stored list is never empty
            if self.has_pair(ordered_u, ordered_v) {
                assert(self.pair_list(ordered_u, ordered_v).len() > 0);
            }
        }
//@ end

//@ extract fn src/graph/query.rs get_edges_by_indexes props=C02,C20 ty=Graph
//@ rewrite
-> Result<Vec<&Arc<Edge<T, A>>>, Error>
//@ with
-> (r: Result<Vec<&Arc<Edge<T, A>>>, Error>)
//@ spec
    requires
        self.wf_estore(),
    ensures
        // [C02.pair.by_indexes_all_parallel_in_order]
        self.has_pair(self.canon(u, v).0, self.canon(u, v).1) ==> r.is_ok()
            && r.unwrap()@.len() == self.pair_list(self.canon(u, v).0, self.canon(u, v).1).len()
            && forall|k: int| 0 <= k < r.unwrap()@.len() ==> **(#[trigger] r.unwrap()@[k]) == *self.pair_list(self.canon(u, v).0, self.canon(u, v).1)[k],
        !self.has_pair(self.canon(u, v).0, self.canon(u, v).1) ==> is_err_kind(r, ErrorKind::EdgeNotFound),
//@ end

//@ extract fn src/graph/query.rs get_edge props=C02,C20 ty=Graph
//@ rewrite
-> Result<&Edge<T, A>, Error>
//@ with
-> (r: Result<&Edge<T, A>, Error>)
//@ spec
    requires
        self.wf_nodes(),
        self.wf_estore(),
    ensures
        // [C02.pair.get_edge_guard_order]
        self.specs.multi_edges ==> is_err_kind(r, ErrorKind::WrongMethod),
        !self.specs.multi_edges && (!self.nodes_map@.contains_key(u) || !self.nodes_map@.contains_key(v)) ==> is_err_kind(r, ErrorKind::NodeNotFound),
        // [C02.pair.get_edge_answer]
        !self.specs.multi_edges && self.nodes_map@.contains_key(u) && self.nodes_map@.contains_key(v) ==> ({
            let c = self.canon(self.nodes_map@[u], self.nodes_map@[v]);
            &&& self.has_pair(c.0, c.1) ==> r.is_ok() && *r.unwrap() == *self.pair_list(c.0, c.1)[0]
            &&& !self.has_pair(c.0, c.1) ==> is_err_kind(r, ErrorKind::EdgeNotFound)
        }),
//@ end

//@ extract fn src/graph/query.rs get_edges props=C02,C20 ty=Graph
//@ rewrite
-> Result<Vec<&Arc<Edge<T, A>>>, Error>
//@ with
-> (r: Result<Vec<&Arc<Edge<T, A>>>, Error>)
//@ spec
    requires
        self.wf_nodes(),
        self.wf_estore(),
    ensures
        // [C02.pair.get_edges_guard_order]
        !self.specs.multi_edges ==> is_err_kind(r, ErrorKind::WrongMethod),
        self.specs.multi_edges && (!self.nodes_map@.contains_key(u) || !self.nodes_map@.contains_key(v)) ==> is_err_kind(r, ErrorKind::NodeNotFound),
        // [C02.pair.get_edges_answer]
        self.specs.multi_edges && self.nodes_map@.contains_key(u) && self.nodes_map@.contains_key(v) ==> ({
            let c = self.canon(self.nodes_map@[u], self.nodes_map@[v]);
            &&& self.has_pair(c.0, c.1) ==> r.is_ok() && r.unwrap()@.len() == self.pair_list(c.0, c.1).len()
                    && forall|k: int| 0 <= k < r.unwrap()@.len() ==> **(#[trigger] r.unwrap()@[k]) == *self.pair_list(c.0, c.1)[k]
            &&& !self.has_pair(c.0, c.1) ==> is_err_kind(r, ErrorKind::EdgeNotFound)
        }),
//@ end

//@ extract fn src/graph/creation.rs add_edge props=C01,C02,C03,C20 ty=Graph
//@ rewrite
-> Result<(), Error>
//@ with
-> (r: Result<(), Error>)
//@ spec
    requires
        old(self).wf_nodes(),
        old(self).wf_estore(),
    ensures
        // [C01.add_edge.outcome]
        old(self).self_loop_refused(*edge) && old(self).specs.self_loops_false_strategy == SelfLoopsFalseStrategy::Error ==> is_err_kind(r, ErrorKind::SelfLoopsFound),
        old(self).self_loop_refused(*edge) && old(self).specs.self_loops_false_strategy == SelfLoopsFalseStrategy::Drop ==> r.is_ok(),
        !old(self).self_loop_refused(*edge) && old(self).missing_refused(*edge) ==> is_err_kind(r, ErrorKind::NodeNotFound),
        !old(self).self_loop_refused(*edge) && !old(self).missing_refused(*edge) && old(self).duplicate_refused(*edge) ==> is_err_kind(r, ErrorKind::DuplicateEdge),
        !old(self).self_loop_refused(*edge) && !old(self).missing_refused(*edge) && !old(self).duplicate_refused(*edge) ==> r.is_ok(),
        // [C01.add_edge.error_is_noop]
        r.is_err() ==> *final(self) == *old(self),
        // [C01.add_edge.drop_is_noop]
        old(self).self_loop_refused(*edge) ==> *final(self) == *old(self),
        // [C01.add_edge.ignored_duplicate_is_noop]
        !old(self).self_loop_refused(*edge) && !old(self).missing_refused(*edge) && old(self).duplicate_ignored(*edge) ==> *final(self) == *old(self),
        // [C01.add_edge.nodes_created_source_first]
        old(self).stores(*edge) ==> ({
            &&& forall|i: int| 0 <= i < old(self).n() ==> final(self).nodes_vec@[i] == old(self).nodes_vec@[i]
            &&& final(self).names() == names_after(old(self).names(), old(self).knows(edge.u), old(self).knows(edge.v), edge.u, edge.v)
            &&& forall|i: int| old(self).n() <= i < final(self).n() ==> (#[trigger] final(self).nodes_vec@[i]).attributes.is_none()
        }),
        // [C01.add_edge.wf_preserved]
        final(self).wf_nodes(),
        final(self).wf_estore(),
        final(self).specs == old(self).specs,
        // [C01.add_edge.store_effect]
        old(self).stores(*edge) ==> ({
            let c = final(self).canon(final(self).nodes_map@[edge.u], final(self).nodes_map@[edge.v]);
            let ex = old(self).existed(*edge);
            &&& final(self).knows(edge.u) && final(self).knows(edge.v)
            &&& final(self).has_pair(c.0, c.1)
            &&& forall|a: usize, b: usize| (a != c.0 || b != c.1) ==> #[trigger] final(self).has_pair(a, b) == old(self).has_pair(a, b)
            &&& forall|a: usize, b: usize| (a != c.0 || b != c.1) && old(self).has_pair(a, b) ==> #[trigger] final(self).pair_list(a, b) == old(self).pair_list(a, b)
            &&& (old(self).specs.multi_edges && ex) ==> ({
                    &&& final(self).pair_list(c.0, c.1).len() == old(self).pair_list(c.0, c.1).len() + 1
                    &&& forall|k: int| 0 <= k < old(self).pair_list(c.0, c.1).len() ==> final(self).pair_list(c.0, c.1)[k] == old(self).pair_list(c.0, c.1)[k]
                    &&& *final(self).pair_list(c.0, c.1)[old(self).pair_list(c.0, c.1).len() as int] == old(self).stored_form(*edge)
                })
            &&& !(old(self).specs.multi_edges && ex) ==> ({
                    &&& final(self).pair_list(c.0, c.1).len() == 1
                    &&& *final(self).pair_list(c.0, c.1)[0] == old(self).stored_form(*edge)
                })
        }),
        // [C03.add_edge.traversal_effect]
        old(self).stores(*edge) ==> ({
            let c = final(self).canon(final(self).nodes_map@[edge.u], final(self).nodes_map@[edge.v]);
            let ex = old(self).existed(*edge);
            let replace = ex && !old(self).specs.multi_edges;
            let w = edge.weight;
            &&& forall|i: int| 0 <= i < final(self).n() ==> (#[trigger] final(self).successors_vec@[i])@ ==
                    expected_row(pad_row(old(self).successors_vec@, i), i, c.0, c.1, w, ex, replace, !old(self).specs.directed)
            &&& old(self).specs.directed ==> forall|i: int| 0 <= i < final(self).n() ==> (#[trigger] final(self).predecessors_vec@[i])@ ==
                    expected_row(pad_row(old(self).predecessors_vec@, i), i, c.1, c.0, w, ex, replace, false)
            &&& !old(self).specs.directed ==> forall|i: int| 0 <= i < final(self).n() ==> (#[trigger] final(self).predecessors_vec@[i])@ ==
                    pad_row(old(self).predecessors_vec@, i)
        }),
//@ after let edge_already_exists = self.get_edge_by_indexes(u_node_index, v_node_index).is_ok();
        let ghost g1 = *self;
        proof {
            // a pair one of whose nodes was just created cannot be in the store: keys are < n by wf_estore
            let c = g1.canon(u_node_index, v_node_index);
            if edge_already_exists {
                assert(g1.has_pair(c.0, c.1));
                assert(old(self).has_pair(c.0, c.1));
                assert(c.0 < old(self).n() && c.1 < old(self).n());
                assert(old(self).knows(edge.u) && old(self).knows(edge.v));
            }
            assert(edge_already_exists == old(self).existed(*edge));
            assert(edge_already_exists ==> *self == *old(self));
        }
//@ before match self.specs.multi_edges {
        proof {
            lemma_estore_frame(g1, *self);
        }
        let ghost g2 = *self;
//@ before #3 Ok(())
        proof {
            // the store changed at the canonical key only: the list there is [ordered] or the old list plus ordered
            lemma_estore_after_store(g2, *self, ordered_edge_u, ordered_edge_v, ordered);
        }
//@ end

//@ extract fn src/graph/query.rs get_node_by_index props=C02,C20 ty=Graph
//@ rewrite
-> Option<&Arc<Node<T, A>>>
//@ with
-> (r: Option<&Arc<Node<T, A>>>)
//@ spec
    requires
        self.wf_nodes(),
    ensures
        // [C02.lookup.index_to_node]
        *node_index < self.nodes_vec@.len() ==> r.is_some() && **r.unwrap() == *self.nodes_vec@[*node_index as int],
        *node_index >= self.nodes_vec@.len() ==> r.is_none(),
//@ end
}

} // verus!
fn main() {}
