//@ unit u_graph
//@ rlimit 150
// add_edge is verified by cases on (directed, multi_edges): one Verus run per case checks the real body against the
// full contract under the extra precondition of that case (one joint query needs > 100 s and is unstable, each case
// needs about 10 s); the main run checks every other function against add_edge's contract, and lemma_add_edge_cases_cover
// shows that the four cases are exhaustive. Each case is run twice: with the full contract, and (variants *c) with the core
// clauses only (outcome ladder, no-ops, nodes, wf, position-keyed store): the core query is small enough that a broken ladder
// or store update fails with a definite diagnostic instead of exhausting the solver's resource limit.
//@ variants main dm ds um us dmc dsc umc usc
//@ variant-args dm --verify-root --verify-function Graph::add_edge
//@ variant-args ds --verify-root --verify-function Graph::add_edge
//@ variant-args um --verify-root --verify-function Graph::add_edge
//@ variant-args us --verify-root --verify-function Graph::add_edge
//@ variant-args dmc --verify-root --verify-function Graph::add_edge
//@ variant-args dsc --verify-root --verify-function Graph::add_edge
//@ variant-args umc --verify-root --verify-function Graph::add_edge
//@ variant-args usc --verify-root --verify-function Graph::add_edge
#![allow(unused_imports)]
use vstd::prelude::*;
use vstd::std_specs::cmp::*;
use vstd::std_specs::hash::EntrySpecFns;
use vstd::std_specs::iter::IteratorSpec;
use std::collections::{HashMap, HashSet};
use std::sync::Arc;
use std::hash::Hash;
use std::fmt::Display;
verus! {
//@ include float.rs
//@ include std_axioms.rs
broadcast use {f64ax::group_f64_axioms, dispax::axiom_display_total, cloneax::axiom_clone_eq};
//@ include types.rs
//@ include graph_spec.rs
//@ include adjvec.rs

//@ include graph_fns.rs
} // verus!
fn main() {}
