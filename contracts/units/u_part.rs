//@ unit u_part
//@ depends u_graph
// C10: bfs_equal_size_partitions (weak_connectivity.rs): every node in exactly one of k parts of bounded size.
#![allow(unused_imports)]
use vstd::prelude::*;
use vstd::std_specs::cmp::*;
use vstd::std_specs::hash::EntrySpecFns;
use vstd::std_specs::iter::IteratorSpec;
use std::collections::{HashMap, HashSet};
use std::sync::Arc;
use std::hash::Hash;
use std::fmt::Display;
verus! {
//@ include float.rs
//@ include std_axioms.rs
broadcast use {f64ax::group_f64_axioms, dispax::axiom_display_total, cloneax::axiom_clone_eq};
//@ include types.rs
//@ include graph_spec.rs
//@ include-assumed adjvec.rs u_graph
//@ include-assumed graph_fns.rs u_graph

// R-ext (A5): `(0..n).find(|node| !visited[*node])` (Iterator::find is a provided trait method, which Verus cannot be given a
// contract for): ASSUMED to return the first index below n whose flag is false, None if there is none
#[verifier::external_body]
pub fn vrange_find_not(n: usize, visited: &Vec<bool>) -> (r: Option<usize>)
    requires n <= visited@.len(),
    ensures
        match r {
            Some(i) => i < n && !visited@[i as int] && forall|j: int| 0 <= j < i ==> visited@[j],
            None => forall|j: int| 0 <= j < n ==> visited@[j],
        },
{ (0..n).find(|node| !visited[*node]) }

// R-ext (A5): `v.iter().map(f).collect()` targets a local declaration ASSUMED to apply f to every element in order; the (nested)
// closures of the final index -> name translation stay in place and are verified
#[verifier::external_body]
pub fn vref_map_collect<X, O, F: FnMut(&X) -> O>(v: &Vec<X>, f: F) -> (r: Vec<O>)
    requires forall|i: int| 0 <= i < v@.len() ==> call_requires(f, (&#[trigger] v@[i],)),
    ensures r@.len() == v@.len(), forall|i: int| 0 <= i < r@.len() ==> call_ensures(f, (&v@[i],), #[trigger] r@[i]),
{ v.iter().map(f).collect() }


// ---- specification of the partitioning state ----
pub open spec fn count_true(s: Seq<bool>) -> nat
    decreases s.len()
{
    if s.len() == 0 { 0 } else { count_true(s.drop_last()) + if s.last() { 1nat } else { 0nat } }
}

pub proof fn lemma_count_le_len(s: Seq<bool>)
    ensures count_true(s) <= s.len(),
    decreases s.len()
{
    if s.len() > 0 { lemma_count_le_len(s.drop_last()); }
}

pub proof fn lemma_count_false_lt(s: Seq<bool>, i: int)
    requires 0 <= i < s.len(), !s[i],
    ensures count_true(s) < s.len(),
    decreases s.len()
{
    if i == s.len() - 1 {
        lemma_count_le_len(s.drop_last());
    } else {
        lemma_count_false_lt(s.drop_last(), i);
    }
}

pub proof fn lemma_count_update(s: Seq<bool>, i: int)
    requires 0 <= i < s.len(), !s[i],
    ensures count_true(s.update(i, true)) == count_true(s) + 1,
    decreases s.len()
{
    let t = s.update(i, true);
    if i == s.len() - 1 {
        assert(t.drop_last() =~= s.drop_last());
    } else {
        lemma_count_update(s.drop_last(), i);
        assert(t.drop_last() =~= s.drop_last().update(i, true));
    }
}

pub proof fn lemma_count_all(s: Seq<bool>)
    requires count_true(s) == s.len(),
    ensures forall|i: int| 0 <= i < s.len() ==> s[i],
    decreases s.len()
{
    if s.len() > 0 {
        lemma_count_le_len(s.drop_last());
        lemma_count_all(s.drop_last());
        assert forall|i: int| 0 <= i < s.len() implies s[i] by {
            if i < s.len() - 1 { assert(s.drop_last()[i] == s[i]); }
        }
    }
}

pub proof fn lemma_count_lt_has_false(s: Seq<bool>)
    requires count_true(s) < s.len(),
    ensures exists|i: int| 0 <= i < s.len() && !s[i],
    decreases s.len()
{
    if s.len() > 0 {
        if s.last() {
            lemma_count_lt_has_false(s.drop_last());
            let i = choose|i: int| 0 <= i < s.drop_last().len() && !s.drop_last()[i];
            assert(!s[i]);
        } else {
            assert(!s[s.len() - 1]);
        }
    }
}

pub proof fn lemma_count_zero(s: Seq<bool>)
    requires forall|i: int| 0 <= i < s.len() ==> !s[i],
    ensures count_true(s) == 0,
    decreases s.len()
{
    if s.len() > 0 {
        assert forall|i: int| 0 <= i < s.drop_last().len() implies !s.drop_last()[i] by { assert(s.drop_last()[i] == s[i]); }
        lemma_count_zero(s.drop_last());
    }
}

// distinct positions have distinct names (nodes_map is a bijection)
pub proof fn lemma_names_distinct<T: Eq + PartialOrd + Send + Sync, A: Clone>(g: Graph<T, A>)
    requires g.wf_nodes(),
    ensures forall|a: usize, b: usize| a < g.n() && b < g.n() && #[trigger] g.name_of(a) == #[trigger] g.name_of(b) ==> a == b,
{
    assert forall|a: usize, b: usize| a < g.n() && b < g.n() && #[trigger] g.name_of(a) == #[trigger] g.name_of(b) implies a == b by {
        assert(g.nodes_map@[g.nodes_vec@[a as int].name] == a as int);
        assert(g.nodes_map@[g.nodes_vec@[b as int].name] == b as int);
    }
}

pub proof fn lemma_parts_cover_more(k: nat, n: nat)
    requires k >= 1,
    ensures k * (n / k + 1) > n,
{
    assert(k * (n / k + 1) > n) by(nonlinear_arith) requires k >= 1;
}

pub open spec fn occurs_in<T>(parts: Seq<Vec<T>>, x: T) -> bool {
    exists|p: int, j: int| 0 <= p < parts.len() && 0 <= j < parts[p]@.len() && #[trigger] parts[p]@[j] == x
}

// every entry of every part is a visited position; no position occurs twice; every visited position occurs
pub open spec fn parts_ok(parts: Seq<Vec<usize>>, visited: Seq<bool>) -> bool {
    &&& forall|p: int, j: int| 0 <= p < parts.len() && 0 <= j < parts[p]@.len() ==> (#[trigger] parts[p]@[j]) < visited.len() && visited[parts[p]@[j] as int]
    &&& forall|p: int, j: int, p2: int, j2: int| 0 <= p < parts.len() && 0 <= j < parts[p]@.len() && 0 <= p2 < parts.len() && 0 <= j2 < parts[p2]@.len()
            && (p != p2 || j != j2) ==> #[trigger] parts[p]@[j] != #[trigger] parts[p2]@[j2]
    &&& forall|i: int| 0 <= i < visited.len() && visited[i] ==> exists|p: int, j: int| 0 <= p < parts.len() && 0 <= j < parts[p]@.len() && #[trigger] parts[p]@[j] == i
}

// parts before `cur` are full, parts after it are empty, and the visited count is what that shape holds
pub open spec fn shape_ok(parts: Seq<Vec<usize>>, cur: int, max: int, k: int, visited_count: int) -> bool {
    &&& parts.len() == k
    &&& 0 <= cur <= k
    &&& forall|p: int| 0 <= p < cur ==> (#[trigger] parts[p])@.len() == max
    &&& forall|p: int| cur < p < k ==> (#[trigger] parts[p])@.len() == 0
    &&& cur < k ==> parts[cur]@.len() <= max
    &&& visited_count == cur * max + (if cur < k { parts[cur]@.len() as int } else { 0 })
}

// visiting `current` (so far unvisited) and appending it to part `cur` keeps parts_ok
pub proof fn lemma_visit(parts: Seq<Vec<usize>>, parts2: Seq<Vec<usize>>, visited: Seq<bool>, cur: int, current: usize)
    requires
        parts_ok(parts, visited),
        0 <= cur < parts.len(),
        current < visited.len(),
        !visited[current as int],
        parts2.len() == parts.len(),
        forall|p: int| 0 <= p < parts.len() && p != cur ==> parts2[p] == parts[p],
        parts2[cur]@ == parts[cur]@.push(current),
    ensures
        parts_ok(parts2, visited.update(current as int, true)),
{
    let v2 = visited.update(current as int, true);
    assert forall|p: int, j: int| 0 <= p < parts2.len() && 0 <= j < parts2[p]@.len() implies (#[trigger] parts2[p]@[j]) < v2.len() && v2[parts2[p]@[j] as int] by {
        if p == cur && j == parts[cur]@.len() {
        } else {
            assert(parts2[p]@[j] == parts[p]@[j]);
        }
    }
    assert forall|p: int, j: int, p2: int, j2: int| 0 <= p < parts2.len() && 0 <= j < parts2[p]@.len() && 0 <= p2 < parts2.len() && 0 <= j2 < parts2[p2]@.len()
            && (p != p2 || j != j2) implies #[trigger] parts2[p]@[j] != #[trigger] parts2[p2]@[j2] by {
        let new1 = p == cur && j == parts[cur]@.len();
        let new2 = p2 == cur && j2 == parts[cur]@.len();
        if !new1 { assert(parts2[p]@[j] == parts[p]@[j]); assert(visited[parts[p]@[j] as int]); }
        if !new2 { assert(parts2[p2]@[j2] == parts[p2]@[j2]); assert(visited[parts[p2]@[j2] as int]); }
    }
    assert forall|i: int| 0 <= i < v2.len() && v2[i] implies exists|p: int, j: int| 0 <= p < parts2.len() && 0 <= j < parts2[p]@.len() && #[trigger] parts2[p]@[j] == i by {
        if i == current as int {
            assert(parts2[cur]@[parts[cur]@.len() as int] == current);
        } else {
            assert(visited[i]);
            let (p, j) = choose|p: int, j: int| 0 <= p < parts.len() && 0 <= j < parts[p]@.len() && #[trigger] parts[p]@[j] == i;
            assert(parts2[p]@[j] == parts[p]@[j]);
        }
    }
}

//@ extract fn src/algorithms/components/weak_connectivity.rs bfs_equal_size_partitions props=C10,C20
//@ head
#[verifier::loop_isolation(false)]
#[verifier::allow_complex_invariants]
//@ rewrite
-> Vec<Vec<T>>
//@ with
-> (r: Vec<Vec<T>>)
//@ rewrite
    let mut partitions = vec![vec![]; num_partitions];
//@ with
    let mut partitions: Vec<Vec<usize>> = vec![vec![]; num_partitions];
//@ rewrite
    let mut queue = Vec::new();
//@ with
    let mut queue: Vec<usize> = Vec::new();
//@ rewrite
(0..graph.number_of_nodes())
            .find(|node| !visited[*node])
//@ with
vrange_find_not(graph.number_of_nodes(), &visited)
//@ rewrite
    partitions
        .iter()
        .map(|partition| {
            partition
                .iter()
                .map(|node|
//@ with
    let part_fn = |partition: &Vec<usize>| -> (o: Vec<T>)
            requires graph.wf_nodes(), forall|j: int| 0 <= j < partition@.len() ==> #[trigger] partition@[j] < graph.n(),
            ensures o@.len() == partition@.len(), forall|j: int| 0 <= j < o@.len() ==> #[trigger] o@[j] == graph.name_of(partition@[j]),
        {
            vref_map_collect(partition, |node: &usize| -> (o: T)
                requires graph.wf_nodes(), *node < graph.n(),
                ensures o == graph.name_of(*node),
            {
//@ rewrite
)
                .collect()
        })
        .collect()
//@ with
 })
        };
    let ghost pv = partitions@;
    let out = vref_map_collect(&partitions, part_fn);
    proof {
        assert forall|p: int| 0 <= p < out@.len() implies (#[trigger] out@[p])@.len() == pv[p]@.len()
            && forall|j: int| 0 <= j < out@[p]@.len() ==> #[trigger] out@[p]@[j] == graph.name_of(pv[p]@[j]) by {
            assert(call_ensures(part_fn, (&pv[p],), out@[p]));
        }
        assert(out@.len() == pv.len());
        assert(forall|p: int, j: int| #![trigger out@[p]@[j]] #![trigger pv[p]@[j]] 0 <= p < out@.len() && 0 <= j < out@[p]@.len() ==> out@[p]@[j] == graph.name_of(pv[p]@[j]));
    }
    out
//@ spec
    requires
        graph.wf_nodes(),
        graph.wf_rows(),
        num_partitions >= 1,
        (graph.n() / num_partitions as nat) + 1 <= usize::MAX,
    ensures
        // [C10.parts.count]
        r@.len() == num_partitions,
        // [C10.parts.size_bounded]
        forall|p: int| 0 <= p < r@.len() ==> (#[trigger] r@[p])@.len() <= graph.n() / (num_partitions as nat) + 1,
        // [C10.parts.each_node_exactly_once]
        forall|i: usize| i < graph.n() ==> occurs_in(r@, #[trigger] graph.name_of(i)),
        forall|p: int, j: int, p2: int, j2: int| 0 <= p < r@.len() && 0 <= j < r@[p]@.len() && 0 <= p2 < r@.len() && 0 <= j2 < r@[p2]@.len()
            && (p != p2 || j != j2) ==> #[trigger] r@[p]@[j] != #[trigger] r@[p2]@[j2],
//@ before while visited_count < number_of_nodes {
    proof {
        assert(count_true(visited@) == 0) by {
            // all flags false
            lemma_count_zero(visited@);
        }
    }
//@ loop 1
        invariant
            graph.wf_nodes(),
            graph.wf_rows(),
            num_partitions >= 1,
            number_of_nodes == graph.n(),
            visited@.len() == graph.n(),
            partition_max_size == graph.n() / (num_partitions as nat) + 1,
            // [C10.state.parts_ok]
            parts_ok(partitions@, visited@),
            // [C10.state.shape_ok]
            shape_ok(partitions@, partition as int, partition_max_size as int, num_partitions as int, visited_count as int),
            visited_count == count_true(visited@),
            partition < num_partitions ==> partitions@[partition as int]@.len() < partition_max_size,
            forall|q: int| 0 <= q < queue@.len() ==> #[trigger] queue@[q] < graph.n(),
            queue@.len() == 0,
        // [C20.parts.terminates] every round of the outer loop visits the unvisited node it starts from
        decreases graph.n() - visited_count,
//@ before queue.push(node);
        let ghost vc0 = visited_count;
//@ before let node = 
        proof {
            // some node is unvisited, and the current part index is in range (k parts of this size hold more than n nodes)
            lemma_count_lt_has_false(visited@);
            lemma_count_le_len(visited@);
            lemma_parts_cover_more(num_partitions as nat, graph.n());
            if partition >= num_partitions {
                assert(visited_count as int == (num_partitions as int) * (partition_max_size as int));
            }
            assert(partition < num_partitions);
        }
//@ loop 2
            invariant_except_break
                partitions@[partition as int]@.len() < partition_max_size,
            invariant
                graph.wf_nodes(),
                graph.wf_rows(),
                num_partitions >= 1,
                number_of_nodes == graph.n(),
                visited@.len() == graph.n(),
                partition_max_size == graph.n() / (num_partitions as nat) + 1,
                partition < num_partitions,
                parts_ok(partitions@, visited@),
                shape_ok(partitions@, partition as int, partition_max_size as int, num_partitions as int, visited_count as int),
                visited_count == count_true(visited@),
                forall|q: int| 0 <= q < queue@.len() ==> #[trigger] queue@[q] < graph.n(),
                visited_count <= graph.n(),
                visited_count > vc0 || (queue@.len() > 0 && queue@[0] == node && !visited@[node as int] && visited_count == vc0),
            ensures
                partitions@[partition as int]@.len() <= partition_max_size,
                partitions@[partition as int]@.len() < partition_max_size ==> queue@.len() == 0,
                visited_count > vc0,
            // a step visits a new node (there are n) or only shortens the queue
            decreases graph.n() - visited_count, queue@.len(),
//@ before visited[current] = true;
                let ghost parts0 = partitions@;
                let ghost vis0 = visited@;
                proof {
                    lemma_count_false_lt(vis0, current as int);
                }
//@ after visited_count += 1;
                proof {
                    lemma_visit(parts0, partitions@, vis0, partition as int, current);
                    lemma_count_update(vis0, current as int);
                    assert(visited@ =~= vis0.update(current as int, true));
                }
//@ loop 3
                    invariant
                        graph.wf_nodes(),
                        graph.wf_rows(),
                        current < graph.n(),
                        forall|q: int| 0 <= q < queue@.len() ==> #[trigger] queue@[q] < graph.n(),
//@ before #2 if partitions[partition].len() == partition_max_size {
        proof {
            assert((partition as int) * (partition_max_size as int) + (partition_max_size as int) == ((partition as int) + 1) * (partition_max_size as int)) by(nonlinear_arith);
        }
//@ before =partitions
    proof {
        // the loop ended: every flag is set, so by parts_ok every position occurs, exactly once
        lemma_count_le_len(visited@);
        lemma_count_all(visited@);
        lemma_names_distinct(*graph);
        assert forall|i: usize| i < graph.n() implies occurs_in(partitions@, graph.nodes_map@[#[trigger] graph.name_of(i)]) by {
            assert(visited@[i as int]);
            assert(graph.nodes_map@[graph.nodes_vec@[i as int].name] == i);
            assert(occurs_in(partitions@, i));
        }
    }
//@ end

} // verus!
fn main() {}
