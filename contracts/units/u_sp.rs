//@ unit u_sp
//@ variants main core
//@ depends u_graph
// C04 / C08: the distance-only Dijkstra kernel, option dispatch and the single_source error channel (dijkstra.rs).
#![feature(allocator_api)]
#![allow(unused_imports)]
use vstd::prelude::*;
use vstd::std_specs::cmp::*;
use vstd::std_specs::hash::EntrySpecFns;
use std::collections::{HashMap, HashSet, BinaryHeap};
use std::sync::Arc;
use std::hash::Hash;
use std::fmt::Display;
use std::cmp::Ordering;
use std::mem;
verus! {
//@ include float.rs
//@ include std_axioms.rs
broadcast use {f64ax::group_f64_axioms, dispax::axiom_display_total, cloneax::axiom_clone_eq};
//@ include types.rs
//@ include graph_spec.rs
//@ include heap.rs
//@ include-assumed adjvec.rs u_graph
//@ include-assumed graph_fns.rs u_graph

//@ extract struct src/algorithms/shortest_path/shortest_path_info.rs ShortestPathInfo
//@ end

//@ extract struct src/algorithms/shortest_path/dijkstra.rs FringeNode pubfields
//@ rewrite
struct FringeNode
//@ with
pub struct FringeNode
//@ end

impl Ord for FringeNode {
//@ extract fn src/algorithms/shortest_path/dijkstra.rs cmp ty=FringeNode props=C20
//@ end
}
impl PartialOrd for FringeNode {
//@ extract fn src/algorithms/shortest_path/dijkstra.rs partial_cmp ty=FringeNode props=C20
//@ end
}
impl PartialEq for FringeNode {
//@ extract fn src/algorithms/shortest_path/dijkstra.rs eq ty=FringeNode props=C20
//@ end
}
impl Eq for FringeNode {}
// vstd's model of the comparison traits: nothing is claimed to vstd about this order (obeys_* = false); what the
// heap needs from it (smallest real distance pops first) is the subject of the Kani lemmas C04.fringe.*
impl vstd::std_specs::cmp::PartialEqSpecImpl for FringeNode {
    open spec fn obeys_eq_spec() -> bool { false }
    open spec fn eq_spec(&self, other: &FringeNode) -> bool { true }
}
impl vstd::std_specs::cmp::PartialOrdSpecImpl for FringeNode {
    open spec fn obeys_partial_cmp_spec() -> bool { false }
    open spec fn partial_cmp_spec(&self, other: &FringeNode) -> Option<Ordering> { None }
}
impl vstd::std_specs::cmp::OrdSpecImpl for FringeNode {
    open spec fn obeys_cmp_spec() -> bool { false }
    open spec fn cmp_spec(&self, other: &FringeNode) -> Ordering { Ordering::Equal }
}

//@ extract fn src/algorithms/shortest_path/dijkstra.rs can_use_basic props=C08,C20
//@ rewrite
) -> bool
//@ with
) -> (r: bool)
//@ spec
    ensures
        // [C08.dispatch.fast_path_iff_no_options]
        r == (target.is_none() && cutoff.is_none() && !first_only && !with_paths),
//@ end


// ---- A5: graphrs functions left unverified (iterator pipelines / closures over &mut / rayon), with ASSUMED contracts ----
//@ extract fn src/algorithms/shortest_path/dijkstra.rs get_shortest_path_infos nobody
//@ head
#[verifier::external_body]
//@ rewrite
) -> Vec<(usize, ShortestPathInfo<usize>)>
//@ with
) -> (r: Vec<(usize, ShortestPathInfo<usize>)>)
//@ spec
    requires
        with_paths ==> old(paths)@.len() == distances@.len(),
    ensures
        // one entry (k, distances[k]) for every k whose distance is not f64::MAX, in increasing k; no other entry
        forall|j: int| 0 <= j < r@.len() ==> (#[trigger] r@[j]).0 < distances@.len() && !feq(distances@[r@[j].0 as int], f64_max())
            && r@[j].1.distance == distances@[r@[j].0 as int],
        forall|k: int| 0 <= k < distances@.len() && !feq(distances@[k], f64_max()) ==> exists|j: int| 0 <= j < r@.len() && (#[trigger] r@[j]).0 == k,
        !with_paths ==> forall|j: int| 0 <= j < r@.len() ==> (#[trigger] r@[j]).1.paths@.len() == 0,
//@ end

//@ extract fn src/algorithms/shortest_path/dijkstra.rs push_fringe_node props=C04,C20
//@ rewrite
*count += 1;
//@ with
*count = *count + 1;
//@ rewrite
distance: -vu_dist,
//@ with
distance: core::ops::Neg::neg(vu_dist),
//@ spec
    requires
        *old(count) < i32::MAX,
    ensures
        // [C04.push.negated_distance]
        *final(count) == *old(count) + 1,
        heap_view(final(fringe)) == heap_view(old(fringe)).insert(FringeNode { node_index: u, count: *final(count), distance: fneg(vu_dist) }),
//@ end

//@ include chain.rs

pub open spec fn item_ok<T: Eq + PartialOrd + Send + Sync, A: Clone>(g: Graph<T, A>, weighted: bool, source: usize, hist: Seq<(usize, f64)>, it: FringeNode) -> bool {
    &&& it.node_index < g.n()
    &&& (it.node_index == source && fneg(it.distance) == 0.0f64)
        || exists|i: int| #[trigger] extends(g, weighted, hist, i, it.node_index, fneg(it.distance))
}
// d passes the cutoff test: there is no cutoff, or d is not greater than it
pub open spec fn within_cutoff(cutoff: Option<f64>, d: f64) -> bool {
    match cutoff {
        Some(c) => !flt(c, d),
        None => true,
    }
}
pub proof fn lemma_item_mono<T: Eq + PartialOrd + Send + Sync, A: Clone>(g: Graph<T, A>, weighted: bool, source: usize, h0: Seq<(usize, f64)>, x: (usize, f64), it: FringeNode)
    requires item_ok(g, weighted, source, h0, it),
    ensures item_ok(g, weighted, source, h0.push(x), it),
{
    if !(it.node_index == source && fneg(it.distance) == 0.0f64) {
        let i = choose|i: int| #[trigger] extends(g, weighted, h0, i, it.node_index, fneg(it.distance));
        lemma_extends_mono(g, weighted, h0, x, i, it.node_index, fneg(it.distance));
    }
}


// ---- completeness of the distance-only kernel: nothing reachable is dropped ----
pub open spec fn in_heap(h: vstd::multiset::Multiset<FringeNode>, w: usize) -> bool {
    exists|it: FringeNode| #[trigger] h.count(it) > 0 && it.node_index == w
}
// the candidate length through the k-th traversal entry of v is not below f64::MAX (such a candidate is never pushed:
// the first-discovery test is `candidate < seen[u]` with seen[u] == f64::MAX)
pub open spec fn too_long<T: Eq + PartialOrd + Send + Sync, A: Clone>(g: Graph<T, A>, weighted: bool, hist: Seq<(usize, f64)>, v: usize, k: int) -> bool {
    exists|d: f64| #[trigger] hist.contains((v, d)) && !flt(fadd(d, step_cost(g, weighted, v as int, k)), f64_max())
}
// trigger marker for the closure quantifiers: they are instantiated only at traversal entries named explicitly (a trigger on the
// row entry itself would chain through in_heap -> item_ok -> extends -> another row entry and never stop)
pub open spec fn entry_mark(v: usize, k: int) -> bool { true }
pub open spec fn closed_upto<T: Eq + PartialOrd + Send + Sync, A: Clone>(g: Graph<T, A>, weighted: bool, hist: Seq<(usize, f64)>, done: Set<usize>, h: vstd::multiset::Multiset<FringeNode>, cur: int, upto: int) -> bool {
    forall|v: usize, k: int| #[trigger] entry_mark(v, k) && done.contains(v) && v < g.n() && 0 <= k < g.successors_vec@[v as int]@.len() && (v != cur || k < upto)
        ==> done.contains(g.successors_vec@[v as int]@[k].node_index) || in_heap(h, g.successors_vec@[v as int]@[k].node_index)
            || too_long(g, weighted, hist, v, k)
}
// `done` (the settled nodes) contains the source and every traversal entry of a settled node leads to a settled node, unless the
// candidate length through that entry is not below f64::MAX; every settled node was assigned a walk length (hist) and is
// reported unless that length equals f64::MAX
pub open spec fn settled_closed<T: Eq + PartialOrd + Send + Sync, A: Clone>(g: Graph<T, A>, weighted: bool, source: usize, hist: Seq<(usize, f64)>, done: Set<usize>, dist: Seq<f64>) -> bool {
    &&& done.contains(source)
    &&& forall|v: usize, k: int| #[trigger] entry_mark(v, k) && done.contains(v) && v < g.n() && 0 <= k < g.successors_vec@[v as int]@.len()
            ==> done.contains(g.successors_vec@[v as int]@[k].node_index) || too_long(g, weighted, hist, v, k)
    &&& forall|w: usize| #[trigger] done.contains(w) ==> w < g.n() && exists|d: f64| #[trigger] hist.contains((w, d)) && (feq(d, f64_max()) || dist[w as int] == d)
}
pub proof fn lemma_in_heap_remove(h: vstd::multiset::Multiset<FringeNode>, it: FringeNode, w: usize)
    requires in_heap(h, w), w != it.node_index,
    ensures in_heap(h.remove(it), w),
{
    let x = choose|x: FringeNode| #[trigger] h.count(x) > 0 && x.node_index == w;
    assert(h.remove(it).count(x) > 0);
}
pub proof fn lemma_in_heap_insert(h: vstd::multiset::Multiset<FringeNode>, it: FringeNode, w: usize)
    requires in_heap(h, w) || it.node_index == w,
    ensures in_heap(h.insert(it), w),
{
    if it.node_index == w {
        assert(h.insert(it).count(it) > 0);
    } else {
        let x = choose|x: FringeNode| #[trigger] h.count(x) > 0 && x.node_index == w;
        assert(h.insert(it).count(x) > 0);
    }
}
pub proof fn lemma_too_long_mono<T: Eq + PartialOrd + Send + Sync, A: Clone>(g: Graph<T, A>, weighted: bool, h0: Seq<(usize, f64)>, x: (usize, f64), v: usize, k: int)
    requires too_long(g, weighted, h0, v, k),
    ensures too_long(g, weighted, h0.push(x), v, k),
{
    let d = choose|d: f64| #[trigger] h0.contains((v, d)) && !flt(fadd(d, step_cost(g, weighted, v as int, k)), f64_max());
    let j = choose|j: int| 0 <= j < h0.len() && h0[j] == (v, d);
    assert(h0.push(x)[j] == (v, d));
    assert(h0.push(x).contains((v, d)));
}

// a set of positions below n has at most n members
pub proof fn lemma_bounded_usize_set_len(s: Set<usize>, n: nat)
    requires forall|w: usize| s.contains(w) ==> w < n,
    ensures s.len() <= n,
    decreases n
{
    if n == 0 {
        assert(s =~= Set::<usize>::empty());
    } else {
        let last = (n - 1) as usize;
        let s2 = s.remove(last);
        assert forall|w: usize| s2.contains(w) implies w < (n - 1) as nat by { assert(s.contains(w)); }
        lemma_bounded_usize_set_len(s2, (n - 1) as nat);
        if !s.contains(last) { assert(s2 =~= s); }
    }
}

//@ extract fn src/algorithms/shortest_path/dijkstra.rs dijkstra_basic props=C03,C04,C20
//@ head
//@ if core
#[verifier::exec_allows_no_decreases_clause]
//@ fi
//@ rewrite
) -> Result<Vec<(usize, ShortestPathInfo<usize>)>, Error>
//@ with
) -> (r: Result<Vec<(usize, ShortestPathInfo<usize>)>, Error>)
//@ rewrite count=any
f64::MAX
//@ with
vf64_max()
//@ rewrite
        distance: -0.0,
//@ with
        distance: core::ops::Neg::neg(0.0),
//@ rewrite
let d = -fringe_item.distance;
//@ with
let d = core::ops::Neg::neg(fringe_item.distance);
//@ spec
    requires
        graph.wf_nodes(),
        graph.wf_rows(),
        source < graph.n(),
    ensures
        r.is_ok(),
        // [C04.basic.sound, C03.consumers.dijkstra_basic_reads_successor_rows]
        // every reported (node, distance) is the source at 0.0 or extends an earlier assignment along a stored traversal
        // entry: by induction it is the length of a walk from the source over the rows of successors_vec
        exists|hist: Seq<(usize, f64)>| #[trigger] chain_ok(*graph, weighted, source, hist) && forall|j: int| 0 <= j < r.unwrap()@.len() ==>
            hist.contains(((#[trigger] r.unwrap()@[j]).0, r.unwrap()@[j].1.distance)),
//@ if main
        // [C04.basic.nothing_reachable_is_dropped]
        // the reported nodes are the settled ones (minus those whose length equals f64::MAX), the source is settled and every
        // traversal entry of a settled node leads to a settled node unless the candidate length through it is not below f64::MAX
        exists|hist: Seq<(usize, f64)>, done: Set<usize>, dist: Seq<f64>| #[trigger] settled_closed(*graph, weighted, source, hist, done, dist)
            && chain_ok(*graph, weighted, source, hist) && dist.len() == graph.n()
            && (forall|k: int| 0 <= k < dist.len() && !feq(#[trigger] dist[k], f64_max()) ==> exists|j: int| 0 <= j < r.unwrap()@.len() && (#[trigger] r.unwrap()@[j]).0 == k),
//@ fi
        // [C04.basic.reported_in_range]
        forall|j: int| 0 <= j < r.unwrap()@.len() ==> (#[trigger] r.unwrap()@[j]).0 < graph.n(),
        // [C08.basic.no_paths_on_fast_path]
        forall|j: int| 0 <= j < r.unwrap()@.len() ==> (#[trigger] r.unwrap()@[j]).1.paths@.len() == 0,
//@ before while let Some(fringe_item) = fringe.pop() {
    let ghost mut hist: Seq<(usize, f64)> = Seq::empty();
//@ if main
    let ghost mut done: Set<usize> = Set::empty();
    let ghost mut hv: vstd::multiset::Multiset<FringeNode> = heap_view(&fringe);
//@ fi
    proof {
        let it0 = FringeNode { node_index: source, count: 0, distance: fneg(0.0f64) };
        assert(heap_view(&fringe) =~= vstd::multiset::Multiset::<FringeNode>::empty().insert(it0));
//@ if main
        assert(heap_view(&fringe).count(it0) > 0);
        assert(in_heap(heap_view(&fringe), source));
        axiom_f64_zero_not_max();
        axiom_f64_max_and_zero_le_max();
        assert(fneg(it0.distance) == 0.0f64);
//@ fi
    }
//@ loop 1
        invariant
            graph.wf_nodes(),
            graph.wf_rows(),
            source < graph.n(),
            dist@.len() == graph.n(),
            seen@.len() == graph.n(),
            // [C04.basic.heap_items_justified]
            forall|it: FringeNode| #[trigger] heap_view(&fringe).count(it) > 0 ==> item_ok(*graph, weighted, source, hist, it),
            // [C04.basic.assignments_form_walks]
            chain_ok(*graph, weighted, source, hist),
            forall|u: int| reported(dist@, u) ==> hist.contains((u as usize, #[trigger] dist@[u])),
            // [C04.basic.settled_nodes_are_not_reassigned]
            forall|j: int| 0 <= j < hist.len() ==> (#[trigger] hist[j]).0 < dist@.len() && (feq(hist[j].1, f64_max()) || dist@[hist[j].0 as int] == hist[j].1),
//@ if main
            // [C04.basic.nothing_discovered_is_dropped]
            hv == heap_view(&fringe),
            forall|w: int| 0 <= w < graph.n() ==> #[trigger] seen@[w] == f64_max() || done.contains(w as usize) || in_heap(heap_view(&fringe), w as usize),
            forall|w: int| 0 <= w < graph.n() && !feq(#[trigger] dist@[w], f64_max()) ==> done.contains(w as usize),
            forall|w: usize| #[trigger] done.contains(w) ==> w < graph.n() && exists|d: f64| #[trigger] hist.contains((w, d)) && (feq(d, f64_max()) || dist@[w as int] == d),
            closed_upto(*graph, weighted, hist, done, heap_view(&fringe), -1, 0),
            done.contains(source) || in_heap(heap_view(&fringe), source),
            // [C20.basic.settled_once] a settled node carries a distance other than f64::MAX (no heap item carries f64::MAX, no candidate is above it),
            // so the `continue` guard skips it for good
            forall|w: usize| #[trigger] done.contains(w) ==> !feq(dist@[w as int], f64_max()),
            forall|u: int| 0 <= u < graph.n() ==> fle(#[trigger] seen@[u], f64_max()),
            forall|it: FringeNode| #[trigger] heap_view(&fringe).count(it) > 0 ==> !feq(fneg(it.distance), f64_max()),
            done.len() <= graph.n(),
        ensures
            heap_view(&fringe).len() == 0,
        // [C20.basic.terminates] a step settles a node (each at most once, there are n) or only takes an item off the heap
        decreases graph.n() - done.len(), heap_view(&fringe).len(),
//@ before let d = -fringe_item.distance;
        let ghost heap0 = hv;
        proof {
            hv = heap_view(&fringe);
            assert(heap0.count(fringe_item) > 0);
            assert(hv == heap0.remove(fringe_item));
            assert forall|w: usize| w != fringe_item.node_index && #[trigger] in_heap(heap0, w) implies in_heap(heap_view(&fringe), w) by {
                lemma_in_heap_remove(heap0, fringe_item, w);
            }
        }
//@ before continue;
            proof {
                assert(done.contains(v));
            }
//@ fi
//@ before dist[v] = d;
        let ghost dist0 = dist@;
        // a node is settled only while it is unsettled (the `continue` guard above)
        assert(feq(dist@[v as int], f64_max()));
//@ after dist[v] = d;
        proof {
            let ghost h0 = hist;
            hist = hist.push((v, d));
            // the popped item was justified; its justification becomes the new chain link
            assert(item_ok(*graph, weighted, source, h0, fringe_item));
            lemma_chain_push(*graph, weighted, source, h0, v, d);
            assert forall|it: FringeNode| #[trigger] heap_view(&fringe).count(it) > 0 implies item_ok(*graph, weighted, source, hist, it) by {
                lemma_item_mono(*graph, weighted, source, h0, (v, d), it);
            }
            lemma_reported_push(dist0, dist@, h0, v, d);
//@ if main
            let ghost done0 = done;
            assert(!done0.contains(v));
            done = done.insert(v);
            lemma_bounded_usize_set_len(done, graph.n());
            assert(hist[h0.len() as int] == (v, d));
            assert forall|w: usize| #[trigger] done.contains(w) implies w < graph.n() && exists|dd: f64| #[trigger] hist.contains((w, dd)) && (feq(dd, f64_max()) || dist@[w as int] == dd) by {
                if w != v {
                    let dd = choose|dd: f64| #[trigger] h0.contains((w, dd)) && (feq(dd, f64_max()) || dist0[w as int] == dd);
                    let j = choose|j: int| 0 <= j < h0.len() && h0[j] == (w, dd);
                    assert(hist[j] == h0[j]);
                    assert(hist.contains((w, dd)));
                } else {
                    assert(hist.contains((v, d)));
                }
            }
            assert forall|x: usize, k: int| #[trigger] too_long(*graph, weighted, h0, x, k) implies too_long(*graph, weighted, hist, x, k) by {
                lemma_too_long_mono(*graph, weighted, h0, (v, d), x, k);
            }
            assert(closed_upto(*graph, weighted, hist, done, heap_view(&fringe), v as int, 0));
//@ fi
        }
        let ghost vpos: int = hist.len() - 1;
//@ rewrite
for adj in graph.get_successor_nodes_by_index(&v)
//@ with
for adj in row_it: graph.get_successor_nodes_by_index(&v)
//@ loop 2
            invariant
                graph.wf_nodes(),
                graph.wf_rows(),
                source < graph.n(),
                v < graph.n(),
                dist@.len() == graph.n(),
                seen@.len() == graph.n(),
                0 <= vpos < hist.len() && hist[vpos] == (v, dist@[v as int]),
                forall|it: FringeNode| #[trigger] heap_view(&fringe).count(it) > 0 ==> item_ok(*graph, weighted, source, hist, it),
                chain_ok(*graph, weighted, source, hist),
                forall|u: int| reported(dist@, u) ==> hist.contains((u as usize, #[trigger] dist@[u])),
                forall|j: int| 0 <= j < hist.len() ==> (#[trigger] hist[j]).0 < dist@.len() && (feq(hist[j].1, f64_max()) || dist@[hist[j].0 as int] == hist[j].1),
//@ if main
                hv == heap_view(&fringe),
                done.contains(v),
                forall|w: int| 0 <= w < graph.n() ==> #[trigger] seen@[w] == f64_max() || done.contains(w as usize) || in_heap(heap_view(&fringe), w as usize),
                forall|w: int| 0 <= w < graph.n() && !feq(#[trigger] dist@[w], f64_max()) ==> done.contains(w as usize),
                forall|w: usize| #[trigger] done.contains(w) ==> w < graph.n() && exists|d: f64| #[trigger] hist.contains((w, d)) && (feq(d, f64_max()) || dist@[w as int] == d),
                closed_upto(*graph, weighted, hist, done, heap_view(&fringe), v as int, row_it.index@ as int),
                done.contains(source) || in_heap(heap_view(&fringe), source),
                forall|w: usize| #[trigger] done.contains(w) ==> !feq(dist@[w as int], f64_max()),
                forall|u: int| 0 <= u < graph.n() ==> fle(#[trigger] seen@[u], f64_max()),
                forall|it: FringeNode| #[trigger] heap_view(&fringe).count(it) > 0 ==> !feq(fneg(it.distance), f64_max()),
                done.len() <= graph.n(),
//@ fi
//@ before let vu_dist = dist[v] + cost;
            let ghost fringe0 = heap_view(&fringe);
//@ after let vu_dist = dist[v] + cost;
            proof {
                // relaxing the traversal entry row(v)[k] = (u, cost): the candidate distance extends the walk that reached v
                assert(graph.successors_vec@[v as int]@[row_it.index@] == *adj);
                assert(extends(*graph, weighted, hist, vpos, u, vu_dist));
                assert(u < graph.n());
                assert(fneg(fneg(vu_dist)) == vu_dist);
                assert(extends(*graph, weighted, hist, vpos, u, fneg(fneg(vu_dist))));
//@ if main
                // a candidate that is not below f64::MAX is the only way an undiscovered successor stays undiscovered
                assert(hist.contains((v, dist@[v as int])));
                assert(vu_dist == fadd(dist@[v as int], step_cost(*graph, weighted, v as int, row_it.index@ as int)));
                axiom_f64_eq_max_not_below(vu_dist);
                axiom_f64_lt_below_max(vu_dist, seen@[u as int]);
                axiom_f64_below_max_facts(vu_dist);
                if !flt(vu_dist, f64_max()) {
                    assert(too_long(*graph, weighted, hist, v, row_it.index@ as int));
                }
//@ fi
            }
//@ before #1 push_fringe_node(&mut count, &mut fringe, u, vu_dist);
                // machine arithmetic treated as mathematical: the push counter is an i32 that would need > 2^31 heap pushes to overflow
                assume(count < i32::MAX);
//@ if main
                // [C20.settled_once.no_item_at_max] a queued candidate is never f64::MAX (stated before the push, where the context is small)
                assert(!feq(vu_dist, f64_max()));
//@ fi
//@ before #2 push_fringe_node(&mut count, &mut fringe, u, vu_dist);
                assume(count < i32::MAX);
//@ if main
                // [C20.settled_once.no_item_at_max] a queued candidate is never f64::MAX (stated before the push, where the context is small)
                assert(!feq(vu_dist, f64_max()));
//@ fi
//@ after #1 push_fringe_node(&mut count, &mut fringe, u, vu_dist);
                proof {
//@ if main
                   hv = heap_view(&fringe);
                    assert forall|x: usize| #[trigger] in_heap(fringe0, x) implies in_heap(heap_view(&fringe), x) by {
                        lemma_in_heap_insert(fringe0, FringeNode { node_index: u, count: count, distance: fneg(vu_dist) }, x);
                    }
                    lemma_in_heap_insert(fringe0, FringeNode { node_index: u, count: count, distance: fneg(vu_dist) }, u);
//@ fi
                    // the pushed item carries -(dist[v] + cost): it is justified by the relaxed traversal entry
                    let itx = FringeNode { node_index: u, count: count, distance: fneg(vu_dist) };
                    assert(fneg(itx.distance) == vu_dist);
                    assert(extends(*graph, weighted, hist, vpos, itx.node_index, fneg(itx.distance)));
                    assert(item_ok(*graph, weighted, source, hist, itx));
                }
//@ after #2 push_fringe_node(&mut count, &mut fringe, u, vu_dist);
                proof {
//@ if main
                    hv = heap_view(&fringe);
                    assert forall|x: usize| #[trigger] in_heap(fringe0, x) implies in_heap(heap_view(&fringe), x) by {
                        lemma_in_heap_insert(fringe0, FringeNode { node_index: u, count: count, distance: fneg(vu_dist) }, x);
                    }
                    lemma_in_heap_insert(fringe0, FringeNode { node_index: u, count: count, distance: fneg(vu_dist) }, u);
//@ fi
                    // the pushed item carries -(dist[v] + cost): it is justified by the relaxed traversal entry
                    let itx = FringeNode { node_index: u, count: count, distance: fneg(vu_dist) };
                    assert(fneg(itx.distance) == vu_dist);
                    assert(extends(*graph, weighted, hist, vpos, itx.node_index, fneg(itx.distance)));
                    assert(item_ok(*graph, weighted, source, hist, itx));
                }
//@ if main
//@ before Ok(get_shortest_path_infos::<T, A>(dist, &mut paths, false))
    let ghost distf = dist@;
    proof {
        assert forall|x: usize| !in_heap(heap_view(&fringe), x) by {
            if in_heap(heap_view(&fringe), x) {
                let it = choose|it: FringeNode| #[trigger] heap_view(&fringe).count(it) > 0 && it.node_index == x;
                assert(heap_view(&fringe).count(it) <= heap_view(&fringe).len());
            }
        }
        assert(settled_closed(*graph, weighted, source, hist, done, distf));
    }
//@ fi
//@ end


//@ extract static src/algorithms/shortest_path/dijkstra.rs CONTRADICTORY_PATHS_ERROR_MESSAGE
//@ head
#[verifier::external]
//@ end
//@ extract fn src/algorithms/shortest_path/dijkstra.rs get_contractory_paths_error nobody
//@ head
#[verifier::external_body]
//@ rewrite
-> Error
//@ with
-> (e: Error)
//@ spec
    ensures e.kind == ErrorKind::ContradictoryPaths,
//@ end
//@ extract fn src/algorithms/shortest_path/dijkstra.rs add_u_to_v_paths_and_append_v_paths_to_u_paths nobody
//@ head
#[verifier::external_body]
//@ spec
    requires
        u < old(paths)@.len(),
        v < old(paths)@.len(),
    ensures
        final(paths)@.len() == old(paths)@.len(),
//@ end
//@ extract fn src/algorithms/shortest_path/dijkstra.rs convert_shortest_path_info_index_to_t nobody
//@ head
#[verifier::external_body]
//@ end

// A5: the full Dijkstra (path bookkeeping uses closures over &mut) and the index->name translation are left unverified
// R-ext (A5): `new_paths_v.iter_mut().for_each(|pv| pv.push(u))` (closure over &mut): assumed to append u to every path
#[verifier::external_body]
pub fn vpush_to_all(paths: &mut Vec<Vec<usize>>, u: usize)
    ensures final(paths)@.len() == old(paths)@.len(),
{ paths.iter_mut().for_each(|pv| pv.push(u)); }

// the walk that reaches hist[i] extended by one traversal entry arrives at the node of hist[j] with a length d strictly below the
// length hist[j].1 that node was settled with
pub open spec fn shorter_walk_found<T: Eq + PartialOrd + Send + Sync, A: Clone>(g: Graph<T, A>, weighted: bool, source: usize, hist: Seq<(usize, f64)>, i: int, j: int, d: f64) -> bool {
    &&& chain_ok(g, weighted, source, hist)
    &&& 0 <= j < hist.len()
    &&& extends(g, weighted, hist, i, hist[j].0, d)
    &&& flt(d, hist[j].1)
}

pub proof fn lemma_shorter_walk<T: Eq + PartialOrd + Send + Sync, A: Clone>(g: Graph<T, A>, weighted: bool, source: usize, hist: Seq<(usize, f64)>, i: int, u: usize, du: f64, d: f64)
    requires
        chain_ok(g, weighted, source, hist),
        hist.contains((u, du)),
        extends(g, weighted, hist, i, u, d),
        flt(d, du),
    ensures
        exists|hh: Seq<(usize, f64)>, ii: int, jj: int, dd: f64| #[trigger] shorter_walk_found(g, weighted, source, hh, ii, jj, dd),
{
    let j = choose|j: int| 0 <= j < hist.len() && hist[j] == (u, du);
    assert(shorter_walk_found(g, weighted, source, hist, i, j, d));
}

// explicit instantiation marker for the two-index invariant on the assignment history (a bare `hist[i], hist[j]` trigger pair instantiates quadratically)
pub open spec fn hpair(i: int, j: int) -> bool { true }

//@ extract fn src/algorithms/shortest_path/dijkstra.rs dijkstra props=C03,C04,C08,C20
//@ head
//@ if core
#[verifier::exec_allows_no_decreases_clause]
//@ fi
//@ rewrite
) -> Result<Vec<(usize, ShortestPathInfo<usize>)>, Error>
//@ with
) -> (r: Result<Vec<(usize, ShortestPathInfo<usize>)>, Error>)
//@ rewrite count=any
f64::MAX
//@ with
vf64_max()
//@ rewrite
        distance: -0.0,
//@ with
        distance: core::ops::Neg::neg(0.0),
//@ rewrite
let d = -fringe_item.distance;
//@ with
let d = core::ops::Neg::neg(fringe_item.distance);
//@ rewrite
            if cutoff.map_or(false, |c| vu_dist > c) {
                continue;
            }
            if
//@ with
            if (match cutoff { Some(c) => vu_dist > c, None => false }) {
            } else if
//@ rewrite
new_paths_v.iter_mut().for_each(|pv| pv.push(u));
//@ with
vpush_to_all(&mut new_paths_v, u);
//@ rewrite
for adj in graph.get_successor_nodes_by_index(&v)
//@ with
for adj in row_it: graph.get_successor_nodes_by_index(&v)
//@ spec
    requires
        graph.wf_nodes(),
        graph.wf_rows(),
        source < graph.n(),
        target.is_some() ==> target.unwrap() < graph.n(),
    ensures
        // [C04.dijkstra.error_is_contradictory_paths]
        r.is_err() ==> is_err_kind(r, ErrorKind::ContradictoryPaths),
        // [C04.dijkstra.error_only_on_strictly_shorter_walk]
        // ContradictoryPaths is raised only when a walk to an already settled node is strictly shorter than its settled distance
        r.is_err() ==> exists|hist: Seq<(usize, f64)>, i: int, j: int, d: f64| #[trigger] shorter_walk_found(*graph, weighted, source, hist, i, j, d),
        // [C04.dijkstra.sound, C03.consumers.dijkstra_reads_successor_rows]
        r.is_ok() ==> exists|hist: Seq<(usize, f64)>| #[trigger] chain_ok(*graph, weighted, source, hist) && forall|j: int| 0 <= j < r.unwrap()@.len() ==>
            hist.contains(((#[trigger] r.unwrap()@[j]).0, r.unwrap()@[j].1.distance)),
        // [C08.dijkstra.target_stops_the_search]
        // with a target t the search stops as soon as t is settled: t can only be the LAST assignment ever made
        r.is_ok() && target.is_some() ==> exists|hist: Seq<(usize, f64)>| #[trigger] chain_ok(*graph, weighted, source, hist)
            && (forall|j: int| 0 <= j < r.unwrap()@.len() ==> hist.contains(((#[trigger] r.unwrap()@[j]).0, r.unwrap()@[j].1.distance)))
            && (forall|i: int| 0 <= i < hist.len() - 1 ==> (#[trigger] hist[i]).0 != target.unwrap()),
//@ if main
        // [C04.dijkstra.nothing_reachable_is_dropped]
        // without target and cutoff: the source is settled and every traversal entry of a settled node leads to a settled node
        // unless the candidate length through it is not below f64::MAX; every settled node whose length is not f64::MAX is reported
        r.is_ok() && cutoff.is_none() && target.is_none() ==>
            exists|hist: Seq<(usize, f64)>, done: Set<usize>, dist: Seq<f64>| #[trigger] settled_closed(*graph, weighted, source, hist, done, dist)
                && chain_ok(*graph, weighted, source, hist) && dist.len() == graph.n()
                && (forall|k: int| 0 <= k < dist.len() && !feq(#[trigger] dist[k], f64_max()) ==> exists|j: int| 0 <= j < r.unwrap()@.len() && (#[trigger] r.unwrap()@[j]).0 == k),
//@ fi
        // [C04.dijkstra.reported_in_range]
        r.is_ok() ==> forall|j: int| 0 <= j < r.unwrap()@.len() ==> (#[trigger] r.unwrap()@[j]).0 < graph.n(),
        // [C08.dijkstra.cutoff_respected]
        // with a cutoff c every reported node other than the source has a distance that is not greater than c
        r.is_ok() ==> forall|j: int| 0 <= j < r.unwrap()@.len() ==> (#[trigger] r.unwrap()@[j]).0 == source || within_cutoff(cutoff, r.unwrap()@[j].1.distance),
        // [C08.dijkstra.no_paths_unless_asked]
        r.is_ok() && !with_paths ==> forall|j: int| 0 <= j < r.unwrap()@.len() ==> (#[trigger] r.unwrap()@[j]).1.paths@.len() == 0,
//@ before while let Some(fringe_item) = fringe.pop() {
    let ghost mut hist: Seq<(usize, f64)> = Seq::empty();
//@ if main
    let ghost mut done: Set<usize> = Set::empty();
    let ghost mut hv: vstd::multiset::Multiset<FringeNode> = heap_view(&fringe);
    let ghost full: bool = cutoff.is_none() && target.is_none();
//@ fi
    proof {
        let it0 = FringeNode { node_index: source, count: 0, distance: fneg(0.0f64) };
        assert(heap_view(&fringe) =~= vstd::multiset::Multiset::<FringeNode>::empty().insert(it0));
//@ if main
        assert(heap_view(&fringe).count(it0) > 0);
        assert(in_heap(heap_view(&fringe), source));
        axiom_f64_zero_not_max();
        axiom_f64_max_and_zero_le_max();
        assert(fneg(it0.distance) == 0.0f64);
//@ fi
    }
//@ loop 1
        invariant_except_break
            // [C08.dijkstra.search_continues_only_while_target_unsettled]
            target.is_some() ==> forall|i: int| 0 <= i < hist.len() ==> (#[trigger] hist[i]).0 != target.unwrap(),
        invariant
            // [C04.dijkstra.invariants, C04.dijkstra.settled_nodes_are_expanded_once, C08.dijkstra.cutoff_prunes_every_push]
            graph.wf_nodes(),
            graph.wf_rows(),
            source < graph.n(),
            target.is_some() ==> target.unwrap() < graph.n(),
            dist@.len() == graph.n(),
            seen@.len() == graph.n(),
            with_paths ==> paths@.len() == graph.n(),
            !with_paths ==> paths@.len() == 0,
            forall|it: FringeNode| #[trigger] heap_view(&fringe).count(it) > 0 ==> item_ok(*graph, weighted, source, hist, it),
            chain_ok(*graph, weighted, source, hist),
            forall|u: int| reported(dist@, u) ==> hist.contains((u as usize, #[trigger] dist@[u])),
            forall|j: int| 0 <= j < hist.len() ==> (#[trigger] hist[j]).0 < dist@.len() && (feq(hist[j].1, f64_max()) || dist@[hist[j].0 as int] == hist[j].1),
            forall|i: int, j: int| #[trigger] hpair(i, j) ==> (0 <= i < j < hist.len() && hist[i].0 == hist[j].0 ==> feq(hist[i].1, f64_max())),
            forall|it: FringeNode| #[trigger] heap_view(&fringe).count(it) > 0 ==> (it.node_index == source && fneg(it.distance) == 0.0f64) || within_cutoff(cutoff, fneg(it.distance)),
            forall|j: int| 0 <= j < hist.len() ==> ((#[trigger] hist[j]).0 == source && hist[j].1 == 0.0f64) || within_cutoff(cutoff, hist[j].1),
//@ if main
            // [C04.dijkstra.nothing_discovered_is_dropped]
            hv == heap_view(&fringe),
            full == (cutoff.is_none() && target.is_none()),
            full ==> forall|w: int| 0 <= w < graph.n() ==> #[trigger] seen@[w] == f64_max() || done.contains(w as usize) || in_heap(heap_view(&fringe), w as usize),
            forall|w: int| 0 <= w < graph.n() && !feq(#[trigger] dist@[w], f64_max()) ==> done.contains(w as usize),
            forall|w: usize| #[trigger] done.contains(w) ==> w < graph.n() && exists|d: f64| #[trigger] hist.contains((w, d)) && (feq(d, f64_max()) || dist@[w as int] == d),
            full ==> closed_upto(*graph, weighted, hist, done, heap_view(&fringe), -1, 0),
            full ==> done.contains(source) || in_heap(heap_view(&fringe), source),
            // [C20.dijkstra.settled_once] a settled node carries a distance other than f64::MAX, so the `continue` guard skips it for good
            forall|w: usize| #[trigger] done.contains(w) ==> !feq(dist@[w as int], f64_max()),
            forall|u: int| 0 <= u < graph.n() ==> fle(#[trigger] seen@[u], f64_max()),
            forall|it: FringeNode| #[trigger] heap_view(&fringe).count(it) > 0 ==> !feq(fneg(it.distance), f64_max()),
            done.len() <= graph.n(),
//@ fi
        ensures
            target.is_some() ==> forall|i: int| 0 <= i < hist.len() - 1 ==> (#[trigger] hist[i]).0 != target.unwrap(),
//@ if main
            full ==> heap_view(&fringe).len() == 0,
        // [C20.dijkstra.terminates] a step settles a node (each at most once, there are n) or only takes an item off the heap
        decreases graph.n() - done.len(), heap_view(&fringe).len(),
//@ before let d = -fringe_item.distance;
        let ghost heap0 = hv;
        proof {
            hv = heap_view(&fringe);
            assert(heap0.count(fringe_item) > 0);
            assert(hv == heap0.remove(fringe_item));
            assert forall|w: usize| w != fringe_item.node_index && #[trigger] in_heap(heap0, w) implies in_heap(heap_view(&fringe), w) by {
                lemma_in_heap_remove(heap0, fringe_item, w);
            }
        }
//@ before #1 continue;
            proof {
                assert(done.contains(v));
            }
//@ fi
//@ before dist[v] = d;
        let ghost dist0 = dist@;
        // a node is settled only while it is unsettled (the `continue` guard above)
        assert(feq(dist@[v as int], f64_max()));
//@ after dist[v] = d;
        proof {
            let ghost h0 = hist;
            hist = hist.push((v, d));
            assert(item_ok(*graph, weighted, source, h0, fringe_item));
            lemma_chain_push(*graph, weighted, source, h0, v, d);
            assert forall|it: FringeNode| #[trigger] heap_view(&fringe).count(it) > 0 implies item_ok(*graph, weighted, source, hist, it) by {
                lemma_item_mono(*graph, weighted, source, h0, (v, d), it);
            }
            lemma_reported_push(dist0, dist@, h0, v, d);
            assert forall|i: int, j: int| #[trigger] hpair(i, j) implies (0 <= i < j < hist.len() && hist[i].0 == hist[j].0 ==> feq(hist[i].1, f64_max())) by {
                if !(0 <= i < j < hist.len() && hist[i].0 == hist[j].0) {
                } else if j == h0.len() {
                    assert(hist[i] == h0[i]);
                    assert(feq(h0[i].1, f64_max()) || dist0[h0[i].0 as int] == h0[i].1);
                } else {
                    assert(hist[i] == h0[i] && hist[j] == h0[j]);
                }
            }
//@ if main
            let ghost done0 = done;
            assert(!done0.contains(v));
            done = done.insert(v);
            lemma_bounded_usize_set_len(done, graph.n());
            assert(hist[h0.len() as int] == (v, d));
            assert forall|w: usize| #[trigger] done.contains(w) implies w < graph.n() && exists|dd: f64| #[trigger] hist.contains((w, dd)) && (feq(dd, f64_max()) || dist@[w as int] == dd) by {
                if w != v {
                    let dd = choose|dd: f64| #[trigger] h0.contains((w, dd)) && (feq(dd, f64_max()) || dist0[w as int] == dd);
                    let j = choose|j: int| 0 <= j < h0.len() && h0[j] == (w, dd);
                    assert(hist[j] == h0[j]);
                    assert(hist.contains((w, dd)));
                } else {
                    assert(hist.contains((v, d)));
                }
            }
            assert forall|x: usize, k: int| #[trigger] too_long(*graph, weighted, h0, x, k) implies too_long(*graph, weighted, hist, x, k) by {
                lemma_too_long_mono(*graph, weighted, h0, (v, d), x, k);
            }
            assert(full ==> closed_upto(*graph, weighted, hist, done, heap_view(&fringe), v as int, 0));
//@ fi
        }
        let ghost vpos: int = hist.len() - 1;
//@ loop 2
            invariant
                v < graph.n(),
                0 <= vpos < hist.len() && hist[vpos] == (v, dist@[v as int]),
                target.is_some() ==> forall|i: int| 0 <= i < hist.len() ==> (#[trigger] hist[i]).0 != target.unwrap(),
                graph.wf_nodes(),
                graph.wf_rows(),
                source < graph.n(),
                target.is_some() ==> target.unwrap() < graph.n(),
                dist@.len() == graph.n(),
                seen@.len() == graph.n(),
                with_paths ==> paths@.len() == graph.n(),
                !with_paths ==> paths@.len() == 0,
                forall|it: FringeNode| #[trigger] heap_view(&fringe).count(it) > 0 ==> item_ok(*graph, weighted, source, hist, it),
                chain_ok(*graph, weighted, source, hist),
                forall|u: int| reported(dist@, u) ==> hist.contains((u as usize, #[trigger] dist@[u])),
                forall|it: FringeNode| #[trigger] heap_view(&fringe).count(it) > 0 ==> (it.node_index == source && fneg(it.distance) == 0.0f64) || within_cutoff(cutoff, fneg(it.distance)),
//@ if main
                hv == heap_view(&fringe),
                full == (cutoff.is_none() && target.is_none()),
                done.contains(v),
                full ==> forall|w: int| 0 <= w < graph.n() ==> #[trigger] seen@[w] == f64_max() || done.contains(w as usize) || in_heap(heap_view(&fringe), w as usize),
                forall|w: int| 0 <= w < graph.n() && !feq(#[trigger] dist@[w], f64_max()) ==> done.contains(w as usize),
                full ==> closed_upto(*graph, weighted, hist, done, heap_view(&fringe), v as int, row_it.index@ as int),
                full ==> done.contains(source) || in_heap(heap_view(&fringe), source),
                forall|w: usize| #[trigger] done.contains(w) ==> !feq(dist@[w as int], f64_max()),
                forall|u: int| 0 <= u < graph.n() ==> fle(#[trigger] seen@[u], f64_max()),
                forall|it: FringeNode| #[trigger] heap_view(&fringe).count(it) > 0 ==> !feq(fneg(it.distance), f64_max()),
                done.len() <= graph.n(),
//@ fi
//@ if main
//@ before let vu_dist = dist[v] + cost;
            let ghost fringe0 = heap_view(&fringe);
//@ fi
//@ after let vu_dist = dist[v] + cost;
            proof {
//@ if main
                assert(hist.contains((v, dist@[v as int])));
                assert(vu_dist == fadd(dist@[v as int], step_cost(*graph, weighted, v as int, row_it.index@ as int)));
                axiom_f64_eq_max_not_below(vu_dist);
                axiom_f64_lt_below_max(vu_dist, seen@[u as int]);
                axiom_f64_below_max_facts(vu_dist);
                if !flt(vu_dist, f64_max()) {
                    assert(too_long(*graph, weighted, hist, v, row_it.index@ as int));
                }
//@ fi
                assert(graph.successors_vec@[v as int]@[row_it.index@] == *adj);
                assert(extends(*graph, weighted, hist, vpos, u, vu_dist));
                assert(u < graph.n());
                assert(fneg(fneg(vu_dist)) == vu_dist);
                assert(extends(*graph, weighted, hist, vpos, u, fneg(fneg(vu_dist))));
            }
//@ before #1 push_fringe_node(&mut count, &mut fringe, u, vu_dist);
                    // machine arithmetic treated as mathematical: the push counter is an i32 that would need > 2^31 heap pushes to overflow
                    assume(count < i32::MAX);
//@ before #2 push_fringe_node(&mut count, &mut fringe, u, vu_dist);
                    assume(count < i32::MAX);
//@ after #1 push_fringe_node(&mut count, &mut fringe, u, vu_dist);
                    proof {
//@ if main
                       hv = heap_view(&fringe);
                        assert forall|x: usize| #[trigger] in_heap(fringe0, x) implies in_heap(heap_view(&fringe), x) by {
                            lemma_in_heap_insert(fringe0, FringeNode { node_index: u, count: count, distance: fneg(vu_dist) }, x);
                        }
                        lemma_in_heap_insert(fringe0, FringeNode { node_index: u, count: count, distance: fneg(vu_dist) }, u);
                        assert(!feq(vu_dist, f64_max()));
                        assert forall|it: FringeNode| #[trigger] heap_view(&fringe).count(it) > 0 implies !feq(fneg(it.distance), f64_max()) by {
                            if it != (FringeNode { node_index: u, count: count, distance: fneg(vu_dist) }) { assert(fringe0.count(it) > 0); }
                        }
//@ fi
                        let itx = FringeNode { node_index: u, count: count, distance: fneg(vu_dist) };
                        assert(fneg(itx.distance) == vu_dist);
                        assert(extends(*graph, weighted, hist, vpos, itx.node_index, fneg(itx.distance)));
                        assert(item_ok(*graph, weighted, source, hist, itx));
                        assert(within_cutoff(cutoff, vu_dist));
                    }
//@ after #2 push_fringe_node(&mut count, &mut fringe, u, vu_dist);
                    proof {
//@ if main
                        hv = heap_view(&fringe);
                        assert forall|x: usize| #[trigger] in_heap(fringe0, x) implies in_heap(heap_view(&fringe), x) by {
                            lemma_in_heap_insert(fringe0, FringeNode { node_index: u, count: count, distance: fneg(vu_dist) }, x);
                        }
                        lemma_in_heap_insert(fringe0, FringeNode { node_index: u, count: count, distance: fneg(vu_dist) }, u);
                        assert(!feq(vu_dist, f64_max()));
                        assert forall|it: FringeNode| #[trigger] heap_view(&fringe).count(it) > 0 implies !feq(fneg(it.distance), f64_max()) by {
                            if it != (FringeNode { node_index: u, count: count, distance: fneg(vu_dist) }) { assert(fringe0.count(it) > 0); }
                        }
//@ fi
                        let itx = FringeNode { node_index: u, count: count, distance: fneg(vu_dist) };
                        assert(fneg(itx.distance) == vu_dist);
                        assert(extends(*graph, weighted, hist, vpos, itx.node_index, fneg(itx.distance)));
                        assert(item_ok(*graph, weighted, source, hist, itx));
                        assert(within_cutoff(cutoff, vu_dist));
                    }
//@ if main
//@ before Ok(get_shortest_path_infos::<T, A>(
    let ghost distf = dist@;
    proof {
        if full {
            assert forall|x: usize| !in_heap(heap_view(&fringe), x) by {
                if in_heap(heap_view(&fringe), x) {
                    let it = choose|it: FringeNode| #[trigger] heap_view(&fringe).count(it) > 0 && it.node_index == x;
                    assert(heap_view(&fringe).count(it) <= heap_view(&fringe).len());
                }
            }
            assert(settled_closed(*graph, weighted, source, hist, done, distf));
        }
    }
//@ fi
//@ if main
//@ before break;
            proof {
                assert(!full);
            }
//@ fi
//@ before return Err(get_contractory_paths_error());
                    proof {
                        assert(reported(dist@, u as int));
                        lemma_shorter_walk(*graph, weighted, source, hist, vpos, u, dist@[u as int], vu_dist);
                    }
//@ end

//@ extract fn src/algorithms/shortest_path/dijkstra.rs convert_shortest_path_info_vec_to_t_map nobody
//@ head
#[verifier::external_body]
//@ rewrite
) -> HashMap<T, ShortestPathInfo<T>>
//@ with
) -> (r: HashMap<T, ShortestPathInfo<T>>)
//@ spec
    requires
        graph.wf_nodes(),
//@ end

//@ extract fn src/algorithms/shortest_path/dijkstra.rs single_source props=C08,C20
//@ rewrite
) -> Result<HashMap<T, ShortestPathInfo<T>>, Error>
//@ with
) -> (r: Result<HashMap<T, ShortestPathInfo<T>>, Error>)
//@ spec
    requires
        graph.wf_nodes(),
        graph.wf_rows(),
    ensures
        // [C08.single_source.error_channel]
        !graph.knows(source) ==> is_err_kind(r, ErrorKind::NodeNotFound),
        graph.knows(source) && target.is_some() && !graph.knows(target.unwrap()) ==> is_err_kind(r, ErrorKind::NodeNotFound),
        // [C08.single_source.fast_path_never_errs]
        graph.knows(source) && target.is_none() && cutoff.is_none() && !first_only && !with_paths ==> r.is_ok(),
        // [C08.single_source.errors_are_node_not_found_or_contradictory_paths]
        r.is_err() ==> is_err_kind(r, ErrorKind::NodeNotFound) || is_err_kind(r, ErrorKind::ContradictoryPaths),
        r.is_err() && graph.knows(source) && (target.is_some() ==> graph.knows(target.unwrap())) ==> is_err_kind(r, ErrorKind::ContradictoryPaths),
//@ end

// A4: assumed contract on std: <[T]>::contains is membership under the element type's == (spec equality for the name type, A2)
pub assume_specification<T: std::cmp::PartialEq> [ <[T]>::contains ] (s: &[T], x: &T) -> (r: bool)
    ensures
        T::obeys_eq_spec() && (forall|a: T, b: T| #[trigger] a.eq_spec(&b) == (a == b)) ==> r == s@.contains(*x);

// some path of the list has x strictly inside (not first, not last)
pub open spec fn has_interior<T>(paths: Seq<Vec<T>>, x: T) -> bool {
    exists|p: int, i: int| 0 <= p < paths.len() && 0 < i < paths[p]@.len() - 1 && #[trigger] paths[p]@[i] == x
}

impl<T> ShortestPathInfo<T> {
//@ extract fn src/algorithms/shortest_path/shortest_path_info.rs contains_path_through_node props=C08,C20 ty=ShortestPathInfo
//@ rewrite
-> bool
//@ with
-> (r: bool)
//@ rewrite
for path in &self.paths
//@ with
for path in pit: &self.paths
//@ rewrite count=opt
                continue;
            }
            if
//@ with
            } else if
//@ spec
    requires
        T::obeys_eq_spec(),
        forall|a: T, b: T| #[trigger] a.eq_spec(&b) == (a == b),
    ensures
        // [C08.interior.filter]
        r == has_interior(self.paths@, node_name),
//@ loop 1
            invariant
                T::obeys_eq_spec(),
                forall|a: T, b: T| #[trigger] a.eq_spec(&b) == (a == b),
                forall|p: int, i: int| 0 <= p < pit.index@ && 0 < i < self.paths@[p]@.len() - 1 ==> #[trigger] self.paths@[p]@[i] != node_name,
//@ before if path.len() <= 2 {
            proof {
                // the interior of the path is the sub-range the code searches
                assert(*path == self.paths@[pit.index@]);
                if path@.len() > 2 {
                    let inner = path@.subrange(1, path@.len() - 1);
                    assert forall|i: int| 0 < i < path@.len() - 1 implies #[trigger] path@[i] == inner[i - 1] by {}
                    assert forall|k: int| 0 <= k < inner.len() implies #[trigger] inner[k] == path@[k + 1] by {}
                }
            }
//@ end
}


// ---- multi_source: guards, then one single_source per source (sequentially or through rayon) ----
//@ extract const src/algorithms/shortest_path/dijkstra.rs SERIAL_TO_PARALLEL_THRESHOLD
//@ end
#[verifier::external_body]
pub fn vrayon_threads() -> usize { unimplemented!() }
// the optional target, when given, is a node of the graph (closure specifications may only borrow the captured option)
pub open spec fn opt_known<T: Eq + PartialOrd + Send + Sync, A: Clone>(g: &Graph<T, A>, t: &Option<T>) -> bool {
    t.is_some() ==> g.knows(t.unwrap())
}
// R-ext (A5): `v.into_par_iter().map(f).collect::<Result<Vec<_>, Error>>()`, the same over `into_iter()`, and
// `pairs.into_iter().collect::<HashMap>()` target local declarations with ASSUMED contracts: Ok(all results in order) if f returned
// Ok for every element, otherwise one of the errors f returned; the closures f stay in place and are verified
pub open spec fn try_all<I, O, F: Fn(I) -> Result<O, Error>>(v: Seq<I>, f: F, r: Result<Vec<O>, Error>) -> bool {
    &&& r.is_ok() ==> r.unwrap()@.len() == v.len() && forall|i: int| 0 <= i < v.len() ==> call_ensures(f, (v[i],), Ok(#[trigger] r.unwrap()@[i]))
    &&& match r { Err(e) => exists|i: int| 0 <= i < v.len() && call_ensures(f, (#[trigger] v[i],), Err(e)), Ok(_) => true }
}
#[verifier::external_body]
pub fn vpar_try_map_collect<I: Send, O: Send, F: Fn(I) -> Result<O, Error> + Sync + Send>(v: Vec<I>, f: F) -> (r: Result<Vec<O>, Error>)
    requires forall|i: int| 0 <= i < v@.len() ==> call_requires(f, (#[trigger] v@[i],)),
    ensures try_all(v@, f, r),
{ unimplemented!() }
#[verifier::external_body]
pub fn vtry_map_collect<I, O, F: Fn(I) -> Result<O, Error>>(v: Vec<I>, f: F) -> (r: Result<Vec<O>, Error>)
    requires forall|i: int| 0 <= i < v@.len() ==> call_requires(f, (#[trigger] v@[i],)),
    ensures try_all(v@, f, r),
{ unimplemented!() }
#[verifier::external_body]
pub fn vpairs_to_hashmap<K: Eq + Hash, V>(v: Vec<(K, V)>) -> (r: HashMap<K, V>)
    ensures forall|i: int| 0 <= i < v@.len() ==> r@.contains_key((#[trigger] v@[i]).0),
{ v.into_iter().collect() }
// what one closure call yields: the source paired with its map, or single_source's error (never NodeNotFound: names were checked)
pub open spec fn source_result_ok<T, V>(source: T, o: Result<(T, V), Error>) -> bool {
    &&& o.is_ok() ==> o.unwrap().0 == source
    &&& match o { Err(e) => e.kind == ErrorKind::ContradictoryPaths, Ok(_) => true }
}

//@ extract fn src/algorithms/shortest_path/dijkstra.rs multi_source props=C08,C20
//@ rewrite
) -> Result<HashMap<T, HashMap<T, ShortestPathInfo<T>>>, Error>
//@ with
) -> (r: Result<HashMap<T, HashMap<T, ShortestPathInfo<T>>>, Error>)
//@ rewrite
rayon::current_num_threads()
//@ with
vrayon_threads()
//@ rewrite
true => sources
            .into_par_iter()
            .map(|source| {
//@ with
true => vpar_try_map_collect(sources, |source: T| -> (o: Result<(T, HashMap<T, ShortestPathInfo<T>>), Error>)
                requires graph.knows(source), graph.wf_nodes(), graph.wf_rows(), opt_known(graph, &target),
                ensures source_result_ok(source, o),
            {
//@ rewrite
            })
            .collect::<Result<Vec<_>, Error>>()?,
        false => sources
            .into_iter()
            .map(|source| {
//@ with
            })?,
        false => vtry_map_collect(sources, |source: T| -> (o: Result<(T, HashMap<T, ShortestPathInfo<T>>), Error>)
                requires graph.knows(source), graph.wf_nodes(), graph.wf_rows(), opt_known(graph, &target),
                ensures source_result_ok(source, o),
            {
//@ rewrite
            })
            .collect::<Result<Vec<_>, Error>>()?,
    };
    Ok(shortest_paths.into_iter().collect())
//@ with
            })?,
    };
    let ghost spv = shortest_paths@;
    let out = vpairs_to_hashmap(shortest_paths);
    proof {
        assert forall|i: int| 0 <= i < sv.len() implies out@.contains_key(#[trigger] sv[i]) by {
            assert(spv[i].0 == sv[i]);
        }
    }
    Ok(out)
//@ before let parallel =
    let ghost sv = sources@;
//@ spec
    requires
        graph.wf_nodes(),
        graph.wf_rows(),
    ensures
        // [C08.multi_source.error_channel]
        !(forall|i: int| 0 <= i < sources@.len() ==> graph.knows(#[trigger] sources@[i])) ==> is_err_kind(r, ErrorKind::NodeNotFound),
        target.is_some() && !graph.knows(target.unwrap()) ==> is_err_kind(r, ErrorKind::NodeNotFound),
        // [C08.multi_source.a_failing_search_is_reported_not_unwrapped]
        r.is_err() ==> is_err_kind(r, ErrorKind::NodeNotFound) || is_err_kind(r, ErrorKind::ContradictoryPaths),
        // [C08.multi_source.one_entry_per_source]
        r.is_ok() ==> forall|i: int| 0 <= i < sources@.len() ==> r.unwrap()@.contains_key(#[trigger] sources@[i]),
//@ end

// ---- all_pairs: one search per node through a lazily mapped range (sequential) or rayon (parallel) ----
// R-ext (A5): `(0..n).collect::<Vec<_>>().into_iter().map(f)` targets a local declaration returning the same opaque iterator type,
// ASSUMED to call f on 0..n; the closure f stays in place and is verified
#[verifier::external_body]
pub fn vlazy_range_map<'a, X: 'a, F: FnMut(usize) -> X + 'a>(n: usize, f: F) -> (r: impl Iterator<Item = X> + 'a)
    requires forall|i: usize| i < n ==> call_requires(f, (i,)),
{ (0..n).collect::<Vec<_>>().into_iter().map(f) }

//@ extract fn src/algorithms/shortest_path/dijkstra.rs all_pairs_iter props=C08,C20
//@ rewrite
let x = (0..graph.number_of_nodes())
        .collect::<Vec<_>>()
        .into_iter()
        .map(move |node_index| {
//@ with
let x = vlazy_range_map(graph.number_of_nodes(), move |node_index: usize| -> (o: Result<(usize, Vec<(usize, ShortestPathInfo<usize>)>), Error>)
            requires node_index < graph.n(), graph.wf_nodes(), graph.wf_rows(), target_index.is_some() ==> target_index.unwrap() < graph.n(),
            ensures match o { Err(e) => e.kind == ErrorKind::ContradictoryPaths, Ok(_) => true },
        {
//@ spec
    requires
        graph.wf_nodes(),
        graph.wf_rows(),
        // the target, when given, must be a node: its position is looked up with unwrap()
        opt_known(graph, &target),
//@ end

// R-ext (A5) for all_pairs: the rayon twin of all_pairs_iter (its return type names rayon types, which cannot be linked here) together
// with its collect is ASSUMED under the precondition proved necessary for the sequential twin; `iterator.collect()` and the final
// index -> name conversion (tuple-pattern closure) are ASSUMED total
#[verifier::external_body]
pub fn vall_pairs_par_collect<T, A>(graph: &Graph<T, A>, weighted: bool, target: Option<T>, cutoff: Option<f64>, first_only: bool, with_paths: bool) -> (r: Result<Vec<(usize, Vec<(usize, ShortestPathInfo<usize>)>)>, Error>)
    where T: Hash + Eq + Clone + Ord + Display + Send + Sync, A: Clone + Send + Sync,
    requires graph.wf_nodes(), graph.wf_rows(), opt_known(graph, &target),
    ensures match r { Err(e) => e.kind == ErrorKind::ContradictoryPaths, Ok(_) => true },
{ unimplemented!() }
// `iterator.collect::<Result<Vec<_>, Error>>()`: ASSUMED to return Ok(all items) or one of the errors the iterator yields; nothing is
// known here about the items of an opaque iterator, so the error kind is not constrained on this path
#[verifier::external_body]
pub fn vcollect_results<X, I: Iterator<Item = Result<X, Error>>>(it: I) -> (r: Result<Vec<X>, Error>)
{ it.collect() }
#[verifier::external_body]
pub fn vconvert_all_pairs<T, A>(graph: &Graph<T, A>, v: Vec<(usize, Vec<(usize, ShortestPathInfo<usize>)>)>) -> (r: HashMap<T, HashMap<T, ShortestPathInfo<T>>>)
    where T: Hash + Eq + Clone + Ord + Display + Send + Sync, A: Clone + Send + Sync,
    requires graph.wf_nodes(),
{ unimplemented!() }

//@ extract fn src/algorithms/shortest_path/dijkstra.rs all_pairs props=C08,C20
//@ rewrite
) -> Result<HashMap<T, HashMap<T, ShortestPathInfo<T>>>, Error>
//@ with
) -> (r: Result<HashMap<T, HashMap<T, ShortestPathInfo<T>>>, Error>)
//@ rewrite
rayon::current_num_threads()
//@ with
vrayon_threads()
//@ rewrite
let iterator =
                all_pairs_par_iter(graph, weighted, target, cutoff, first_only, with_paths);
            iterator.collect::<Result<Vec<(usize, Vec<(usize, ShortestPathInfo<usize>)>)>, Error>>()?
//@ with
vall_pairs_par_collect(graph, weighted, target, cutoff, first_only, with_paths)?
//@ rewrite
with_paths);
            iterator.collect::<Result<Vec<(usize, Vec<(usize, ShortestPathInfo<usize>)>)>, Error>>()?
        }
    };
//@ with
with_paths);
            vcollect_results(iterator)?
        }
    };
//@ rewrite
let x = shortest_paths_vecs
        .into_iter()
        .map(|(source, shortest_paths)| {
            let source_name = graph.get_node_by_index(&source).unwrap().name.clone();
            let shortest_paths_t = convert_shortest_path_info_vec_to_t_map(graph, shortest_paths);
            (source_name, shortest_paths_t)
        })
        .collect();
//@ with
let x = vconvert_all_pairs(graph, shortest_paths_vecs);
//@ spec
    requires
        graph.wf_nodes(),
        graph.wf_rows(),
        graph.wf_estore(),
    ensures
        // [C08.all_pairs.error_channel]
        // an unknown target is answered with NodeNotFound before any search (unless the weighted-graph guard fails first)
        target.is_some() && !graph.knows(target.unwrap()) ==> r.is_err(),
        target.is_some() && !graph.knows(target.unwrap()) && !weighted ==> is_err_kind(r, ErrorKind::NodeNotFound),
//@ end

// R-ext (A5): `pairs.into_iter().flat_map(|x| x.1.into_iter().map(|y| y.1))` (nested hash-map iteration): ASSUMED to hand over the infos of all entries;
// `.filter(f).collect()` on owned items: ASSUMED to keep, in order, exactly the items for which f answers true - f stays in place and is verified
pub open spec fn has_interior_of<T>(paths: Seq<Vec<T>>, x: &T) -> bool { has_interior(paths, *x) }
#[verifier::external_body]
pub fn vflatten_infos<T: Eq + Hash>(pairs: HashMap<T, HashMap<T, ShortestPathInfo<T>>>) -> (r: Vec<ShortestPathInfo<T>>)
{ pairs.into_iter().flat_map(|x| x.1.into_iter().map(|y| y.1)).collect() }
pub open spec fn owned_filter_picks<X, F: FnMut(&X) -> bool>(v: Seq<X>, r: Seq<X>, keep: Seq<int>, f: F) -> bool {
    &&& keep.len() == r.len()
    &&& forall|a: int, b: int| 0 <= a < b < keep.len() ==> keep[a] < keep[b]
    &&& forall|k: int| 0 <= k < keep.len() ==> 0 <= #[trigger] keep[k] < v.len() && r[k] == v[keep[k]] && call_ensures(f, (&v[keep[k]],), true)
    &&& forall|i: int| 0 <= i < v.len() ==> keep.contains(i) || call_ensures(f, (&#[trigger] v[i],), false)
}
#[verifier::external_body]
pub fn vfilter_owned<X, F: FnMut(&X) -> bool>(v: Vec<X>, f: F) -> (r: Vec<X>)
    requires forall|i: int| 0 <= i < v@.len() ==> call_requires(f, (&#[trigger] v@[i],)),
    ensures exists|keep: Seq<int>| #[trigger] owned_filter_picks(v@, r@, keep, f),
{ v.into_iter().filter(f).collect() }

//@ extract fn src/algorithms/shortest_path/dijkstra.rs get_all_shortest_paths_involving props=C08,C20
//@ rewrite
) -> Vec<ShortestPathInfo<T>>
//@ with
) -> (r: Vec<ShortestPathInfo<T>>)
//@ rewrite
Ok(pairs) => pairs
            .into_iter()
            .flat_map(|x| x.1.into_iter().map(|y| y.1))
            .filter(|x|
//@ with
Ok(pairs) => {
            let all = vflatten_infos(pairs);
            let ghost allv = all@;
            let through = |x: &ShortestPathInfo<T>| -> (b: bool)
                requires T::obeys_eq_spec(), forall|a: T, b: T| #[trigger] a.eq_spec(&b) == (a == b),
                ensures b == has_interior_of(x.paths@, &node_name),
            {
//@ rewrite
)
            .collect(),
    }
//@ with
 };
            let out = vfilter_owned(all, through);
            proof {
                let keep = choose|keep: Seq<int>| #[trigger] owned_filter_picks(allv, out@, keep, through);
                assert(owned_filter_picks(allv, out@, keep, through));
                assert forall|i: int| 0 <= i < out@.len() implies has_interior((#[trigger] out@[i]).paths@, node_name) by {
                    assert(call_ensures(through, (&allv[keep[i]],), true));
                }
            }
            out
        }
    }
//@ spec
    requires
        graph.wf_nodes(), graph.wf_rows(), graph.wf_estore(),
    ensures
        // [C08.involving.every_returned_info_has_the_node_strictly_inside_a_path]
        forall|i: int| 0 <= i < r@.len() ==> has_interior((#[trigger] r@[i]).paths@, node_name),
//@ end
} // verus!
fn main() {}
