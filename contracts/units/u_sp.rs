//@ unit u_sp
//@ depends u_graph
// C04 / C08: the distance-only Dijkstra kernel, option dispatch and the single_source error channel (dijkstra.rs).
#![feature(allocator_api)]
#![allow(unused_imports)]
use vstd::prelude::*;
use vstd::std_specs::cmp::*;
use vstd::std_specs::hash::EntrySpecFns;
use std::collections::{HashMap, HashSet, BinaryHeap};
use std::sync::Arc;
use std::hash::Hash;
use std::fmt::Display;
use std::cmp::Ordering;
use std::mem;
verus! {
//@ include float.rs
//@ include std_axioms.rs
broadcast use {f64ax::group_f64_axioms, dispax::axiom_display_total, cloneax::axiom_clone_eq};
//@ include types.rs
//@ include graph_spec.rs
//@ include heap.rs
//@ include-assumed adjvec.rs u_graph
//@ include-assumed graph_fns.rs u_graph

//@ extract struct src/algorithms/shortest_path/shortest_path_info.rs ShortestPathInfo
//@ end

//@ extract struct src/algorithms/shortest_path/dijkstra.rs FringeNode pubfields
//@ rewrite
struct FringeNode
//@ with
pub struct FringeNode
//@ end

impl Ord for FringeNode {
//@ extract fn src/algorithms/shortest_path/dijkstra.rs cmp ty=FringeNode props=C20
//@ end
}
impl PartialOrd for FringeNode {
//@ extract fn src/algorithms/shortest_path/dijkstra.rs partial_cmp ty=FringeNode props=C20
//@ end
}
impl PartialEq for FringeNode {
//@ extract fn src/algorithms/shortest_path/dijkstra.rs eq ty=FringeNode props=C20
//@ end
}
impl Eq for FringeNode {}
// vstd's model of the comparison traits: nothing is claimed to vstd about this order (obeys_* = false); what the
// heap needs from it (smallest real distance pops first) is the subject of the Kani lemmas C04.fringe.*
impl vstd::std_specs::cmp::PartialEqSpecImpl for FringeNode {
    open spec fn obeys_eq_spec() -> bool { false }
    open spec fn eq_spec(&self, other: &FringeNode) -> bool { true }
}
impl vstd::std_specs::cmp::PartialOrdSpecImpl for FringeNode {
    open spec fn obeys_partial_cmp_spec() -> bool { false }
    open spec fn partial_cmp_spec(&self, other: &FringeNode) -> Option<Ordering> { None }
}
impl vstd::std_specs::cmp::OrdSpecImpl for FringeNode {
    open spec fn obeys_cmp_spec() -> bool { false }
    open spec fn cmp_spec(&self, other: &FringeNode) -> Ordering { Ordering::Equal }
}

//@ extract fn src/algorithms/shortest_path/dijkstra.rs can_use_basic props=C08,C20
//@ rewrite
) -> bool
//@ with
) -> (r: bool)
//@ spec
    ensures
        // [C08.dispatch.fast_path_iff_no_options]
        r == (target.is_none() && cutoff.is_none() && !first_only && !with_paths),
//@ end


// ---- A5: graphrs functions left unverified (iterator pipelines / closures over &mut / rayon), with ASSUMED contracts ----
//@ extract fn src/algorithms/shortest_path/dijkstra.rs get_shortest_path_infos nobody
//@ head
#[verifier::external_body]
//@ rewrite
) -> Vec<(usize, ShortestPathInfo<usize>)>
//@ with
) -> (r: Vec<(usize, ShortestPathInfo<usize>)>)
//@ spec
    requires
        with_paths ==> old(paths)@.len() == distances@.len(),
    ensures
        // one entry (k, distances[k]) for every k whose distance is not f64::MAX, in increasing k; no other entry
        forall|j: int| 0 <= j < r@.len() ==> (#[trigger] r@[j]).0 < distances@.len() && !feq(distances@[r@[j].0 as int], f64_max())
            && r@[j].1.distance == distances@[r@[j].0 as int],
        forall|k: int| 0 <= k < distances@.len() && !feq(distances@[k], f64_max()) ==> exists|j: int| 0 <= j < r@.len() && (#[trigger] r@[j]).0 == k,
        !with_paths ==> forall|j: int| 0 <= j < r@.len() ==> (#[trigger] r@[j]).1.paths@.len() == 0,
//@ end

//@ extract fn src/algorithms/shortest_path/dijkstra.rs push_fringe_node props=C04,C20
//@ rewrite
*count += 1;
//@ with
*count = *count + 1;
//@ rewrite
distance: -vu_dist,
//@ with
distance: core::ops::Neg::neg(vu_dist),
//@ spec
    requires
        *old(count) < i32::MAX,
    ensures
        // [C04.push.negated_distance]
        *final(count) == *old(count) + 1,
        heap_view(final(fringe)) == heap_view(old(fringe)).insert(FringeNode { node_index: u, count: *final(count), distance: fneg(vu_dist) }),
//@ end

//@ include chain.rs

pub open spec fn item_ok<T: Eq + PartialOrd + Send + Sync, A: Clone>(g: Graph<T, A>, weighted: bool, source: usize, hist: Seq<(usize, f64)>, it: FringeNode) -> bool {
    &&& it.node_index < g.n()
    &&& (it.node_index == source && fneg(it.distance) == 0.0f64)
        || exists|i: int| #[trigger] extends(g, weighted, hist, i, it.node_index, fneg(it.distance))
}
// d passes the cutoff test: there is no cutoff, or d is not greater than it
pub open spec fn within_cutoff(cutoff: Option<f64>, d: f64) -> bool {
    match cutoff {
        Some(c) => !flt(c, d),
        None => true,
    }
}
pub proof fn lemma_item_mono<T: Eq + PartialOrd + Send + Sync, A: Clone>(g: Graph<T, A>, weighted: bool, source: usize, h0: Seq<(usize, f64)>, x: (usize, f64), it: FringeNode)
    requires item_ok(g, weighted, source, h0, it),
    ensures item_ok(g, weighted, source, h0.push(x), it),
{
    if !(it.node_index == source && fneg(it.distance) == 0.0f64) {
        let i = choose|i: int| #[trigger] extends(g, weighted, h0, i, it.node_index, fneg(it.distance));
        lemma_extends_mono(g, weighted, h0, x, i, it.node_index, fneg(it.distance));
    }
}


//@ extract fn src/algorithms/shortest_path/dijkstra.rs dijkstra_basic props=C03,C04,C20
//@ head
#[verifier::exec_allows_no_decreases_clause]
//@ rewrite
) -> Result<Vec<(usize, ShortestPathInfo<usize>)>, Error>
//@ with
) -> (r: Result<Vec<(usize, ShortestPathInfo<usize>)>, Error>)
//@ rewrite count=any
f64::MAX
//@ with
vf64_max()
//@ rewrite
        distance: -0.0,
//@ with
        distance: core::ops::Neg::neg(0.0),
//@ rewrite
let d = -fringe_item.distance;
//@ with
let d = core::ops::Neg::neg(fringe_item.distance);
//@ spec
    requires
        graph.wf_nodes(),
        graph.wf_rows(),
        source < graph.n(),
    ensures
        r.is_ok(),
        // [C04.basic.sound, C03.consumers.dijkstra_basic_reads_successor_rows]
        // every reported (node, distance) is the source at 0.0 or extends an earlier assignment along a stored traversal
        // entry: by induction it is the length of a walk from the source over the rows of successors_vec
        exists|hist: Seq<(usize, f64)>| #[trigger] chain_ok(*graph, weighted, source, hist) && forall|j: int| 0 <= j < r.unwrap()@.len() ==>
            hist.contains(((#[trigger] r.unwrap()@[j]).0, r.unwrap()@[j].1.distance)),
        // [C04.basic.reported_in_range]
        forall|j: int| 0 <= j < r.unwrap()@.len() ==> (#[trigger] r.unwrap()@[j]).0 < graph.n(),
        // [C08.basic.no_paths_on_fast_path]
        forall|j: int| 0 <= j < r.unwrap()@.len() ==> (#[trigger] r.unwrap()@[j]).1.paths@.len() == 0,
//@ before while let Some(fringe_item) = fringe.pop() {
    let ghost mut hist: Seq<(usize, f64)> = Seq::empty();
    proof {
        assert(heap_view(&fringe) =~= vstd::multiset::Multiset::<FringeNode>::empty().insert(FringeNode { node_index: source, count: 0, distance: fneg(0.0f64) }));
    }
//@ loop 1
        invariant
            graph.wf_nodes(),
            graph.wf_rows(),
            source < graph.n(),
            dist@.len() == graph.n(),
            seen@.len() == graph.n(),
            // [C04.basic.heap_items_justified]
            forall|it: FringeNode| #[trigger] heap_view(&fringe).count(it) > 0 ==> item_ok(*graph, weighted, source, hist, it),
            // [C04.basic.assignments_form_walks]
            chain_ok(*graph, weighted, source, hist),
            forall|u: int| reported(dist@, u) ==> hist.contains((u as usize, #[trigger] dist@[u])),
            // [C04.basic.settled_nodes_are_not_reassigned]
            forall|j: int| 0 <= j < hist.len() ==> (#[trigger] hist[j]).0 < dist@.len() && (feq(hist[j].1, f64_max()) || dist@[hist[j].0 as int] == hist[j].1),
//@ before dist[v] = d;
        let ghost dist0 = dist@;
//@ after dist[v] = d;
        proof {
            let ghost h0 = hist;
            hist = hist.push((v, d));
            // the popped item was justified; its justification becomes the new chain link
            assert(item_ok(*graph, weighted, source, h0, fringe_item));
            lemma_chain_push(*graph, weighted, source, h0, v, d);
            assert forall|it: FringeNode| #[trigger] heap_view(&fringe).count(it) > 0 implies item_ok(*graph, weighted, source, hist, it) by {
                lemma_item_mono(*graph, weighted, source, h0, (v, d), it);
            }
            lemma_reported_push(dist0, dist@, h0, v, d);
        }
        let ghost vpos: int = hist.len() - 1;
//@ rewrite
for adj in graph.get_successor_nodes_by_index(&v)
//@ with
for adj in row_it: graph.get_successor_nodes_by_index(&v)
//@ loop 2
            invariant
                graph.wf_nodes(),
                graph.wf_rows(),
                source < graph.n(),
                v < graph.n(),
                dist@.len() == graph.n(),
                seen@.len() == graph.n(),
                0 <= vpos < hist.len() && hist[vpos] == (v, dist@[v as int]),
                forall|it: FringeNode| #[trigger] heap_view(&fringe).count(it) > 0 ==> item_ok(*graph, weighted, source, hist, it),
                chain_ok(*graph, weighted, source, hist),
                forall|u: int| reported(dist@, u) ==> hist.contains((u as usize, #[trigger] dist@[u])),
                forall|j: int| 0 <= j < hist.len() ==> (#[trigger] hist[j]).0 < dist@.len() && (feq(hist[j].1, f64_max()) || dist@[hist[j].0 as int] == hist[j].1),
//@ before let vu_dist = dist[v] + cost;
            let ghost fringe0 = heap_view(&fringe);
//@ after let vu_dist = dist[v] + cost;
            proof {
                // relaxing the traversal entry row(v)[k] = (u, cost): the candidate distance extends the walk that reached v
                assert(graph.successors_vec@[v as int]@[row_it.index@] == *adj);
                assert(extends(*graph, weighted, hist, vpos, u, vu_dist));
                assert(u < graph.n());
                assert(fneg(fneg(vu_dist)) == vu_dist);
                assert(extends(*graph, weighted, hist, vpos, u, fneg(fneg(vu_dist))));
            }
//@ before #1 push_fringe_node(&mut count, &mut fringe, u, vu_dist);
                // machine arithmetic treated as mathematical: the push counter is an i32 that would need > 2^31 heap pushes to overflow
                assume(count < i32::MAX);
//@ before #2 push_fringe_node(&mut count, &mut fringe, u, vu_dist);
                assume(count < i32::MAX);
//@ after #1 push_fringe_node(&mut count, &mut fringe, u, vu_dist);
                proof {
                    // the pushed item carries -(dist[v] + cost): it is justified by the relaxed traversal entry
                    let itx = FringeNode { node_index: u, count: count, distance: fneg(vu_dist) };
                    assert(fneg(itx.distance) == vu_dist);
                    assert(extends(*graph, weighted, hist, vpos, itx.node_index, fneg(itx.distance)));
                    assert(item_ok(*graph, weighted, source, hist, itx));
                }
//@ after #2 push_fringe_node(&mut count, &mut fringe, u, vu_dist);
                proof {
                    // the pushed item carries -(dist[v] + cost): it is justified by the relaxed traversal entry
                    let itx = FringeNode { node_index: u, count: count, distance: fneg(vu_dist) };
                    assert(fneg(itx.distance) == vu_dist);
                    assert(extends(*graph, weighted, hist, vpos, itx.node_index, fneg(itx.distance)));
                    assert(item_ok(*graph, weighted, source, hist, itx));
                }
//@ end


//@ extract static src/algorithms/shortest_path/dijkstra.rs CONTRADICTORY_PATHS_ERROR_MESSAGE
//@ head
#[verifier::external]
//@ end
//@ extract fn src/algorithms/shortest_path/dijkstra.rs get_contractory_paths_error nobody
//@ head
#[verifier::external_body]
//@ rewrite
-> Error
//@ with
-> (e: Error)
//@ spec
    ensures e.kind == ErrorKind::ContradictoryPaths,
//@ end
//@ extract fn src/algorithms/shortest_path/dijkstra.rs add_u_to_v_paths_and_append_v_paths_to_u_paths nobody
//@ head
#[verifier::external_body]
//@ spec
    requires
        u < old(paths)@.len(),
        v < old(paths)@.len(),
    ensures
        final(paths)@.len() == old(paths)@.len(),
//@ end
//@ extract fn src/algorithms/shortest_path/dijkstra.rs convert_shortest_path_info_index_to_t nobody
//@ head
#[verifier::external_body]
//@ end

// A5: the full Dijkstra (path bookkeeping uses closures over &mut) and the index->name translation are left unverified
// R-ext (A5): `new_paths_v.iter_mut().for_each(|pv| pv.push(u))` (closure over &mut): assumed to append u to every path
#[verifier::external_body]
pub fn vpush_to_all(paths: &mut Vec<Vec<usize>>, u: usize)
    ensures final(paths)@.len() == old(paths)@.len(),
{ paths.iter_mut().for_each(|pv| pv.push(u)); }

//@ extract fn src/algorithms/shortest_path/dijkstra.rs dijkstra props=C03,C04,C08,C20
//@ head
#[verifier::exec_allows_no_decreases_clause]
//@ rewrite
) -> Result<Vec<(usize, ShortestPathInfo<usize>)>, Error>
//@ with
) -> (r: Result<Vec<(usize, ShortestPathInfo<usize>)>, Error>)
//@ rewrite count=any
f64::MAX
//@ with
vf64_max()
//@ rewrite
        distance: -0.0,
//@ with
        distance: core::ops::Neg::neg(0.0),
//@ rewrite
let d = -fringe_item.distance;
//@ with
let d = core::ops::Neg::neg(fringe_item.distance);
//@ rewrite
            if cutoff.map_or(false, |c| vu_dist > c) {
                continue;
            }
            if
//@ with
            if (match cutoff { Some(c) => vu_dist > c, None => false }) {
            } else if
//@ rewrite
new_paths_v.iter_mut().for_each(|pv| pv.push(u));
//@ with
vpush_to_all(&mut new_paths_v, u);
//@ rewrite
for adj in graph.get_successor_nodes_by_index(&v)
//@ with
for adj in row_it: graph.get_successor_nodes_by_index(&v)
//@ spec
    requires
        graph.wf_nodes(),
        graph.wf_rows(),
        source < graph.n(),
        target.is_some() ==> target.unwrap() < graph.n(),
    ensures
        // [C04.dijkstra.error_is_contradictory_paths]
        r.is_err() ==> is_err_kind(r, ErrorKind::ContradictoryPaths),
        // [C04.dijkstra.sound, C03.consumers.dijkstra_reads_successor_rows]
        r.is_ok() ==> exists|hist: Seq<(usize, f64)>| #[trigger] chain_ok(*graph, weighted, source, hist) && forall|j: int| 0 <= j < r.unwrap()@.len() ==>
            hist.contains(((#[trigger] r.unwrap()@[j]).0, r.unwrap()@[j].1.distance)),
        // [C04.dijkstra.reported_in_range]
        r.is_ok() ==> forall|j: int| 0 <= j < r.unwrap()@.len() ==> (#[trigger] r.unwrap()@[j]).0 < graph.n(),
        // [C08.dijkstra.cutoff_respected]
        // with a cutoff c every reported node other than the source has a distance that is not greater than c
        r.is_ok() ==> forall|j: int| 0 <= j < r.unwrap()@.len() ==> (#[trigger] r.unwrap()@[j]).0 == source || within_cutoff(cutoff, r.unwrap()@[j].1.distance),
        // [C08.dijkstra.no_paths_unless_asked]
        r.is_ok() && !with_paths ==> forall|j: int| 0 <= j < r.unwrap()@.len() ==> (#[trigger] r.unwrap()@[j]).1.paths@.len() == 0,
//@ before while let Some(fringe_item) = fringe.pop() {
    let ghost mut hist: Seq<(usize, f64)> = Seq::empty();
    proof {
        assert(heap_view(&fringe) =~= vstd::multiset::Multiset::<FringeNode>::empty().insert(FringeNode { node_index: source, count: 0, distance: fneg(0.0f64) }));
    }
//@ loop 1
        invariant
            // [C04.dijkstra.invariants, C04.dijkstra.settled_nodes_are_expanded_once, C08.dijkstra.cutoff_prunes_every_push]
            graph.wf_nodes(),
            graph.wf_rows(),
            source < graph.n(),
            target.is_some() ==> target.unwrap() < graph.n(),
            dist@.len() == graph.n(),
            seen@.len() == graph.n(),
            with_paths ==> paths@.len() == graph.n(),
            !with_paths ==> paths@.len() == 0,
            forall|it: FringeNode| #[trigger] heap_view(&fringe).count(it) > 0 ==> item_ok(*graph, weighted, source, hist, it),
            chain_ok(*graph, weighted, source, hist),
            forall|u: int| reported(dist@, u) ==> hist.contains((u as usize, #[trigger] dist@[u])),
            forall|j: int| 0 <= j < hist.len() ==> (#[trigger] hist[j]).0 < dist@.len() && (feq(hist[j].1, f64_max()) || dist@[hist[j].0 as int] == hist[j].1),
            forall|i: int, j: int| 0 <= i < j < hist.len() && (#[trigger] hist[i]).0 == (#[trigger] hist[j]).0 ==> feq(hist[i].1, f64_max()),
            forall|it: FringeNode| #[trigger] heap_view(&fringe).count(it) > 0 ==> (it.node_index == source && fneg(it.distance) == 0.0f64) || within_cutoff(cutoff, fneg(it.distance)),
            forall|j: int| 0 <= j < hist.len() ==> ((#[trigger] hist[j]).0 == source && hist[j].1 == 0.0f64) || within_cutoff(cutoff, hist[j].1),
//@ before dist[v] = d;
        let ghost dist0 = dist@;
//@ after dist[v] = d;
        proof {
            let ghost h0 = hist;
            hist = hist.push((v, d));
            assert(item_ok(*graph, weighted, source, h0, fringe_item));
            lemma_chain_push(*graph, weighted, source, h0, v, d);
            assert forall|it: FringeNode| #[trigger] heap_view(&fringe).count(it) > 0 implies item_ok(*graph, weighted, source, hist, it) by {
                lemma_item_mono(*graph, weighted, source, h0, (v, d), it);
            }
            lemma_reported_push(dist0, dist@, h0, v, d);
            assert forall|i: int, j: int| 0 <= i < j < hist.len() && (#[trigger] hist[i]).0 == (#[trigger] hist[j]).0 implies feq(hist[i].1, f64_max()) by {
                if j == h0.len() {
                    assert(hist[i] == h0[i]);
                    assert(feq(h0[i].1, f64_max()) || dist0[h0[i].0 as int] == h0[i].1);
                } else {
                    assert(hist[i] == h0[i] && hist[j] == h0[j]);
                }
            }
        }
        let ghost vpos: int = hist.len() - 1;
//@ loop 2
            invariant
                v < graph.n(),
                0 <= vpos < hist.len() && hist[vpos] == (v, dist@[v as int]),
                graph.wf_nodes(),
                graph.wf_rows(),
                source < graph.n(),
                target.is_some() ==> target.unwrap() < graph.n(),
                dist@.len() == graph.n(),
                seen@.len() == graph.n(),
                with_paths ==> paths@.len() == graph.n(),
                !with_paths ==> paths@.len() == 0,
                forall|it: FringeNode| #[trigger] heap_view(&fringe).count(it) > 0 ==> item_ok(*graph, weighted, source, hist, it),
                chain_ok(*graph, weighted, source, hist),
                forall|u: int| reported(dist@, u) ==> hist.contains((u as usize, #[trigger] dist@[u])),
                forall|j: int| 0 <= j < hist.len() ==> (#[trigger] hist[j]).0 < dist@.len() && (feq(hist[j].1, f64_max()) || dist@[hist[j].0 as int] == hist[j].1),
                forall|i: int, j: int| 0 <= i < j < hist.len() && (#[trigger] hist[i]).0 == (#[trigger] hist[j]).0 ==> feq(hist[i].1, f64_max()),
                forall|it: FringeNode| #[trigger] heap_view(&fringe).count(it) > 0 ==> (it.node_index == source && fneg(it.distance) == 0.0f64) || within_cutoff(cutoff, fneg(it.distance)),
                forall|j: int| 0 <= j < hist.len() ==> ((#[trigger] hist[j]).0 == source && hist[j].1 == 0.0f64) || within_cutoff(cutoff, hist[j].1),
//@ after let vu_dist = dist[v] + cost;
            proof {
                assert(graph.successors_vec@[v as int]@[row_it.index@] == *adj);
                assert(extends(*graph, weighted, hist, vpos, u, vu_dist));
                assert(u < graph.n());
                assert(fneg(fneg(vu_dist)) == vu_dist);
                assert(extends(*graph, weighted, hist, vpos, u, fneg(fneg(vu_dist))));
            }
//@ before #1 push_fringe_node(&mut count, &mut fringe, u, vu_dist);
                    // machine arithmetic treated as mathematical: the push counter is an i32 that would need > 2^31 heap pushes to overflow
                    assume(count < i32::MAX);
//@ before #2 push_fringe_node(&mut count, &mut fringe, u, vu_dist);
                    assume(count < i32::MAX);
//@ after #1 push_fringe_node(&mut count, &mut fringe, u, vu_dist);
                    proof {
                        let itx = FringeNode { node_index: u, count: count, distance: fneg(vu_dist) };
                        assert(fneg(itx.distance) == vu_dist);
                        assert(extends(*graph, weighted, hist, vpos, itx.node_index, fneg(itx.distance)));
                        assert(item_ok(*graph, weighted, source, hist, itx));
                        assert(within_cutoff(cutoff, vu_dist));
                    }
//@ after #2 push_fringe_node(&mut count, &mut fringe, u, vu_dist);
                    proof {
                        let itx = FringeNode { node_index: u, count: count, distance: fneg(vu_dist) };
                        assert(fneg(itx.distance) == vu_dist);
                        assert(extends(*graph, weighted, hist, vpos, itx.node_index, fneg(itx.distance)));
                        assert(item_ok(*graph, weighted, source, hist, itx));
                        assert(within_cutoff(cutoff, vu_dist));
                    }
//@ end

//@ extract fn src/algorithms/shortest_path/dijkstra.rs convert_shortest_path_info_vec_to_t_map nobody
//@ head
#[verifier::external_body]
//@ rewrite
) -> HashMap<T, ShortestPathInfo<T>>
//@ with
) -> (r: HashMap<T, ShortestPathInfo<T>>)
//@ spec
    requires
        graph.wf_nodes(),
//@ end

//@ extract fn src/algorithms/shortest_path/dijkstra.rs single_source props=C08,C20
//@ rewrite
) -> Result<HashMap<T, ShortestPathInfo<T>>, Error>
//@ with
) -> (r: Result<HashMap<T, ShortestPathInfo<T>>, Error>)
//@ spec
    requires
        graph.wf_nodes(),
        graph.wf_rows(),
    ensures
        // [C08.single_source.error_channel]
        !graph.knows(source) ==> is_err_kind(r, ErrorKind::NodeNotFound),
        graph.knows(source) && target.is_some() && !graph.knows(target.unwrap()) ==> is_err_kind(r, ErrorKind::NodeNotFound),
        // [C08.single_source.fast_path_never_errs]
        graph.knows(source) && target.is_none() && cutoff.is_none() && !first_only && !with_paths ==> r.is_ok(),
//@ end

// A4: assumed contract on std: <[T]>::contains is membership under the element type's == (spec equality for the name type, A2)
pub assume_specification<T: std::cmp::PartialEq> [ <[T]>::contains ] (s: &[T], x: &T) -> (r: bool)
    ensures
        T::obeys_eq_spec() && (forall|a: T, b: T| #[trigger] a.eq_spec(&b) == (a == b)) ==> r == s@.contains(*x);

// some path of the list has x strictly inside (not first, not last)
pub open spec fn has_interior<T>(paths: Seq<Vec<T>>, x: T) -> bool {
    exists|p: int, i: int| 0 <= p < paths.len() && 0 < i < paths[p]@.len() - 1 && #[trigger] paths[p]@[i] == x
}

impl<T> ShortestPathInfo<T> {
//@ extract fn src/algorithms/shortest_path/shortest_path_info.rs contains_path_through_node props=C08,C20 ty=ShortestPathInfo
//@ rewrite
-> bool
//@ with
-> (r: bool)
//@ rewrite
for path in &self.paths
//@ with
for path in pit: &self.paths
//@ rewrite count=opt
                continue;
            }
            if
//@ with
            } else if
//@ spec
    requires
        T::obeys_eq_spec(),
        forall|a: T, b: T| #[trigger] a.eq_spec(&b) == (a == b),
    ensures
        // [C08.interior.filter]
        r == has_interior(self.paths@, node_name),
//@ loop 1
            invariant
                T::obeys_eq_spec(),
                forall|a: T, b: T| #[trigger] a.eq_spec(&b) == (a == b),
                forall|p: int, i: int| 0 <= p < pit.index@ && 0 < i < self.paths@[p]@.len() - 1 ==> #[trigger] self.paths@[p]@[i] != node_name,
//@ before if path.len() <= 2 {
            proof {
                // the interior of the path is the sub-range the code searches
                assert(*path == self.paths@[pit.index@]);
                if path@.len() > 2 {
                    let inner = path@.subrange(1, path@.len() - 1);
                    assert forall|i: int| 0 < i < path@.len() - 1 implies #[trigger] path@[i] == inner[i - 1] by {}
                    assert forall|k: int| 0 <= k < inner.len() implies #[trigger] inner[k] == path@[k + 1] by {}
                }
            }
//@ end
}

} // verus!
fn main() {}
