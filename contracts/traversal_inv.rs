// ---- the traversal invariant ----
pub open spec fn weights_of<T: PartialOrd + Send, A>(l: Seq<Arc<Edge<T, A>>>) -> Seq<f64> {
    Seq::new(l.len(), |k: int| l[k].weight)
}

// the weight the traversal lists carry for a pair: left fold of "keep the smaller (IEEE <)" over the stored weights
pub open spec fn fold_min(ws: Seq<f64>) -> f64
    decreases ws.len()
{
    if ws.len() <= 1 { ws[0] } else { upd_weight(fold_min(ws.drop_last()), ws.last(), false) }
}

pub open spec fn row_has(row: Seq<AdjacentNode>, j: usize) -> bool {
    exists|k: int| 0 <= k < row.len() && #[trigger] row[k].node_index == j
}

impl<T: Eq + PartialOrd + Send + Sync, A: Clone> Graph<T, A> {
    // weight wanted for the traversal entry i -> j
    pub open spec fn want_weight(&self, i: usize, j: usize) -> f64 {
        fold_min(weights_of(self.pair_list(self.canon(i, j).0, self.canon(i, j).1)))
    }

    pub open spec fn succ_entry_ok(&self, i: usize, a: AdjacentNode) -> bool {
        &&& self.has_pair(self.canon(i, a.node_index).0, self.canon(i, a.node_index).1)
        &&& a.weight == self.want_weight(i, a.node_index)
    }

    // predecessor entry j <- i (directed graphs): the pair (i, j) is stored
    pub open spec fn pred_entry_ok(&self, j: usize, a: AdjacentNode) -> bool {
        &&& self.has_pair(a.node_index, j)
        &&& a.weight == self.want_weight(a.node_index, j)
    }

    pub open spec fn wf_traversal(&self) -> bool {
        &&& forall|i: int, k: int| 0 <= i < self.successors_vec@.len() && 0 <= k < self.successors_vec@[i]@.len()
                ==> self.succ_entry_ok(i as usize, #[trigger] self.successors_vec@[i]@[k])
        &&& forall|u: usize, v: usize| #[trigger] self.has_pair(u, v) ==> row_has(self.successors_vec@[u as int]@, v)
                && (!self.specs.directed ==> row_has(self.successors_vec@[v as int]@, u))
        &&& self.specs.directed ==> forall|j: int, k: int| 0 <= j < self.predecessors_vec@.len() && 0 <= k < self.predecessors_vec@[j]@.len()
                ==> self.pred_entry_ok(j as usize, #[trigger] self.predecessors_vec@[j]@[k])
        &&& self.specs.directed ==> forall|u: usize, v: usize| #[trigger] self.has_pair(u, v) ==> row_has(self.predecessors_vec@[v as int]@, u)
        &&& !self.specs.directed ==> forall|j: int| 0 <= j < self.predecessors_vec@.len() ==> (#[trigger] self.predecessors_vec@[j])@.len() == 0
    }
}

// ---- fold_min facts ----
pub proof fn lemma_fold_min_single(x: f64)
    ensures fold_min(seq![x]) == x,
{
}

pub proof fn lemma_fold_min_push(ws: Seq<f64>, x: f64)
    requires ws.len() >= 1,
    ensures fold_min(ws.push(x)) == upd_weight(fold_min(ws), x, false),
{
    assert(ws.push(x).drop_last() =~= ws);
    assert(ws.push(x).last() == x);
}

pub proof fn lemma_upd_idempotent(x: f64, w: f64, replace: bool)
    ensures upd_weight(upd_weight(x, w, replace), w, replace) == upd_weight(x, w, replace),
{
}

// [C03.wf_traversal.empty_graph]
pub proof fn lemma_traversal_empty<T: Eq + PartialOrd + Send + Sync, A: Clone>(g: Graph<T, A>)
    requires
        g.n() == 0,
        g.successors_vec@.len() == 0,
        g.predecessors_vec@.len() == 0,
        g.edges_map@.len() == 0,
    ensures
        g.wf_traversal(),
{
    assert forall|u: usize, v: usize| !#[trigger] g.has_pair(u, v) by {
        if g.edges_map@.contains_key(u) {
            assert(g.edges_map@.dom().contains(u));
            assert(g.edges_map@.dom().len() == 0);
        }
    }
}

// ---- facts about one storing add_edge call (pre.stores(e)) ----
// positions of known names are kept; a created node sits at a position >= pre.n
pub proof fn lemma_positions_kept<T: Eq + PartialOrd + Send + Sync, A: Clone>(pre: Graph<T, A>, e: Edge<T, A>, post: Graph<T, A>, r: Result<(), Error>, x: T)
    requires
        pre.wf_nodes(), pre.wf_estore(),
        add_edge_rel(pre, e, post, r),
        pre.stores(e),
        post.knows(x),
    ensures
        pre.knows(x) ==> post.nodes_map@[x] == pre.nodes_map@[x],
        !pre.knows(x) ==> post.nodes_map@[x] >= pre.n(),
        post.nodes_map@[x] < post.n(),
{
    if pre.knows(x) {
        let i = pre.nodes_map@[x];
        assert(pre.nodes_vec@[i as int].name == x);
        assert(post.nodes_vec@[i as int] == pre.nodes_vec@[i as int]);
        assert(post.n() >= pre.n()) by {
            assert(post.n() == names_after(pre.names(), pre.knows(e.u), pre.knows(e.v), e.u, e.v).len());
        }
        assert(post.nodes_map@[post.nodes_vec@[i as int].name] == i);
    } else {
        let j = post.nodes_map@[x];
        assert(post.nodes_vec@[j as int].name == x);
        if j < pre.n() {
            assert(post.nodes_vec@[j as int] == pre.nodes_vec@[j as int]);
            assert(pre.nodes_map@.contains_key(pre.nodes_vec@[j as int].name));
        }
    }
}

pub open spec fn stored_key<T: Eq + PartialOrd + Send + Sync, A: Clone>(post: Graph<T, A>, e: Edge<T, A>) -> (usize, usize) {
    post.canon(post.nodes_map@[e.u], post.nodes_map@[e.v])
}

pub proof fn lemma_existed_is_pair<T: Eq + PartialOrd + Send + Sync, A: Clone>(pre: Graph<T, A>, e: Edge<T, A>, post: Graph<T, A>, r: Result<(), Error>)
    requires
        pre.wf_nodes(), pre.wf_estore(),
        add_edge_rel(pre, e, post, r),
        pre.stores(e),
    ensures
        pre.existed(e) == pre.has_pair(stored_key(post, e).0, stored_key(post, e).1),
        post.has_pair(stored_key(post, e).0, stored_key(post, e).1),
        stored_key(post, e).0 < post.n() && stored_key(post, e).1 < post.n(),
        !post.specs.directed ==> stored_key(post, e).0 <= stored_key(post, e).1,
        post.n() >= pre.n(),
{
    lemma_positions_kept(pre, e, post, r, e.u);
    lemma_positions_kept(pre, e, post, r, e.v);
    let c = stored_key(post, e);
    assert(post.has_pair(c.0, c.1));
    assert(post.n() == names_after(pre.names(), pre.knows(e.u), pre.knows(e.v), e.u, e.v).len());
    if pre.has_pair(c.0, c.1) {
        assert(c.0 < pre.n() && c.1 < pre.n());
    }
}

// the weight wanted for the stored key after the call
pub proof fn lemma_key_weight<T: Eq + PartialOrd + Send + Sync, A: Clone>(pre: Graph<T, A>, e: Edge<T, A>, post: Graph<T, A>, r: Result<(), Error>)
    requires
        pre.wf_nodes(), pre.wf_estore(),
        add_edge_rel(pre, e, post, r),
        pre.stores(e),
    ensures
        ({
            let c = stored_key(post, e);
            let ex = pre.existed(e);
            let replace = ex && !pre.specs.multi_edges;
            fold_min(weights_of(post.pair_list(c.0, c.1))) == (if ex { upd_weight(fold_min(weights_of(pre.pair_list(c.0, c.1))), e.weight, replace) } else { e.weight })
        }),
{
    lemma_existed_is_pair(pre, e, post, r);
    let c = stored_key(post, e);
    let ex = pre.existed(e);
    let w = e.weight;
    assert(pre.stored_form(e).weight == w);
    let pl = post.pair_list(c.0, c.1);
    if pre.specs.multi_edges && ex {
        let l0 = pre.pair_list(c.0, c.1);
        assert(l0.len() >= 1);
        assert(weights_of(pl) =~= weights_of(l0).push(w)) by {
            assert(pl.len() == l0.len() + 1);
            assert forall|k: int| 0 <= k < pl.len() implies weights_of(pl)[k] == weights_of(l0).push(w)[k] by {
                if k < l0.len() { assert(pl[k] == l0[k]); }
            }
        }
        lemma_fold_min_push(weights_of(l0), w);
    } else {
        assert(pl.len() == 1);
        assert(weights_of(pl) =~= seq![w]);
    }
}

// the canonical key of the stored key is itself
pub proof fn lemma_canon_fix<T: Eq + PartialOrd + Send + Sync, A: Clone>(g: Graph<T, A>, c0: usize, c1: usize)
    requires !g.specs.directed ==> c0 <= c1,
    ensures g.canon(c0, c1) == (c0, c1), !g.specs.directed ==> g.canon(c1, c0) == (c0, c1),
{
}

// one entry of a successor row after a storing add_edge
pub proof fn lemma_succ_entry<T: Eq + PartialOrd + Send + Sync, A: Clone>(pre: Graph<T, A>, e: Edge<T, A>, post: Graph<T, A>, r: Result<(), Error>, i: usize, k: int)
    requires
        pre.wf_nodes(), pre.wf_estore(), pre.wf_rows(), pre.wf_traversal(),
        add_edge_rel(pre, e, post, r),
        pre.stores(e),
        i < post.successors_vec@.len(),
        0 <= k < post.successors_vec@[i as int]@.len(),
    ensures
        post.succ_entry_ok(i, post.successors_vec@[i as int]@[k]),
{
    lemma_existed_is_pair(pre, e, post, r);
    lemma_key_weight(pre, e, post, r);
    let c = stored_key(post, e);
    lemma_canon_fix(post, c.0, c.1);
    let ex = pre.existed(e);
    let replace = ex && !pre.specs.multi_edges;
    let w = e.weight;
    let both = !pre.specs.directed;
    assert(post.successors_vec@.len() == post.n());
    let row0 = pad_row(pre.successors_vec@, i as int);
    let r1 = if i == c.0 { row_apply(row0, c.1, w, ex, replace) } else { row0 };
    let row = if both && i == c.1 { row_apply(r1, c.0, w, ex, replace) } else { r1 };
    assert(post.successors_vec@[i as int]@ == expected_row(row0, i as int, c.0, c.1, w, ex, replace, both));
    assert(post.successors_vec@[i as int]@ == row);
    let a = row[k];
    if k < row0.len() {
        assert(i < pre.successors_vec@.len());
        let a0 = row0[k];
        assert(a0 == pre.successors_vec@[i as int]@[k]);
        assert(pre.succ_entry_ok(i, a0));
        let j = a0.node_index;
        let cj = pre.canon(i, j);
        assert(post.canon(i, j) == cj);
        if cj == c {
            assert(pre.has_pair(c.0, c.1));
            assert(ex);
            lemma_upd_idempotent(a0.weight, w, replace);
            if i == c.0 && j == c.1 {
                assert(r1[k] == upd_entry(a0, c.1, w, replace));
                if both && i == c.1 {
                    assert(row[k] == upd_entry(r1[k], c.0, w, replace));
                }
            } else {
                assert(cj.0 == c.0 && cj.1 == c.1);
                assert(cj == (if !pre.specs.directed && i > j { (j, i) } else { (i, j) }));
                assert(both && i == c.1 && j == c.0 && i != c.0);
                assert(r1[k] == a0);
                assert(row[k] == upd_entry(a0, c.0, w, replace));
            }
            assert(a.node_index == j);
            assert(a.weight == upd_weight(a0.weight, w, replace));
        } else {
            assert(!(i == c.0 && j == c.1));
            assert(!(both && i == c.1 && j == c.0));
            assert(r1[k] == a0);
            assert(a == a0);
            assert(post.has_pair(cj.0, cj.1) == pre.has_pair(cj.0, cj.1));
            assert(post.pair_list(cj.0, cj.1) == pre.pair_list(cj.0, cj.1));
        }
    } else {
        // a pushed entry: only when the pair is new
        assert(!ex);
        assert(a.weight == w);
        assert(post.canon(i, a.node_index) == c);
    }
}

// existing positions of a row keep their neighbour under expected_row; pushes only append
pub proof fn lemma_expected_row_keeps(row0: Seq<AdjacentNode>, i: int, c0: usize, c1: usize, w: f64, ex: bool, replace: bool, both: bool, k: int)
    requires 0 <= k < row0.len(),
    ensures
        expected_row(row0, i, c0, c1, w, ex, replace, both).len() >= row0.len(),
        expected_row(row0, i, c0, c1, w, ex, replace, both)[k].node_index == row0[k].node_index,
{
    let r1 = if i == c0 { row_apply(row0, c1, w, ex, replace) } else { row0 };
    assert(r1.len() >= row0.len() && r1[k].node_index == row0[k].node_index);
}

pub proof fn lemma_row_has_kept(row0: Seq<AdjacentNode>, i: int, c0: usize, c1: usize, w: f64, ex: bool, replace: bool, both: bool, j: usize)
    requires row_has(row0, j),
    ensures row_has(expected_row(row0, i, c0, c1, w, ex, replace, both), j),
{
    let k = choose|k: int| 0 <= k < row0.len() && #[trigger] row0[k].node_index == j;
    lemma_expected_row_keeps(row0, i, c0, c1, w, ex, replace, both, k);
    assert(expected_row(row0, i, c0, c1, w, ex, replace, both)[k].node_index == j);
}

// every stored pair has its successor entry (both directions when undirected) after a storing add_edge
pub proof fn lemma_succ_has<T: Eq + PartialOrd + Send + Sync, A: Clone>(pre: Graph<T, A>, e: Edge<T, A>, post: Graph<T, A>, r: Result<(), Error>, u: usize, v: usize)
    requires
        pre.wf_nodes(), pre.wf_estore(), pre.wf_rows(), pre.wf_traversal(),
        add_edge_rel(pre, e, post, r),
        pre.stores(e),
        post.has_pair(u, v),
    ensures
        row_has(post.successors_vec@[u as int]@, v),
        !post.specs.directed ==> row_has(post.successors_vec@[v as int]@, u),
{
    lemma_existed_is_pair(pre, e, post, r);
    let c = stored_key(post, e);
    let ex = pre.existed(e);
    let replace = ex && !pre.specs.multi_edges;
    let w = e.weight;
    let both = !pre.specs.directed;
    assert(post.successors_vec@.len() == post.n());
    assert(u < post.n() && v < post.n());
    let ru0 = pad_row(pre.successors_vec@, u as int);
    let rv0 = pad_row(pre.successors_vec@, v as int);
    assert(post.successors_vec@[u as int]@ == expected_row(ru0, u as int, c.0, c.1, w, ex, replace, both));
    assert(post.successors_vec@[v as int]@ == expected_row(rv0, v as int, c.0, c.1, w, ex, replace, both));
    if (u != c.0 || v != c.1) || ex {
        assert(pre.has_pair(u, v));
        assert(u < pre.n() && v < pre.n());
        assert(row_has(pre.successors_vec@[u as int]@, v));
        lemma_row_has_kept(ru0, u as int, c.0, c.1, w, ex, replace, both, v);
        if both {
            assert(row_has(pre.successors_vec@[v as int]@, u));
            lemma_row_has_kept(rv0, v as int, c.0, c.1, w, ex, replace, both, u);
        }
    } else {
        // the new pair: its entries are the pushed ones
        let r1 = row_apply(ru0, c.1, w, false, replace);
        assert(r1[ru0.len() as int].node_index == v);
        let rowu = expected_row(ru0, u as int, c.0, c.1, w, ex, replace, both);
        assert(rowu[ru0.len() as int].node_index == v);
        if both {
            let rowv = expected_row(rv0, v as int, c.0, c.1, w, ex, replace, both);
            if c.0 == c.1 {
                assert(rowv[ru0.len() as int + 1].node_index == u);
            } else {
                assert(rowv[rv0.len() as int].node_index == u);
            }
        }
    }
}

// directed graphs: one entry of a predecessor row after a storing add_edge
pub proof fn lemma_pred_entry<T: Eq + PartialOrd + Send + Sync, A: Clone>(pre: Graph<T, A>, e: Edge<T, A>, post: Graph<T, A>, r: Result<(), Error>, j: usize, k: int)
    requires
        pre.wf_nodes(), pre.wf_estore(), pre.wf_rows(), pre.wf_traversal(),
        add_edge_rel(pre, e, post, r),
        pre.stores(e),
        pre.specs.directed,
        j < post.predecessors_vec@.len(),
        0 <= k < post.predecessors_vec@[j as int]@.len(),
    ensures
        post.pred_entry_ok(j, post.predecessors_vec@[j as int]@[k]),
{
    lemma_existed_is_pair(pre, e, post, r);
    lemma_key_weight(pre, e, post, r);
    let c = stored_key(post, e);
    let ex = pre.existed(e);
    let replace = ex && !pre.specs.multi_edges;
    let w = e.weight;
    assert(post.predecessors_vec@.len() == post.n());
    let row0 = pad_row(pre.predecessors_vec@, j as int);
    let row = if j == c.1 { row_apply(row0, c.0, w, ex, replace) } else { row0 };
    assert(post.predecessors_vec@[j as int]@ == expected_row(row0, j as int, c.1, c.0, w, ex, replace, false));
    assert(post.predecessors_vec@[j as int]@ == row);
    let a = row[k];
    if k < row0.len() {
        assert(j < pre.predecessors_vec@.len());
        let a0 = row0[k];
        assert(a0 == pre.predecessors_vec@[j as int]@[k]);
        assert(pre.pred_entry_ok(j, a0));
        let i0 = a0.node_index;
        assert(pre.canon(i0, j) == (i0, j));
        assert(post.canon(i0, j) == (i0, j));
        if i0 == c.0 && j == c.1 {
            assert(ex);
            assert(row[k] == upd_entry(a0, c.0, w, replace));
        } else {
            assert(a == a0);
            assert(post.has_pair(i0, j) == pre.has_pair(i0, j));
            assert(post.pair_list(i0, j) == pre.pair_list(i0, j));
        }
    } else {
        assert(!ex);
        assert(a.weight == w && a.node_index == c.0 && j == c.1);
        assert(post.canon(c.0, c.1) == c);
    }
}

pub proof fn lemma_pred_has<T: Eq + PartialOrd + Send + Sync, A: Clone>(pre: Graph<T, A>, e: Edge<T, A>, post: Graph<T, A>, r: Result<(), Error>, u: usize, v: usize)
    requires
        pre.wf_nodes(), pre.wf_estore(), pre.wf_rows(), pre.wf_traversal(),
        add_edge_rel(pre, e, post, r),
        pre.stores(e),
        pre.specs.directed,
        post.has_pair(u, v),
    ensures
        row_has(post.predecessors_vec@[v as int]@, u),
{
    lemma_existed_is_pair(pre, e, post, r);
    let c = stored_key(post, e);
    let ex = pre.existed(e);
    let replace = ex && !pre.specs.multi_edges;
    let w = e.weight;
    assert(post.predecessors_vec@.len() == post.n());
    assert(u < post.n() && v < post.n());
    let rv0 = pad_row(pre.predecessors_vec@, v as int);
    assert(post.predecessors_vec@[v as int]@ == expected_row(rv0, v as int, c.1, c.0, w, ex, replace, false));
    if (u != c.0 || v != c.1) || ex {
        assert(pre.has_pair(u, v));
        assert(u < pre.n() && v < pre.n());
        assert(row_has(pre.predecessors_vec@[v as int]@, u));
        lemma_row_has_kept(rv0, v as int, c.1, c.0, w, ex, replace, false, u);
    } else {
        let rowv = expected_row(rv0, v as int, c.1, c.0, w, ex, replace, false);
        assert(rowv[rv0.len() as int].node_index == u);
    }
}

// [C03.wf_traversal.preserved_by_add_edge]
// whatever add_edge does (store, refuse, drop, ignore), the traversal rows keep matching the edge store
pub proof fn lemma_traversal_preserved_by_add_edge<T: Eq + PartialOrd + Send + Sync, A: Clone>(pre: Graph<T, A>, e: Edge<T, A>, post: Graph<T, A>, r: Result<(), Error>)
    requires
        pre.wf_nodes(), pre.wf_estore(), pre.wf_rows(), pre.wf_traversal(),
        add_edge_rel(pre, e, post, r),
    ensures
        post.wf_traversal(),
{
    if !pre.stores(e) {
        assert(post == pre);
    } else {
        lemma_existed_is_pair(pre, e, post, r);
        assert(post.successors_vec@.len() == post.n() && post.predecessors_vec@.len() == post.n());
        // a Vec's length fits usize, so row indices survive the int -> usize -> int round trip
        assert(post.successors_vec.len() == post.successors_vec@.len());
        assert(post.predecessors_vec.len() == post.predecessors_vec@.len());
        assert forall|i: int, k: int| 0 <= i < post.successors_vec@.len() && 0 <= k < post.successors_vec@[i]@.len()
                implies post.succ_entry_ok(i as usize, #[trigger] post.successors_vec@[i]@[k]) by {
            lemma_succ_entry(pre, e, post, r, i as usize, k);
        }
        assert forall|u: usize, v: usize| #[trigger] post.has_pair(u, v) implies row_has(post.successors_vec@[u as int]@, v)
                && (!post.specs.directed ==> row_has(post.successors_vec@[v as int]@, u)) by {
            lemma_succ_has(pre, e, post, r, u, v);
        }
        if post.specs.directed {
            assert forall|j: int, k: int| 0 <= j < post.predecessors_vec@.len() && 0 <= k < post.predecessors_vec@[j]@.len()
                    implies post.pred_entry_ok(j as usize, #[trigger] post.predecessors_vec@[j]@[k]) by {
                lemma_pred_entry(pre, e, post, r, j as usize, k);
            }
            assert forall|u: usize, v: usize| #[trigger] post.has_pair(u, v) implies row_has(post.predecessors_vec@[v as int]@, u) by {
                lemma_pred_has(pre, e, post, r, u, v);
            }
        } else {
            assert forall|j: int| 0 <= j < post.predecessors_vec@.len() implies (#[trigger] post.predecessors_vec@[j])@.len() == 0 by {
                assert(post.predecessors_vec@[j]@ == pad_row(pre.predecessors_vec@, j));
            }
        }
    }
}

// [C03.wf_traversal.preserved_by_add_node]
// add_node leaves the store alone and at most appends one empty row to each traversal vector (its proved contract)
pub proof fn lemma_traversal_preserved_by_add_node<T: Eq + PartialOrd + Send + Sync, A: Clone>(pre: Graph<T, A>, post: Graph<T, A>)
    requires
        pre.wf_nodes(), pre.wf_estore(), pre.wf_traversal(),
        post.edges_map@ == pre.edges_map@,
        post.specs == pre.specs,
        (post.successors_vec@ == pre.successors_vec@ && post.predecessors_vec@ == pre.predecessors_vec@)
            || (rows_extended(pre.successors_vec@, post.successors_vec@) && rows_extended(pre.predecessors_vec@, post.predecessors_vec@)),
    ensures
        post.wf_traversal(),
{
    assert forall|u: usize, v: usize| #[trigger] post.has_pair(u, v) == pre.has_pair(u, v) by {}
    assert forall|i: int, k: int| 0 <= i < post.successors_vec@.len() && 0 <= k < post.successors_vec@[i]@.len()
            implies post.succ_entry_ok(i as usize, #[trigger] post.successors_vec@[i]@[k]) by {
        assert(i < pre.successors_vec@.len());
        assert(post.successors_vec@[i] == pre.successors_vec@[i]);
        let a = pre.successors_vec@[i]@[k];
        assert(pre.succ_entry_ok(i as usize, a));
        let cj = pre.canon(i as usize, a.node_index);
        assert(post.canon(i as usize, a.node_index) == cj);
        assert(post.pair_list(cj.0, cj.1) == pre.pair_list(cj.0, cj.1));
    }
    assert forall|u: usize, v: usize| #[trigger] post.has_pair(u, v) implies row_has(post.successors_vec@[u as int]@, v)
            && (!post.specs.directed ==> row_has(post.successors_vec@[v as int]@, u)) by {
        assert(pre.has_pair(u, v));
        assert(u < pre.n() && v < pre.n());
        assert(post.successors_vec@[u as int] == pre.successors_vec@[u as int]);
        assert(post.successors_vec@[v as int] == pre.successors_vec@[v as int]);
    }
    if post.specs.directed {
        assert forall|j: int, k: int| 0 <= j < post.predecessors_vec@.len() && 0 <= k < post.predecessors_vec@[j]@.len()
                implies post.pred_entry_ok(j as usize, #[trigger] post.predecessors_vec@[j]@[k]) by {
            assert(j < pre.predecessors_vec@.len());
            assert(post.predecessors_vec@[j] == pre.predecessors_vec@[j]);
            let a = pre.predecessors_vec@[j]@[k];
            assert(pre.pred_entry_ok(j as usize, a));
            assert(post.pair_list(a.node_index, j as usize) == pre.pair_list(a.node_index, j as usize));
        }
        assert forall|u: usize, v: usize| #[trigger] post.has_pair(u, v) implies row_has(post.predecessors_vec@[v as int]@, u) by {
            assert(pre.has_pair(u, v));
            assert(u < pre.n() && v < pre.n());
            assert(post.predecessors_vec@[v as int] == pre.predecessors_vec@[v as int]);
        }
    } else {
        assert forall|j: int| 0 <= j < post.predecessors_vec@.len() implies (#[trigger] post.predecessors_vec@[j])@.len() == 0 by {
            if j < pre.predecessors_vec@.len() {
                assert(post.predecessors_vec@[j] == pre.predecessors_vec@[j]);
            }
        }
    }
}

// [C03.wf_traversal.holds_after_every_batch]
// induction over the history of a batch add: the invariant holds in every state of the history, in particular the last
pub proof fn lemma_traversal_along_history<T: Eq + PartialOrd + Send + Sync, A: Clone>(pre: Graph<T, A>, es: Seq<Edge<T, A>>, h: Seq<Graph<T, A>>, k: int, cur: Graph<T, A>)
    requires
        pre.wf_nodes(), pre.wf_estore(), pre.wf_rows(), pre.wf_traversal(),
        prefix_applied(pre, es, h, k, cur),
    ensures
        cur.wf_nodes(), cur.wf_estore(), cur.wf_rows(), cur.wf_traversal(),
    decreases k
{
    if k > 0 {
        let prev = h[k - 1];
        assert(prefix_applied(pre, es, h.subrange(0, k), k - 1, prev)) by {
            let h2 = h.subrange(0, k);
            assert(h2[0] == h[0]);
            assert forall|j: int| 0 <= j < k - 1 implies add_edge_rel(h2[j], es[j], #[trigger] h2[j + 1], Ok(())) by {
                assert(h2[j] == h[j] && h2[j + 1] == h[j + 1]);
            }
        }
        lemma_traversal_along_history(pre, es, h.subrange(0, k), k - 1, prev);
        assert(add_edge_rel(h[k - 1], es[k - 1], h[k - 1 + 1], Ok(())));
        lemma_traversal_preserved_by_add_edge(prev, es[k - 1], cur, Ok(()));
    }
}

// [C10.steps.symmetric_on_undirected_graphs] on an undirected graph whose traversal rows satisfy wf_traversal, one search step can be
// taken back: what connected_components needs to make its sets disjoint
pub proof fn lemma_steps_symmetric<T: Eq + PartialOrd + Send + Sync, A: Clone>(g: Graph<T, A>)
    requires
        g.wf_nodes(), g.wf_traversal(), !g.specs.directed,
    ensures
        steps_symmetric(g),
{
    assert forall|a: T, x: T| #[trigger] steps_to(g, a, x) implies steps_to(g, x, a) by {
        let pa = g.nodes_map@[a];
        let px = g.nodes_map@[x];
        assert(g.predecessors_vec@[pa as int]@.len() == 0);
        let row = g.successors_vec@[pa as int]@;
        assert(in_row(row, px));
        let k = choose|k: int| 0 <= k < row.len() && (#[trigger] row[k]).node_index == px;
        assert(g.succ_entry_ok(pa, g.successors_vec@[pa as int]@[k]));
        let c = g.canon(pa, px);
        assert(g.has_pair(c.0, c.1));
        assert(c == (pa, px) || c == (px, pa));
        assert(row_has(g.successors_vec@[px as int]@, pa));
        let k2 = choose|k2: int| 0 <= k2 < g.successors_vec@[px as int]@.len() && #[trigger] g.successors_vec@[px as int]@[k2].node_index == pa;
        assert(g.successors_vec@[px as int]@[k2].node_index == pa);
        assert(in_row(g.successors_vec@[px as int]@, pa));
    }
}

// [C20.steps.backed_by_a_stored_edge_on_undirected_graphs] a neighbour listed by the traversal rows has a stored edge list under the canonical key
pub proof fn lemma_steps_are_stored_undirected<T: Eq + PartialOrd + Send + Sync, A: Clone>(g: Graph<T, A>)
    requires
        g.wf_nodes(), g.wf_traversal(), !g.specs.directed,
    ensures
        steps_are_stored(g),
{
    assert forall|a: T, x: T| #[trigger] steps_to(g, a, x) implies
            g.has_pair(g.canon(g.nodes_map@[a], g.nodes_map@[x]).0, g.canon(g.nodes_map@[a], g.nodes_map@[x]).1) by {
        let pa = g.nodes_map@[a];
        let px = g.nodes_map@[x];
        assert(g.predecessors_vec@[pa as int]@.len() == 0);
        let row = g.successors_vec@[pa as int]@;
        assert(in_row(row, px));
        let k = choose|k: int| 0 <= k < row.len() && (#[trigger] row[k]).node_index == px;
        assert(g.succ_entry_ok(pa, g.successors_vec@[pa as int]@[k]));
    }
}
