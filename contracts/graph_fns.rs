// ---- contracts on the real Graph / Edge / Node functions (extracted from /repo on every run) ----
impl<T, A> Node<T, A>
where
    T: Eq + Clone + PartialOrd + Ord + Hash + Send + Sync + Display,
    A: Clone,
{
//@ extract fn src/node.rs from_name props=C01,C20 ty=Node
//@ rewrite
-> Arc<Node<T, A>>
//@ with
-> (r: Arc<Node<T, A>>)
//@ spec
    ensures
        // [C01.node.from_name]
        r.name == name,
        r.attributes.is_none(),
//@ end
//@ extract fn src/node.rs from_name_and_attributes props=C01,C20 ty=Node
//@ rewrite
-> Arc<Node<T, A>>
//@ with
-> (r: Arc<Node<T, A>>)
//@ spec
    ensures
        // [C01.node.from_name_and_attributes]
        r.name == name,
        r.attributes == Some(attributes),
//@ end
}

impl<T, A> Edge<T, A>
where
    T: Eq + Clone + PartialOrd + Ord + Hash + Send + Sync + Display,
    A: Clone,
{
//@ extract fn src/edge.rs new props=C01,C20 ty=Edge
//@ rewrite
-> Arc<Edge<T, A>>
//@ with
-> (r: Arc<Edge<T, A>>)
//@ rewrite
f64::NAN
//@ with
vf64_nan()
//@ spec
    ensures
        // [C01.edge.new_fields]
        r.u == u, r.v == v, r.attributes.is_none(), r.weight == f64_nan(),
//@ end

//@ extract fn src/edge.rs with_weight props=C01,C20 ty=Edge
//@ rewrite
-> Arc<Edge<T, A>>
//@ with
-> (r: Arc<Edge<T, A>>)
//@ spec
    ensures
        // [C01.edge.with_weight_fields]
        r.u == u, r.v == v, r.attributes.is_none(), r.weight == weight,
//@ end

//@ extract fn src/edge.rs reversed props=C01,C15,C20 ty=Edge
//@ rewrite
-> Edge<T, A>
//@ with
-> (r: Edge<T, A>)
//@ spec
    ensures
        // [C01.edge.reversed_flips, C15.edge.reversed_flips_keeps_weight_and_attributes]
        r.u == self.v, r.v == self.u, r.attributes == self.attributes, r.weight == self.weight,
//@ end

//@ extract fn src/edge.rs ordered props=C01,C20 ty=Edge
//@ rewrite
-> Edge<T, A>
//@ with
-> (r: Edge<T, A>)
//@ spec
    requires
        key_model_ok::<T>(),
    ensures
        // [C01.edge.ordered_canonical]
        r.attributes == self.attributes, r.weight == self.weight,
        tgt(self.u, self.v) ==> r.u == self.v && r.v == self.u,
        !tgt(self.u, self.v) ==> r.u == self.u && r.v == self.v,
//@ end
}

impl<T, A> Graph<T, A>
where
    T: Eq + Clone + PartialOrd + Ord + Hash + Send + Sync + Display,
    A: Clone,
{
//@ extract fn src/graph/creation.rs new props=C01,C20 ty=Graph
//@ rewrite
-> Graph<T, A>
//@ with
-> (g: Graph<T, A>)
//@ spec
    requires
        key_model_ok::<T>(),
    ensures
        // [C01.new.empty_wf, C02.history.new_is_wellformed]
        g.wf_nodes(),
        g.nodes_vec@.len() == 0,
        g.edges_map@.len() == 0,
        g.specs == specs,
        g.wf_estore(),
        g.wf_rows(),
        g.edges@.len() == 0 && g.successors@.len() == 0 && g.predecessors@.len() == 0,
        g.successors_map@.len() == 0 && g.predecessors_map@.len() == 0,
        g.successors_vec@.len() == 0 && g.predecessors_vec@.len() == 0,
//@ end

//@ extract fn src/graph/query.rs get_node_index props=C02,C20 ty=Graph
//@ rewrite
-> Result<usize, Error>
//@ with
-> (r: Result<usize, Error>)
//@ spec
    requires
        self.wf_nodes(),
    ensures
        // [C02.lookup.name_to_index]
        self.nodes_map@.contains_key(*node_name) ==> r.is_ok() && r.unwrap() == self.nodes_map@[*node_name]
            && r.unwrap() < self.nodes_vec@.len() && self.nodes_vec@[r.unwrap() as int].name == *node_name,
        !self.nodes_map@.contains_key(*node_name) ==> is_err_kind(r, ErrorKind::NodeNotFound),
//@ end

//@ extract fn src/graph/query.rs get_node props=C02,C20 ty=Graph
//@ rewrite
-> Option<&Arc<Node<T, A>>>
//@ with
-> (r: Option<&Arc<Node<T, A>>>)
//@ spec
    requires
        self.wf_nodes(),
    ensures
        // [C02.lookup.get_node]
        self.nodes_map@.contains_key(name) ==> r.is_some() && **r.unwrap() == *self.nodes_vec@[self.nodes_map@[name] as int] && r.unwrap().name == name,
        !self.nodes_map@.contains_key(name) ==> r.is_none(),
//@ end

//@ extract fn src/graph/query.rs has_node props=C02,C20 ty=Graph
//@ rewrite
-> bool
//@ with
-> (r: bool)
//@ spec
    requires
        self.wf_nodes(),
    ensures
        // [C02.lookup.has_node]
        r == self.nodes_map@.contains_key(*node_name),
//@ end

//@ extract fn src/graph/query.rs has_nodes props=C02,C20 ty=Graph
//@ rewrite
-> bool
//@ with
-> (r: bool)
//@ spec
    requires
        self.wf_nodes(),
    ensures
        // [C02.lookup.has_nodes]
        r == (forall|i: int| 0 <= i < node_names@.len() ==> self.nodes_map@.contains_key(#[trigger] node_names@[i])),
//@ rewrite
for node_name in node_names
//@ with
for node_name in it: node_names
//@ loop 1
            invariant
                self.wf_nodes(),
                forall|i: int| 0 <= i < it.index@ ==> self.nodes_map@.contains_key(#[trigger] node_names@[i]),
//@ end

//@ extract fn src/graph/query.rs number_of_nodes props=C09,C20 ty=Graph
//@ rewrite
-> usize
//@ with
-> (r: usize)
//@ spec
    ensures
        // [C09.count.nodes]
        r == self.nodes_vec@.len(),
//@ end

//@ extract fn src/graph/creation.rs add_node props=C01,C03,C20 ty=Graph
//@ spec
    requires
        old(self).wf_nodes(),
    ensures
        // [C01.add_node.wf_nodes_preserved, C02.history.add_node_keeps_lookup_bijection]
        final(self).wf_nodes(),
        // [C01.add_node.replace_in_place]
        old(self).nodes_map@.contains_key(node.name) ==> final(self).nodes_vec@ == old(self).nodes_vec@.update(old(self).nodes_map@[node.name] as int, node),
        // [C01.add_node.append]
        !old(self).nodes_map@.contains_key(node.name) ==> final(self).nodes_vec@ == old(self).nodes_vec@.push(node),
        // [C01.add_node.name_index_frame, C02.history.add_node_name_index_effect]
        old(self).nodes_map@.contains_key(node.name) ==> final(self).nodes_map@ == old(self).nodes_map@,
        !old(self).nodes_map@.contains_key(node.name) ==> final(self).nodes_map@ == old(self).nodes_map@.insert(node.name, old(self).nodes_vec@.len() as usize),
        // [C01.add_node.edge_store_frame]
        final(self).edges@ == old(self).edges@,
        final(self).edges_map@ == old(self).edges_map@,
        final(self).specs == old(self).specs,
        final(self).successors@ == old(self).successors@,
        final(self).predecessors@ == old(self).predecessors@,
        // [C01.add_node.wf_estore_preserved]
        old(self).wf_estore() ==> final(self).wf_estore(),
        // [C02.history.add_node_index_sets_frame]
        forall|i: usize| #[trigger] final(self).succ_set(i) == old(self).succ_set(i),
        forall|i: usize| #[trigger] final(self).pred_set(i) == old(self).pred_set(i),
        // [C03.add_node.wf_rows_preserved]
        old(self).wf_rows() ==> final(self).wf_rows(),
        // [C03.add_node.traversal_rows_frame]
        old(self).nodes_map@.contains_key(node.name) ==> final(self).successors_vec@ == old(self).successors_vec@ && final(self).predecessors_vec@ == old(self).predecessors_vec@,
        !old(self).nodes_map@.contains_key(node.name) ==> rows_extended(old(self).successors_vec@, final(self).successors_vec@) && rows_extended(old(self).predecessors_vec@, final(self).predecessors_vec@),
//@ tail
        proof {
            if old(self).wf_estore() {
                lemma_estore_frame(*old(self), *self);
            }
        }
//@ end

//@ extract fn src/graph/query.rs get_edge_by_indexes props=C02,C20 ty=Graph
//@ rewrite
-> Result<&Edge<T, A>, Error>
//@ with
-> (r: Result<&Edge<T, A>, Error>)
//@ spec
    requires
        self.wf_estore(),
    ensures
        // [C02.pair.by_indexes_lookup]
        self.has_pair(self.canon(u, v).0, self.canon(u, v).1) ==> r.is_ok() && *r.unwrap() == *self.pair_list(self.canon(u, v).0, self.canon(u, v).1)[0],
        !self.has_pair(self.canon(u, v).0, self.canon(u, v).1) ==> is_err_kind(r, ErrorKind::EdgeNotFound),
//@ before match self.edges_map.get(&ordered_u) {
        proof {
            // instantiate wf_estore at the canonical key: a stored list is never empty
            if self.has_pair(ordered_u, ordered_v) {
                assert(self.pair_list(ordered_u, ordered_v).len() > 0);
            }
        }
//@ end

//@ extract fn src/graph/query.rs get_edges_by_indexes props=C02,C20 ty=Graph
//@ rewrite
-> Result<Vec<&Arc<Edge<T, A>>>, Error>
//@ with
-> (r: Result<Vec<&Arc<Edge<T, A>>>, Error>)
//@ spec
    requires
        self.wf_estore(),
    ensures
        // [C02.pair.by_indexes_all_parallel_in_order]
        self.has_pair(self.canon(u, v).0, self.canon(u, v).1) ==> r.is_ok()
            && r.unwrap()@.len() == self.pair_list(self.canon(u, v).0, self.canon(u, v).1).len()
            && forall|k: int| 0 <= k < r.unwrap()@.len() ==> **(#[trigger] r.unwrap()@[k]) == *self.pair_list(self.canon(u, v).0, self.canon(u, v).1)[k],
        !self.has_pair(self.canon(u, v).0, self.canon(u, v).1) ==> is_err_kind(r, ErrorKind::EdgeNotFound),
//@ end

//@ extract fn src/graph/query.rs get_edge props=C02,C20 ty=Graph
//@ rewrite
-> Result<&Edge<T, A>, Error>
//@ with
-> (r: Result<&Edge<T, A>, Error>)
//@ spec
    requires
        self.wf_nodes(),
        self.wf_estore(),
    ensures
        // [C02.pair.get_edge_guard_order]
        self.specs.multi_edges ==> is_err_kind(r, ErrorKind::WrongMethod),
        !self.specs.multi_edges && (!self.nodes_map@.contains_key(u) || !self.nodes_map@.contains_key(v)) ==> is_err_kind(r, ErrorKind::NodeNotFound),
        // [C02.pair.get_edge_answer]
        !self.specs.multi_edges && self.nodes_map@.contains_key(u) && self.nodes_map@.contains_key(v) ==> ({
            let c = self.canon(self.nodes_map@[u], self.nodes_map@[v]);
            &&& self.has_pair(c.0, c.1) ==> r.is_ok() && *r.unwrap() == *self.pair_list(c.0, c.1)[0]
            &&& !self.has_pair(c.0, c.1) ==> is_err_kind(r, ErrorKind::EdgeNotFound)
        }),
//@ end

//@ extract fn src/graph/query.rs get_edges props=C02,C20 ty=Graph
//@ rewrite
-> Result<Vec<&Arc<Edge<T, A>>>, Error>
//@ with
-> (r: Result<Vec<&Arc<Edge<T, A>>>, Error>)
//@ spec
    requires
        self.wf_nodes(),
        self.wf_estore(),
    ensures
        // [C02.pair.get_edges_guard_order]
        !self.specs.multi_edges ==> is_err_kind(r, ErrorKind::WrongMethod),
        self.specs.multi_edges && (!self.nodes_map@.contains_key(u) || !self.nodes_map@.contains_key(v)) ==> is_err_kind(r, ErrorKind::NodeNotFound),
        // [C02.pair.get_edges_answer]
        self.specs.multi_edges && self.nodes_map@.contains_key(u) && self.nodes_map@.contains_key(v) ==> ({
            let c = self.canon(self.nodes_map@[u], self.nodes_map@[v]);
            &&& self.has_pair(c.0, c.1) ==> r.is_ok() && r.unwrap()@.len() == self.pair_list(c.0, c.1).len()
                    && forall|k: int| 0 <= k < r.unwrap()@.len() ==> **(#[trigger] r.unwrap()@[k]) == *self.pair_list(c.0, c.1)[k]
            &&& !self.has_pair(c.0, c.1) ==> is_err_kind(r, ErrorKind::EdgeNotFound)
        }),
//@ end

//@ extract fn src/graph/creation.rs add_edge props=C01,C02,C03,C20 ty=Graph
//@ if main
//@ head
    #[verifier::external_body] // proved-by-cases: the body is verified in the variants dm ds um us (full contract) and dmc dsc umc usc (core clauses only) of this unit
//@ fi
//@ rewrite
-> Result<(), Error>
//@ with
-> (r: Result<(), Error>)
//@ spec
    requires
        old(self).wf_nodes(),
        old(self).wf_estore(),
//@ if dm dmc
        add_edge_case(*old(self), true, true),
//@ fi
//@ if ds dsc
        add_edge_case(*old(self), true, false),
//@ fi
//@ if um umc
        add_edge_case(*old(self), false, true),
//@ fi
//@ if us usc
        add_edge_case(*old(self), false, false),
//@ fi
    ensures
        // [C01.add_edge.outcome]
        ae_outcome(*old(self), *edge, *final(self), r),
        // [C01.add_edge.error_is_noop]
        ae_error_is_noop(*old(self), *edge, *final(self), r),
        // [C01.add_edge.drop_is_noop]
        ae_drop_is_noop(*old(self), *edge, *final(self), r),
        // [C01.add_edge.ignored_duplicate_is_noop]
        ae_ignored_duplicate_is_noop(*old(self), *edge, *final(self), r),
        // [C01.add_edge.nodes_created_source_first]
        ae_nodes(*old(self), *edge, *final(self), r),
        // [C01.add_edge.wf_preserved, C02.history.add_edge_keeps_stores_wellformed]
        ae_wf(*old(self), *edge, *final(self), r),
        // [C01.add_edge.store_effect, C02.history.add_edge_store_effect]
        ae_store(*old(self), *edge, *final(self), r),
//@ if main dm ds um us
        // [C03.add_edge.traversal_effect]
        ae_traversal(*old(self), *edge, *final(self), r),
        // [C02.history.add_edge_index_sets_effect]
        ae_index(*old(self), *edge, *final(self), r),
        // [C02.history.add_edge_name_keyed_effect, C01.add_edge.name_keyed_store_effect]
        ae_names(*old(self), *edge, *final(self), r),
//@ fi
//@ after let edge_already_exists = self.get_edge_by_indexes(u_node_index, v_node_index).is_ok();
        let ghost g1 = *self;
        proof {
            // a pair one of whose nodes was just created cannot be in the store: keys are < n by wf_estore
            let c = g1.canon(u_node_index, v_node_index);
            if edge_already_exists {
                assert(g1.has_pair(c.0, c.1));
                assert(old(self).has_pair(c.0, c.1));
                assert(c.0 < old(self).n() && c.1 < old(self).n());
                assert(old(self).knows(edge.u) && old(self).knows(edge.v));
            }
            assert(edge_already_exists == old(self).existed(*edge));
            assert(edge_already_exists ==> *self == *old(self));
        }
//@ before match self.specs.multi_edges {
        proof {
            lemma_estore_frame(g1, *self);
        }
        let ghost g2 = *self;
//@ before #3 Ok(())
        proof {
            // the store changed at the canonical key only: the list there is [ordered] or the old list plus ordered
            lemma_estore_after_store(g2, *self, ordered_edge_u, ordered_edge_v, ordered);
//@ if main dm ds um us
            // index sets: node creation leaves them as they were (absent = empty); the entry(..).or_default().insert(..) calls add one member each
            assert forall|i: usize| g1.succ_set(i) == old(self).succ_set(i) && g1.pred_set(i) == old(self).pred_set(i) by {}
            assert(g1.successors_map@.contains_key(u_node_index) && g1.successors_map@.contains_key(v_node_index));
            assert(g1.predecessors_map@.contains_key(u_node_index) && g1.predecessors_map@.contains_key(v_node_index));
            assert forall|i: usize, x: usize| #[trigger] self.succ_set(i).contains(x) ==
                (g1.succ_set(i).contains(x) || (i == u_node_index && x == v_node_index) || (!self.specs.directed && i == v_node_index && x == u_node_index)) by {}
            assert forall|i: usize, x: usize| #[trigger] self.pred_set(i).contains(x) ==
                (g1.pred_set(i).contains(x) || (self.specs.directed && i == v_node_index && x == u_node_index)) by {}
        
//@ fi
        }
//@ end

//@ extract fn src/graph/creation.rs add_edges props=C01,C20 ty=Graph
//@ rewrite
-> Result<(), Error>
//@ with
-> (r: Result<(), Error>)
//@ rewrite
for edge in edges
//@ with
for edge in it: edges
//@ spec
    requires
        old(self).wf_nodes(),
        old(self).wf_estore(),
    ensures
        // [C01.add_edges.prefix]
        batch_rel(*old(self), edges_of(edges@), *final(self), r),
        // [C01.add_edges.wf_preserved]
        final(self).wf_nodes(),
        final(self).wf_estore(),
        final(self).specs == old(self).specs,
        old(self).wf_rows() ==> final(self).wf_rows(),
//@ loop 1
            invariant
                self.wf_nodes(),
                self.wf_estore(),
                self.specs == old(self).specs,
                old(self).wf_rows() ==> self.wf_rows(),
                exists|h: Seq<Graph<T, A>>| #[trigger] prefix_applied(*old(self), edges_of(edges@), h, it.index@, *self),
//@ before for edge in edges
        proof {
            assert(prefix_applied(*old(self), edges_of(edges@), seq![*self], 0, *self));
        }
//@ before self.add_edge(edge)?;
            let ghost s0 = *self;
            let ghost h0 = choose|h: Seq<Graph<T, A>>| #[trigger] prefix_applied(*old(self), edges_of(edges@), h, it.index@, s0);
//@ after self.add_edge(edge)?;
            proof {
                let h1 = h0.push(*self);
                assert forall|j: int| 0 <= j < it.index@ + 1 implies add_edge_rel(h1[j], edges_of(edges@)[j], #[trigger] h1[j + 1], Ok(())) by {
                    if j < it.index@ {
                        assert(h1[j] == h0[j] && h1[j + 1] == h0[j + 1]);
                    }
                }
                assert(prefix_applied(*old(self), edges_of(edges@), h1, it.index@ + 1, *self));
            }
//@ end

//@ extract fn src/graph/creation.rs add_edge_tuples props=C01,C20 ty=Graph
//@ rewrite
-> Result<(), Error>
//@ with
-> (r: Result<(), Error>)
//@ rewrite
for edge in edges
//@ with
for edge in it: edges
//@ spec
    requires
        old(self).wf_nodes(),
        old(self).wf_estore(),
    ensures
        // [C01.add_edge_tuples.prefix]
        batch_rel(*old(self), tuple_edges::<T, A>(edges@), *final(self), r),
        // [C01.add_edge_tuples.wf_preserved]
        final(self).wf_nodes(),
        final(self).wf_estore(),
        final(self).specs == old(self).specs,
        old(self).wf_rows() ==> final(self).wf_rows(),
//@ loop 1
            invariant
                self.wf_nodes(),
                self.wf_estore(),
                self.specs == old(self).specs,
                old(self).wf_rows() ==> self.wf_rows(),
                exists|h: Seq<Graph<T, A>>| #[trigger] prefix_applied(*old(self), tuple_edges::<T, A>(edges@), h, it.index@, *self),
//@ before for edge in edges
        proof {
            assert(prefix_applied(*old(self), tuple_edges::<T, A>(edges@), seq![*self], 0, *self));
        }
//@ before self.add_edge(Edge::new(edge.0, edge.1))?;
            let ghost s0 = *self;
            let ghost h0 = choose|h: Seq<Graph<T, A>>| #[trigger] prefix_applied(*old(self), tuple_edges::<T, A>(edges@), h, it.index@, s0);
//@ after self.add_edge(Edge::new(edge.0, edge.1))?;
            proof {
                let h1 = h0.push(*self);
                assert forall|j: int| 0 <= j < it.index@ + 1 implies add_edge_rel(h1[j], tuple_edges::<T, A>(edges@)[j], #[trigger] h1[j + 1], Ok(())) by {
                    if j < it.index@ {
                        assert(h1[j] == h0[j] && h1[j + 1] == h0[j + 1]);
                    }
                }
                assert(prefix_applied(*old(self), tuple_edges::<T, A>(edges@), h1, it.index@ + 1, *self));
            }
//@ end

//@ extract fn src/graph/creation.rs add_edge_tuple props=C01,C20 ty=Graph
//@ rewrite
-> Result<(), Error>
//@ with
-> (r: Result<(), Error>)
//@ spec
    requires
        old(self).wf_nodes(),
        old(self).wf_estore(),
    ensures
        // [C01.add_edge_tuple.is_add_edge_of_unweighted_edge]
        add_edge_rel(*old(self), Edge { u: u, v: v, attributes: None, weight: f64_nan() }, *final(self), r),
//@ end

//@ extract fn src/graph/creation.rs add_nodes props=C01,C20 ty=Graph
//@ rewrite
for node in nodes
//@ with
for node in it: nodes
//@ spec
    requires
        old(self).wf_nodes(),
    ensures
        // [C01.add_nodes.wf_and_frame]
        final(self).wf_nodes(),
        old(self).wf_estore() ==> final(self).wf_estore(),
        old(self).wf_rows() ==> final(self).wf_rows(),
        final(self).edges_map@ == old(self).edges_map@,
        final(self).specs == old(self).specs,
        // [C01.add_nodes.all_named_nodes_known_old_positions_kept]
        forall|j: int| 0 <= j < nodes@.len() ==> final(self).knows(#[trigger] nodes@[j].name),
        forall|k: T| old(self).knows(k) ==> final(self).knows(k) && #[trigger] final(self).nodes_map@[k] == old(self).nodes_map@[k],
        final(self).n() >= old(self).n(),
//@ loop 1
            invariant
                self.wf_nodes(),
                old(self).wf_estore() ==> self.wf_estore(),
                old(self).wf_rows() ==> self.wf_rows(),
                self.edges_map@ == old(self).edges_map@,
                self.specs == old(self).specs,
                forall|j: int| 0 <= j < it.index@ ==> self.knows(#[trigger] nodes@[j].name),
                forall|k: T| old(self).knows(k) ==> self.knows(k) && #[trigger] self.nodes_map@[k] == old(self).nodes_map@[k],
                self.n() >= old(self).n(),
//@ end

//@ extract fn src/graph/creation.rs new_from_nodes_and_edges props=C01,C20 ty=Graph
//@ rewrite
-> Result<Graph<T, A>, Error>
//@ with
-> (r: Result<Graph<T, A>, Error>)
//@ spec
    requires
        key_model_ok::<T>(),
    ensures
        // [C01.new_from_nodes_and_edges.is_new_then_nodes_then_edges]
        nfne_rel(node_names_of(nodes@), edges_of(edges@), specs, r),
        // [C01.new_from_nodes_and_edges.result_wf]
        r.is_ok() ==> r.unwrap().wf_nodes() && r.unwrap().wf_estore() && r.unwrap().wf_rows() && r.unwrap().specs == specs,
//@ end

// A5 / R-ext for reverse(): get_all_nodes (slice iter collect) and the two clone / map pipelines
//@ extract fn src/graph/query.rs get_all_nodes ty=Graph nobody
//@ head
    #[verifier::external_body]
//@ rewrite
-> Vec<&Arc<Node<T, A>>>
//@ with
-> (r: Vec<&Arc<Node<T, A>>>)
//@ spec
    ensures
        r@.len() == self.n(),
        forall|i: int| 0 <= i < r@.len() ==> **(#[trigger] r@[i]) == *self.nodes_vec@[i],
//@ end

//@ extract fn src/graph/convert.rs reverse props=C06,C15,C20 ty=Graph
//@ rewrite
-> Result<Graph<T, A>, Error>
//@ with
-> (r: Result<Graph<T, A>, Error>)
//@ rewrite
self.get_all_nodes().into_iter().cloned().collect();
//@ with
vclone_nodes(self.get_all_nodes());
//@ rewrite
self
            .get_all_edges()
            .into_iter()
            .map(|edge|
//@ with
vmap_collect(self.get_all_edges(), |edge: &Arc<Edge<T, A>>| -> (o: Arc<Edge<T, A>>) ensures *o == spec_reversed(**edge) {
//@ rewrite
)
            .collect();
        Graph::new_from_nodes_and_edges(
//@ with
 });
        proof {
            assert(node_names_of(new_nodes@) =~= node_names_of(self.nodes_vec@));
            assert(edges_of(new_edges@) =~= Seq::new(self.all_edges_seq().len(), |i: int| spec_reversed(self.all_edges_seq()[i])));
        }
        Graph::new_from_nodes_and_edges(
//@ spec
    requires
        key_model_ok::<T>(),
    ensures
        // [C06.reverse.guard, C15.reverse.directed_only]
        !self.specs.directed ==> is_err_kind(r, ErrorKind::WrongMethod),
        // [C06.reverse.rebuilds_from_same_nodes_and_flipped_edges, C15.reverse.same_nodes_every_edge_flipped_weights_kept]
        self.specs.directed ==> reverse_outcome(*self, r),
        // [C15.reverse.result_is_well_formed_same_specs]
        self.specs.directed && r.is_ok() ==> r.unwrap().wf_nodes() && r.unwrap().wf_estore() && r.unwrap().wf_rows() && r.unwrap().specs == self.specs,
//@ end

//@ extract fn src/graph/ensure.rs ensure_directed props=C02,C20 ty=Graph
//@ rewrite
-> Result<(), Error>
//@ with
-> (r: Result<(), Error>)
//@ spec
    ensures
        // [C02.guards.ensure_directed]
        self.specs.directed ==> r.is_ok(),
        !self.specs.directed ==> is_err_kind(r, ErrorKind::WrongMethod),
//@ end

//@ extract fn src/graph/ensure.rs ensure_undirected props=C02,C20 ty=Graph
//@ rewrite
-> Result<(), Error>
//@ with
-> (r: Result<(), Error>)
//@ spec
    ensures
        // [C02.guards.ensure_undirected]
        !self.specs.directed ==> r.is_ok(),
        self.specs.directed ==> is_err_kind(r, ErrorKind::WrongMethod),
//@ end

//@ extract fn src/graph/ensure.rs ensure_not_multi_edges props=C02,C20 ty=Graph
//@ rewrite
-> Result<(), Error>
//@ with
-> (r: Result<(), Error>)
//@ spec
    ensures
        // [C02.guards.ensure_not_multi_edges]
        !self.specs.multi_edges ==> r.is_ok(),
        self.specs.multi_edges ==> is_err_kind(r, ErrorKind::WrongMethod),
//@ end

//@ extract fn src/graph/query.rs get_successor_nodes_by_index props=C02,C03,C20 ty=Graph
//@ rewrite
-> &Vec<AdjacentNode>
//@ with
-> (r: &Vec<AdjacentNode>)
//@ spec
    requires
        *node_index < self.successors_vec@.len(),
    ensures
        // [C02.row.successors_exact, C03.consumers.read_successor_row]
        *r == self.successors_vec@[*node_index as int],
//@ end

//@ extract fn src/graph/query.rs get_predecessor_nodes_by_index props=C02,C03,C20 ty=Graph
//@ rewrite
-> &Vec<AdjacentNode>
//@ with
-> (r: &Vec<AdjacentNode>)
//@ spec
    requires
        *node_index < self.predecessors_vec@.len(),
    ensures
        // [C02.row.predecessors_exact, C03.consumers.read_predecessor_row]
        *r == self.predecessors_vec@[*node_index as int],
//@ end

//@ extract fn src/graph/query.rs get_successors_map props=C02,C20 ty=Graph
//@ rewrite
-> &HashMap<T, HashSet<T>>
//@ with
-> (r: &HashMap<T, HashSet<T>>)
//@ spec
    ensures
        // [C02.maps.successors_map_is_the_store]
        *r == self.successors,
//@ end

//@ extract fn src/graph/query.rs get_predecessors_map props=C02,C20 ty=Graph
//@ rewrite
-> &HashMap<T, HashSet<T>>
//@ with
-> (r: &HashMap<T, HashSet<T>>)
//@ spec
    ensures
        // [C02.maps.predecessors_map_is_the_store]
        *r == self.predecessors,
//@ end

// A5: assumed contract on an unverified graphrs function (values().flatten().collect() pipeline)
//@ extract fn src/graph/query.rs get_all_edges ty=Graph nobody
//@ head
    #[verifier::external_body]
//@ rewrite
-> Vec<&Arc<Edge<T, A>>>
//@ with
-> (r: Vec<&Arc<Edge<T, A>>>)
//@ spec
    ensures
        r@.len() == self.stored_edge_count(),
        r@.len() == self.all_edges_seq().len(),
        forall|i: int| 0 <= i < r@.len() ==> **(#[trigger] r@[i]) == self.all_edges_seq()[i],
//@ end

//@ extract fn src/graph/query.rs edges_have_weight props=C02,C20 ty=Graph
//@ rewrite
-> bool
//@ with
-> (r: bool)
//@ rewrite
for edge in self.get_all_edges()
//@ with
for edge in it: self.get_all_edges()
//@ spec
    ensures
        // [C02.guards.edges_have_weight]
        r == (forall|i: int| 0 <= i < self.all_edges_seq().len() ==> feq((#[trigger] self.all_edges_seq()[i]).weight, self.all_edges_seq()[i].weight)),
//@ loop 1
            invariant
                forall|i: int| 0 <= i < it.index@ ==> feq((#[trigger] self.all_edges_seq()[i]).weight, self.all_edges_seq()[i].weight),
//@ end

//@ extract fn src/graph/ensure.rs ensure_weighted props=C02,C20 ty=Graph
//@ rewrite
-> Result<(), Error>
//@ with
-> (r: Result<(), Error>)
//@ spec
    ensures
        // [C02.guards.ensure_weighted]
        (forall|i: int| 0 <= i < self.all_edges_seq().len() ==> feq((#[trigger] self.all_edges_seq()[i]).weight, self.all_edges_seq()[i].weight)) ==> r.is_ok(),
        !(forall|i: int| 0 <= i < self.all_edges_seq().len() ==> feq((#[trigger] self.all_edges_seq()[i]).weight, self.all_edges_seq()[i].weight)) ==> is_err_kind(r, ErrorKind::EdgeWeightNotSpecified),
//@ end

//@ extract fn src/graph/query.rs number_of_edges props=C09,C20 ty=Graph
//@ rewrite
-> usize
//@ with
-> (r: usize)
//@ spec
    ensures
        // [C09.count.edges_is_len_of_all_edges]
        r == self.stored_edge_count(),
//@ end

//@ extract fn src/graph/density.rs get_density props=C09,C20 ty=Graph
//@ rewrite
-> f64
//@ with
-> (r: f64)
//@ rewrite
self.edges.len() as f64
//@ with
vcast_usize_f64(self.edges.len())
//@ rewrite
self.nodes_vec.len() as f64
//@ with
vcast_usize_f64(self.nodes_vec.len())
//@ spec
    requires
        key_model_ok::<T>(),
    ensures
        // [C09.density.formula]
        self.edges@.len() == 0 ==> r == 0.0f64,
        self.edges@.len() != 0 ==> ({
            let m = usize_to_f64(self.edges@.len() as usize);
            let n = usize_to_f64(self.nodes_vec@.len() as usize);
            &&& self.specs.directed ==> r == fdiv(m, fmul(n, fsub(n, 1.0f64)))
            &&& !self.specs.directed ==> r == fdiv(fmul(2.0f64, m), fmul(n, fsub(n, 1.0f64)))
        }),
//@ end

//@ extract fn src/graph/query.rs _get_successor_nodes props=C02,C20 ty=Graph
//@ rewrite
-> Result<Vec<&Arc<Node<T, A>>>, Error>
//@ with
-> (r: Result<Vec<&Arc<Node<T, A>>>, Error>)
//@ rewrite
            Some(hashset) => Ok(hashset
                .iter()
                .map(|index| self.get_node_by_index(index).unwrap())
                .collect()),
//@ with
            Some(hashset) => Ok({
                let it = vset_iter(hashset);
                let ghost src = it.remaining();
                proof { assert(hashset@ == self.succ_set(nodex_index)); }
                let mut out: Vec<&Arc<Node<T, A>>> = Vec::new();
                for index in iter: it
                    invariant
                        self.wf_nodes(), self.wf_index_members(),
                        hashset@ == self.succ_set(nodex_index),
                        iter.seq() == src,
                        forall|k: int| 0 <= k < src.len() ==> hashset@.contains(*#[trigger] src[k]),
                        out@.len() == iter.index@,
                        forall|k: int| 0 <= k < out@.len() ==> **#[trigger] out@[k] == *self.nodes_vec@[*src[k] as int],
                {
                    proof { assert(hashset@.contains(*index)); }
                    out.push(self.get_node_by_index(index).unwrap());
                }
                proof {
                    let ids = Seq::new(src.len(), |k: int| *src[k]);
                    assert(ids.no_duplicates()) by {
                        assert forall|a: int, b: int| 0 <= a < ids.len() && 0 <= b < ids.len() && a != b implies ids[a] != ids[b] by {
                            assert(src[a] != src[b]);
                        }
                    }
                    assert forall|x: usize| hashset@.contains(x) implies #[trigger] ids.contains(x) by {
                        let k = choose|k: int| 0 <= k < src.len() && *#[trigger] src[k] == x;
                        assert(ids[k] == x);
                    }
                    assert forall|k: int| 0 <= k < ids.len() implies hashset@.contains(#[trigger] ids[k]) && ids[k] < self.n() && **out@[k] == *self.nodes_vec@[ids[k] as int] by {
                        assert(hashset@.contains(*src[k]));
                    }
                    assert(self.lists_nodes_of(hashset@, out@));
                    if self.specs.directed {
                        assert forall|k: int| 0 <= k < out@.len() implies steps_to(*self, node_name, (#[trigger] out@[k]).name) by {
                            assert(hashset@.contains(ids[k]) && **out@[k] == *self.nodes_vec@[ids[k] as int]);
                            assert(self.nodes_map@[self.nodes_vec@[ids[k] as int].name] == ids[k]);
                        }
                        assert forall|x: T| steps_to(*self, node_name, x) implies exists|k: int| 0 <= k < out@.len() && (#[trigger] out@[k]).name == x by {
                            let px = self.nodes_map@[x];
                            assert(ids.contains(px));
                            let k = choose|k: int| 0 <= k < ids.len() && ids[k] == px;
                            assert(**out@[k] == *self.nodes_vec@[px as int]);
                            assert(out@[k].name == x);
                        }
                        assert(one_step_list(*self, node_name, out@));
                    }
                }
                out
            }),
//@ spec
    requires
        self.wf_nodes(),
        self.wf_index_members(),
    ensures
        // [C02.adjacency.successor_nodes]
        !self.knows(node_name) ==> is_err_kind(r, ErrorKind::NodeNotFound),
        self.knows(node_name) ==> r.is_ok() && self.lists_nodes_of(self.succ_set(self.nodes_map@[node_name]), r.unwrap()@),
        // [C02.adjacency.successor_nodes_are_the_one_step_nodes]
        self.knows(node_name) && self.specs.directed ==> r.is_ok() && one_step_list(*self, node_name, r.unwrap()@),
//@ end

//@ extract fn src/graph/query.rs _get_predecessor_nodes props=C02,C20 ty=Graph
//@ rewrite
-> Result<Vec<&Arc<Node<T, A>>>, Error>
//@ with
-> (r: Result<Vec<&Arc<Node<T, A>>>, Error>)
//@ rewrite
            Some(hashset) => Ok(hashset
                .iter()
                .map(|index| self.get_node_by_index(index).unwrap())
                .collect()),
//@ with
            Some(hashset) => Ok({
                let it = vset_iter(hashset);
                let ghost src = it.remaining();
                proof { assert(hashset@ == self.pred_set(node_index)); }
                let mut out: Vec<&Arc<Node<T, A>>> = Vec::new();
                for index in iter: it
                    invariant
                        self.wf_nodes(), self.wf_index_members(),
                        hashset@ == self.pred_set(node_index),
                        iter.seq() == src,
                        forall|k: int| 0 <= k < src.len() ==> hashset@.contains(*#[trigger] src[k]),
                        out@.len() == iter.index@,
                        forall|k: int| 0 <= k < out@.len() ==> **#[trigger] out@[k] == *self.nodes_vec@[*src[k] as int],
                {
                    proof { assert(hashset@.contains(*index)); }
                    out.push(self.get_node_by_index(index).unwrap());
                }
                proof {
                    let ids = Seq::new(src.len(), |k: int| *src[k]);
                    assert(ids.no_duplicates()) by {
                        assert forall|a: int, b: int| 0 <= a < ids.len() && 0 <= b < ids.len() && a != b implies ids[a] != ids[b] by {
                            assert(src[a] != src[b]);
                        }
                    }
                    assert forall|x: usize| hashset@.contains(x) implies #[trigger] ids.contains(x) by {
                        let k = choose|k: int| 0 <= k < src.len() && *#[trigger] src[k] == x;
                        assert(ids[k] == x);
                    }
                    assert forall|k: int| 0 <= k < ids.len() implies hashset@.contains(#[trigger] ids[k]) && ids[k] < self.n() && **out@[k] == *self.nodes_vec@[ids[k] as int] by {
                        assert(hashset@.contains(*src[k]));
                    }
                    assert(self.lists_nodes_of(hashset@, out@));
                }
                out
            }),
//@ spec
    requires
        self.wf_nodes(),
        self.wf_index_members(),
    ensures
        // [C02.adjacency.predecessor_nodes]
        !self.knows(node_name) ==> is_err_kind(r, ErrorKind::NodeNotFound),
        self.knows(node_name) ==> r.is_ok() && self.lists_nodes_of(self.pred_set(self.nodes_map@[node_name]), r.unwrap()@),
//@ end

//@ extract fn src/graph/query.rs get_successor_nodes props=C02,C20 ty=Graph
//@ rewrite
-> Result<Vec<&Arc<Node<T, A>>>, Error>
//@ with
-> (r: Result<Vec<&Arc<Node<T, A>>>, Error>)
//@ spec
    requires
        self.wf_nodes(),
        self.wf_index_members(),
    ensures
        // [C02.adjacency.successor_nodes_directed_only]
        !self.specs.directed ==> is_err_kind(r, ErrorKind::WrongMethod),
        self.specs.directed && !self.knows(node_name) ==> is_err_kind(r, ErrorKind::NodeNotFound),
        // [C02.adjacency.successor_nodes_public]
        self.specs.directed && self.knows(node_name) ==> r.is_ok() && self.lists_nodes_of(self.succ_set(self.nodes_map@[node_name]), r.unwrap()@),
        self.specs.directed && self.knows(node_name) ==> one_step_list(*self, node_name, r.unwrap()@),
//@ end

//@ extract fn src/graph/query.rs get_predecessor_nodes props=C02,C20 ty=Graph
//@ rewrite
-> Result<Vec<&Arc<Node<T, A>>>, Error>
//@ with
-> (r: Result<Vec<&Arc<Node<T, A>>>, Error>)
//@ spec
    requires
        self.wf_nodes(),
        self.wf_index_members(),
    ensures
        // [C02.adjacency.predecessor_nodes_directed_only]
        !self.specs.directed ==> is_err_kind(r, ErrorKind::WrongMethod),
        self.specs.directed && !self.knows(node_name) ==> is_err_kind(r, ErrorKind::NodeNotFound),
        // [C02.adjacency.predecessor_nodes_public]
        self.specs.directed && self.knows(node_name) ==> r.is_ok() && self.lists_nodes_of(self.pred_set(self.nodes_map@[node_name]), r.unwrap()@),
//@ end

//@ extract fn src/graph/convert.rs set_all_edge_weights props=C15,C20 ty=Graph
//@ rewrite
-> Graph<T, A>
//@ with
-> (r: Graph<T, A>)
//@ rewrite
self.get_all_nodes().into_iter().cloned().collect();
//@ with
vclone_nodes(self.get_all_nodes());
//@ rewrite
let new_edges = self
            .get_all_edges()
            .into_iter()
            .map(|edge| {
//@ with
let new_edges = vmap_collect(self.get_all_edges(), |edge: &Arc<Edge<T, A>>| -> (o: Arc<Edge<T, A>>)
                ensures *o == spec_reweighted(**edge, weight),
            {
//@ rewrite
let new_edge_mut = Arc::make_mut(&mut new_edge);
                new_edge_mut.weight = weight;
//@ with
vset_arc_edge_weight(&mut new_edge, weight);
//@ rewrite
            })
            .collect();
        Graph::new_from_nodes_and_edges(new_nodes, new_edges, self.specs.clone()).unwrap()
//@ with
            });
        proof {
            assert(node_names_of(new_nodes@) =~= node_names_of(self.nodes_vec@));
            assert(edges_of(new_edges@) =~= Seq::new(self.all_edges_seq().len(), |i: int| spec_reweighted(self.all_edges_seq()[i], weight)));
            assert forall|rr: Result<Graph<T, A>, Error>| #[trigger] nfne_rel(node_names_of(new_nodes@), edges_of(new_edges@), self.specs, rr)
                implies rr.is_ok() && reweight_outcome(*self, weight, rr) by {
                assert(reweight_outcome(*self, weight, rr));
            }
        }
        Graph::new_from_nodes_and_edges(new_nodes, new_edges, self.specs.clone()).unwrap()
//@ spec
    requires
        key_model_ok::<T>(),
        // rebuilding the graph from the reweighted edges does not fail
        forall|rr: Result<Graph<T, A>, Error>| #[trigger] reweight_outcome(*self, weight, rr) ==> rr.is_ok(),
    ensures
        // [C15.reweight.same_nodes_same_edges_every_weight_set]
        reweight_outcome(*self, weight, Ok(r)),
        // [C15.reweight.result_is_well_formed_same_specs]
        r.wf_nodes() && r.wf_estore() && r.wf_rows() && r.specs == self.specs,
//@ end

//@ extract fn src/graph/convert.rs to_single_edges props=C15,C20 ty=Graph
//@ rewrite
-> Result<Graph<T, A>, Error>
//@ with
-> (r: Result<Graph<T, A>, Error>)
//@ rewrite
let new_nodes = self.nodes_vec.clone();
//@ with
let new_nodes = vclone_node_vec(&self.nodes_vec);
//@ rewrite
self.edges.iter().map(collapse_edges).collect();
//@ with
vcollapse_all(&self.edges);
//@ spec
    requires
        key_model_ok::<T>(),
    ensures
        // [C15.collapse.multi_edge_graphs_only]
        !self.specs.multi_edges ==> is_err_kind(r, ErrorKind::WrongMethod),
        // [C15.collapse.same_nodes_one_edge_per_stored_pair_single_edge_specs]
        // the result is new_from_nodes_and_edges(the same nodes, one collapsed edge per key of the name-keyed store, the same specs
        // with multi_edges switched off)
        self.specs.multi_edges ==> exists|keys: Seq<(T, T)>| #[trigger] collapse_outcome(*self, keys, r),
//@ before Graph::new_from_nodes_and_edges(
        let ghost keys = choose|keys: Seq<(T, T)>| #[trigger] keys.no_duplicates() && (forall|k: (T, T)| self.edges@.contains_key(k) <==> #[trigger] keys.contains(k))
            && new_edges@.len() == keys.len() && forall|i: int| 0 <= i < keys.len() ==> *#[trigger] new_edges@[i] == collapsed_edge(keys[i], self.edges@[keys[i]]@);
        proof {
            let sp = GraphSpecs { multi_edges: false, ..self.specs };
            assert(node_names_of(new_nodes@) =~= node_names_of(self.nodes_vec@));
            assert(edges_of(new_edges@) =~= Seq::new(keys.len(), |i: int| collapsed_edge(keys[i], self.edges@[keys[i]]@)));
            assert forall|rr: Result<Graph<T, A>, Error>| #[trigger] nfne_rel(node_names_of(new_nodes@), edges_of(new_edges@), sp, rr)
                implies collapse_outcome(*self, keys, rr) by {}
        }
//@ end

//@ extract fn src/graph/subgraph.rs get_subgraph props=C15,C20 ty=Graph
//@ rewrite
-> Graph<T, A>
//@ with
-> (r: Graph<T, A>)
//@ rewrite
nodes.iter().cloned().collect();
//@ with
vslice_to_hashset(nodes);
//@ rewrite
let new_nodes = self
            .get_all_nodes()
            .into_iter()
            .filter(|n|
//@ with
let all_nodes_v = self.get_all_nodes();
        let ghost av = all_nodes_v@;
        let node_pred = |n: &&Arc<Node<T, A>>| -> (b: bool) ensures b == nodes_set@.contains(n.name) {
//@ rewrite
)
            .cloned()
            .collect::<Vec<Arc<Node<T, A>>>>();
//@ with
 };
        let new_nodes = vfilter_cloned_collect(all_nodes_v, node_pred);
//@ rewrite
let new_edges = self
            .get_all_edges()
            .into_iter()
            .filter(|e|
//@ with
let all_edges_v = self.get_all_edges();
        let ghost ae = all_edges_v@;
        let edge_pred = |e: &&Arc<Edge<T, A>>| -> (b: bool) ensures b == (nodes_set@.contains(e.u) && nodes_set@.contains(e.v)) {
//@ rewrite
)
            .cloned()
            .collect::<Vec<Arc<Edge<T, A>>>>();
//@ with
 };
        let new_edges = vfilter_cloned_collect(all_edges_v, edge_pred);
//@ spec
    requires
        key_model_ok::<T>(),
        // rebuilding a graph from the selected nodes and edges does not fail
        forall|kn: Seq<int>, ke: Seq<int>, rr: Result<Graph<T, A>, Error>| #[trigger] subgraph_outcome(*self, nodes@.to_set(), kn, ke, rr) ==> rr.is_ok(),
    ensures
        // [C15.subgraph.induced_nodes_in_order_and_exactly_the_edges_between_them]
        // the result is new_from_nodes_and_edges(the nodes whose name is in `nodes`, in their original order; exactly the stored
        // edges with both ends in `nodes`, in get_all_edges() order; the same specs)
        exists|kn: Seq<int>, ke: Seq<int>| #[trigger] subgraph_outcome(*self, nodes@.to_set(), kn, ke, Ok(r)),
        // [C15.subgraph.result_is_well_formed_same_specs]
        r.wf_nodes() && r.wf_estore() && r.wf_rows() && r.specs == self.specs,
//@ before Graph::new_from_nodes_and_edges(new_nodes, new_edges, self.specs.clone()).unwrap()
        let ghost kn = choose|kn: Seq<int>| #[trigger] filter_picks(av, new_nodes@, kn, node_pred);
        let ghost ke = choose|ke: Seq<int>| #[trigger] filter_picks(ae, new_edges@, ke, edge_pred);
        let ghost sel = nodes@.to_set();
        proof {
            assert(filter_picks(av, new_nodes@, kn, node_pred));
            assert(filter_picks(ae, new_edges@, ke, edge_pred));
            let names = node_names_of(self.nodes_vec@);
            let alle = self.all_edges_seq();
            assert forall|k: int| 0 <= k < kn.len() implies sel.contains(#[trigger] names[kn[k]]) by {
                assert(call_ensures(node_pred, (&av[kn[k]],), true));
            }
            assert forall|i: int| 0 <= i < names.len() && sel.contains(#[trigger] names[i]) implies kn.contains(i) by {
                assert(kn.contains(i) || call_ensures(node_pred, (&av[i],), false));
            }
            assert forall|k: int| 0 <= k < ke.len() implies sel.contains((#[trigger] alle[ke[k]]).u) && sel.contains(alle[ke[k]].v) by {
                assert(call_ensures(edge_pred, (&ae[ke[k]],), true));
            }
            assert forall|i: int| 0 <= i < alle.len() && sel.contains((#[trigger] alle[i]).u) && sel.contains(alle[i].v) implies ke.contains(i) by {
                assert(ke.contains(i) || call_ensures(edge_pred, (&ae[i],), false));
            }
            assert(node_names_of(new_nodes@) =~= Seq::new(kn.len(), |k: int| names[kn[k]]));
            assert(edges_of(new_edges@) =~= Seq::new(ke.len(), |k: int| alle[ke[k]]));
            assert(picks(names, kn, |x: T| sel.contains(x)));
            assert(picks(alle, ke, |e: Edge<T, A>| sel.contains(e.u) && sel.contains(e.v)));
            assert forall|rr: Result<Graph<T, A>, Error>| #[trigger] nfne_rel(node_names_of(new_nodes@), edges_of(new_edges@), self.specs, rr)
                implies rr.is_ok() && subgraph_outcome(*self, sel, kn, ke, rr) by {
                assert(subgraph_outcome(*self, sel, kn, ke, rr));
            }
        }
//@ end

//@ extract fn src/graph/query.rs get_successor_node_names props=C02,C20 ty=Graph
//@ rewrite
-> Result<Vec<&T>, Error>
//@ with
-> (r: Result<Vec<&T>, Error>)
//@ rewrite
Ok(nodes.into_iter().map(|n|
//@ with
let ghost nv = nodes@;
        Ok(vmap_collect(nodes, |n: &Arc<Node<T, A>>| -> (o: &T) ensures *o == n.name {
//@ rewrite
).collect())
//@ with
 }))
//@ spec
    requires
        self.wf_nodes(),
        self.wf_index_members(),
    ensures
        // [C02.adjacency.successor_names_guards]
        !self.specs.directed ==> is_err_kind(r, ErrorKind::WrongMethod),
        self.specs.directed && !self.knows(node_name) ==> is_err_kind(r, ErrorKind::NodeNotFound),
        // [C02.adjacency.successor_names_are_the_names_of_the_successor_nodes]
        self.specs.directed && self.knows(node_name) ==> r.is_ok() && exists|nodes: Seq<&Arc<Node<T, A>>>|
            #[trigger] self.lists_nodes_of(self.succ_set(self.nodes_map@[node_name]), nodes) && r.unwrap()@.len() == nodes.len()
            && forall|i: int| 0 <= i < nodes.len() ==> *#[trigger] r.unwrap()@[i] == nodes[i].name,
//@ end

//@ extract fn src/graph/query.rs get_predecessor_node_names props=C02,C20 ty=Graph
//@ rewrite
-> Result<Vec<&T>, Error>
//@ with
-> (r: Result<Vec<&T>, Error>)
//@ rewrite
Ok(nodes.into_iter().map(|n|
//@ with
let ghost nv = nodes@;
        Ok(vmap_collect(nodes, |n: &Arc<Node<T, A>>| -> (o: &T) ensures *o == n.name {
//@ rewrite
).collect())
//@ with
 }))
//@ spec
    requires
        self.wf_nodes(),
        self.wf_index_members(),
    ensures
        // [C02.adjacency.predecessor_names_guards]
        !self.specs.directed ==> is_err_kind(r, ErrorKind::WrongMethod),
        self.specs.directed && !self.knows(node_name) ==> is_err_kind(r, ErrorKind::NodeNotFound),
        // [C02.adjacency.predecessor_names_are_the_names_of_the_predecessor_nodes]
        self.specs.directed && self.knows(node_name) ==> r.is_ok() && exists|nodes: Seq<&Arc<Node<T, A>>>|
            #[trigger] self.lists_nodes_of(self.pred_set(self.nodes_map@[node_name]), nodes) && r.unwrap()@.len() == nodes.len()
            && forall|i: int| 0 <= i < nodes.len() ==> *#[trigger] r.unwrap()@[i] == nodes[i].name,
//@ end

//@ extract fn src/graph/query.rs get_neighbor_nodes props=C02,C20 ty=Graph
//@ rewrite
-> Result<Vec<&Arc<Node<T, A>>>, Error>
//@ with
-> (r: Result<Vec<&Arc<Node<T, A>>>, Error>)
//@ rewrite
let all_nodes = pred_nodes
            .into_iter()
            .chain(succ_nodes)
            .sorted_by(|a, b| Ord::cmp(&a.node_index, &b.node_index))
            .dedup_by(|a, b| a.node_index == b.node_index)
            .map(|adj|
//@ with
let merged = vchain_sorted_dedup(pred_nodes, succ_nodes);
        let ghost mv = merged@;
        let all_nodes = vmap_collect(merged, |adj: &AdjacentNode| -> (o: &Arc<Node<T, A>>)
                requires adj.node_index < self.n(), self.wf_nodes(),
                ensures **o == *self.nodes_vec@[adj.node_index as int],
            {
//@ rewrite
)
            .collect();

        Ok(all_nodes)
//@ with
 });
        proof {
            assert(neighbors_listed(*self, node_index, mv, all_nodes@));
            if !self.specs.directed {
                let pr = self.predecessors_vec@[node_index as int]@;
                let sr = self.successors_vec@[node_index as int]@;
                assert forall|k: int| 0 <= k < all_nodes@.len() implies steps_to(*self, node_name, (#[trigger] all_nodes@[k]).name) by {
                    let px = mv[k].node_index;
                    assert(**all_nodes@[k] == *self.nodes_vec@[px as int]);
                    assert(self.nodes_map@[self.nodes_vec@[px as int].name] == px);
                    let j = choose|j: int| (0 <= j < pr.len() && pr[j].node_index == mv[k].node_index) || (0 <= j < sr.len() && sr[j].node_index == mv[k].node_index);
                    assert(in_row(pr, px) || in_row(sr, px));
                }
                assert forall|x: T| steps_to(*self, node_name, x) implies exists|k: int| 0 <= k < all_nodes@.len() && (#[trigger] all_nodes@[k]).name == x by {
                    let px = self.nodes_map@[x];
                    if in_row(pr, px) {
                        let j = choose|j: int| 0 <= j < pr.len() && (#[trigger] pr[j]).node_index == px;
                        let i = choose|i: int| 0 <= i < mv.len() && (#[trigger] mv[i]).node_index == pr[j].node_index;
                        assert(**all_nodes@[i] == *self.nodes_vec@[px as int]);
                        assert(all_nodes@[i].name == x);
                    } else {
                        let j = choose|j: int| 0 <= j < sr.len() && (#[trigger] sr[j]).node_index == px;
                        let i = choose|i: int| 0 <= i < mv.len() && (#[trigger] mv[i]).node_index == sr[j].node_index;
                        assert(**all_nodes@[i] == *self.nodes_vec@[px as int]);
                        assert(all_nodes@[i].name == x);
                    }
                }
                assert(one_step_list(*self, node_name, all_nodes@));
            }
        }
        let res: Result<Vec<&Arc<Node<T, A>>>, Error> = Ok(all_nodes);
        proof { assert(res.unwrap()@ == all_nodes@); }
        res
//@ spec
    requires
        self.wf_nodes(),
        self.wf_rows(),
    ensures
        // [C02.adjacency.neighbor_nodes_guard]
        !self.knows(node_name) ==> is_err_kind(r, ErrorKind::NodeNotFound),
        // [C02.adjacency.neighbor_nodes_are_the_nodes_of_both_rows_each_once_by_position]
        // the nodes at the positions named by the predecessor row or the successor row of the node, in increasing position, each once
        self.knows(node_name) ==> r.is_ok() && exists|m: Seq<&AdjacentNode>| #[trigger] neighbors_listed(*self, self.nodes_map@[node_name], m, r.unwrap()@),
        // [C02.adjacency.neighbor_nodes_are_the_one_step_nodes]
        self.knows(node_name) && !self.specs.directed ==> one_step_list(*self, node_name, r.unwrap()@),
//@ end

//@ extract fn src/graph/query.rs get_successors_or_neighbors props=C02,C10,C20 ty=Graph
//@ rewrite
-> Vec<&Arc<Node<T, A>>>
//@ with
-> (r: Vec<&Arc<Node<T, A>>>)
//@ spec
    requires
        self.wf_nodes(), self.wf_rows(), self.wf_index_members(),
        self.knows(node_name),
    ensures
        // [C02.adjacency.successors_or_neighbors_lists_exactly_the_one_step_nodes]
        one_step_list(*self, node_name, r@),
//@ end

//@ extract fn src/graph/query.rs get_node_by_index props=C02,C20 ty=Graph
//@ rewrite
-> Option<&Arc<Node<T, A>>>
//@ with
-> (r: Option<&Arc<Node<T, A>>>)
//@ spec
    requires
        self.wf_nodes(),
    ensures
        // [C02.lookup.index_to_node]
        *node_index < self.nodes_vec@.len() ==> r.is_some() && **r.unwrap() == *self.nodes_vec@[*node_index as int],
        *node_index >= self.nodes_vec@.len() ==> r.is_none(),
//@ end
}


// R-ext helpers of reverse() (A5)
#[verifier::external_body]
pub fn vclone_nodes<T: Send + Sync, A>(v: Vec<&Arc<Node<T, A>>>) -> (r: Vec<Arc<Node<T, A>>>)
    ensures r@.len() == v@.len(), forall|i: int| 0 <= i < r@.len() ==> *(#[trigger] r@[i]) == **v@[i],
{ v.into_iter().cloned().collect() }
// R-ext (A5) for to_single_edges: `self.nodes_vec.clone()` and `self.edges.iter().map(collapse_edges).collect()` (hash map iteration):
// ASSUMED to clone the node vector / to apply collapse_edges to every (key, list) entry of the name-keyed store exactly once
#[verifier::external_body]
pub fn vclone_node_vec<T: Send + Sync, A>(v: &Vec<Arc<Node<T, A>>>) -> (r: Vec<Arc<Node<T, A>>>)
    ensures r@ == v@,
{ v.clone() }
#[verifier::external_body]
pub fn vcollapse_all<T: Eq + Hash + Clone + PartialOrd + Ord + Send + Sync + Display, A: Clone>(m: &HashMap<(T, T), Vec<Arc<Edge<T, A>>>>) -> (r: Vec<Arc<Edge<T, A>>>)
    ensures exists|keys: Seq<(T, T)>| #[trigger] keys.no_duplicates() && (forall|k: (T, T)| m@.contains_key(k) <==> #[trigger] keys.contains(k))
        && r@.len() == keys.len() && forall|i: int| 0 <= i < keys.len() ==> *#[trigger] r@[i] == collapsed_edge(keys[i], m@[keys[i]]@),
{ unimplemented!() /* m.iter().map(collapse_edges).collect() in the repository */ }
// R-ext (A5): itertools' `a.into_iter().chain(b).sorted_by(by position).dedup_by(same position)`: ASSUMED to list, in strictly
// increasing position, exactly the positions that occur in one of the two rows (one entry each)
#[verifier::external_body]
pub fn vchain_sorted_dedup<'a>(a: &'a Vec<AdjacentNode>, b: &'a Vec<AdjacentNode>) -> (r: Vec<&'a AdjacentNode>)
    ensures merged_rows(a@, b@, r@),
{ unimplemented!() }
// R-ext (A5): `let m = Arc::make_mut(&mut a); m.weight = w;` (a returned &mut is outside Verus): ASSUMED to set the weight and nothing else
#[verifier::external_body]
pub fn vset_arc_edge_weight<T: Clone + PartialOrd + Send, A: Clone>(a: &mut Arc<Edge<T, A>>, w: f64)
    ensures **final(a) == spec_reweighted(**old(a), w),
{ Arc::make_mut(a).weight = w; }
// R-ext (A5): `v.into_iter().map(f).collect()` targets a local declaration ASSUMED to apply f to every element in order; the closure f
// stays in place and is verified against the postcondition written on it
#[verifier::external_body]
pub fn vmap_collect<I, O, F: FnMut(I) -> O>(v: Vec<I>, f: F) -> (r: Vec<O>)
    requires forall|i: int| 0 <= i < v@.len() ==> call_requires(f, (#[trigger] v@[i],)),
    ensures r@.len() == v@.len(), forall|i: int| 0 <= i < r@.len() ==> call_ensures(f, (v@[i],), #[trigger] r@[i]),
{ v.into_iter().map(f).collect() }

// R-ext (A5): `v.into_iter().filter(f).cloned().collect()` targets a local declaration ASSUMED to keep, in order, clones of exactly
// the elements for which f answers true (`keep` lists their positions; an element that is not kept has `false` as an answer of f);
// the closure f stays in place and is verified against the postcondition written on it
pub open spec fn filter_picks<Y, F: FnMut(&&Arc<Y>) -> bool>(v: Seq<&Arc<Y>>, r: Seq<Arc<Y>>, keep: Seq<int>, f: F) -> bool {
    &&& keep.len() == r.len()
    &&& forall|a: int, b: int| 0 <= a < b < keep.len() ==> keep[a] < keep[b]
    &&& forall|k: int| 0 <= k < keep.len() ==> 0 <= #[trigger] keep[k] < v.len() && *r[k] == **v[keep[k]] && call_ensures(f, (&v[keep[k]],), true)
    &&& forall|i: int| 0 <= i < v.len() ==> keep.contains(i) || call_ensures(f, (&#[trigger] v[i],), false)
}
#[verifier::external_body]
pub fn vfilter_cloned_collect<Y, F: FnMut(&&Arc<Y>) -> bool>(v: Vec<&Arc<Y>>, f: F) -> (r: Vec<Arc<Y>>)
    requires forall|i: int| 0 <= i < v@.len() ==> call_requires(f, (&#[trigger] v@[i],)),
    ensures exists|keep: Seq<int>| #[trigger] filter_picks(v@, r@, keep, f),
{ v.into_iter().filter(f).cloned().collect() }
// R-ext (A5): `nodes.iter().cloned().collect::<HashSet<T>>()`: ASSUMED to build the set of the slice's elements
#[verifier::external_body]
pub fn vslice_to_hashset<T: Eq + Hash + Clone>(v: &[T]) -> (r: HashSet<T>)
    ensures r@ == v@.to_set(),
{ v.iter().cloned().collect() }

// ---- case split used to verify add_edge (one Verus run per case) ----
pub open spec fn add_edge_case<T: Eq + PartialOrd + Send + Sync, A: Clone>(g: Graph<T, A>, directed: bool, multi: bool) -> bool {
    g.specs.directed == directed && g.specs.multi_edges == multi
}

// [C01.add_edge.cases_cover]
pub proof fn lemma_add_edge_cases_cover<T: Eq + PartialOrd + Send + Sync, A: Clone>(g: Graph<T, A>)
    ensures
        add_edge_case(g, true, true) || add_edge_case(g, true, false) || add_edge_case(g, false, true) || add_edge_case(g, false, false),
{
}

// R-ext (A5): `v.iter().map(|e| e.weight).sum()` (Iterator::sum over f64): uninterpreted fold
#[verifier::external_body]
pub fn vsum_weight_list<T: PartialOrd + Send, A>(v: &Vec<Arc<Edge<T, A>>>) -> (r: f64)
    ensures r == wsum_list(v@),
{ v.iter().map(|e| e.weight).sum() }

//@ extract fn src/graph/convert.rs collapse_edges props=C15,C20
//@ rewrite
-> Arc<Edge<T, A>>
//@ with
-> (r: Arc<Edge<T, A>>)
//@ rewrite
v.iter().map(|e| e.weight).sum();
//@ with
vsum_weight_list(v);
//@ spec
    ensures
        // [C15.collapse.one_edge_with_the_summed_weight]
        *r == collapsed_edge(*tuple.0, tuple.1@),
//@ end
