// ---- C10: breadth_first_search over names, level by level ----
// R-ext (A5): `vec![x].to_hashset()`, `for v in <owned HashSet>` (HashSet::into_iter has no vstd model: the set is handed over as a vector
// ASSUMED to hold every element exactly once), `v.into_iter().map(f).collect::<HashSet<_>>()` (ASSUMED: the set of the values f returns, f
// verified in place) and `a.union(&b).cloned().collect()`
#[verifier::external_body]
pub fn vsingleton_set<T: Eq + Hash>(x: T) -> (r: HashSet<T>)
    ensures r@ =~= set![x],
{ let mut s = HashSet::new(); s.insert(x); s }
#[verifier::external_body]
pub fn vset_into_vec<T: Eq + Hash>(s: HashSet<T>) -> (r: Vec<T>)
    ensures r@.no_duplicates(), r@.len() == s@.len(), forall|x: T| s@.contains(x) <==> #[trigger] r@.contains(x),
{ s.into_iter().collect() }
pub open spec fn map_set_rel<I, O, F: FnMut(I) -> O>(v: Seq<I>, outs: Seq<O>, r: Set<O>, f: F) -> bool {
    &&& outs.len() == v.len()
    &&& forall|i: int| 0 <= i < v.len() ==> call_ensures(f, (v[i],), #[trigger] outs[i])
    &&& forall|x: O| r.contains(x) <==> #[trigger] outs.contains(x)
}
#[verifier::external_body]
pub fn vmap_collect_set<I, O: Eq + Hash, F: FnMut(I) -> O>(v: Vec<I>, f: F) -> (r: HashSet<O>)
    requires forall|i: int| 0 <= i < v@.len() ==> call_requires(f, (#[trigger] v@[i],)),
    ensures exists|outs: Seq<O>| #[trigger] map_set_rel(v@, outs, r@, f),
{ v.into_iter().map(f).collect() }
#[verifier::external_body]
pub fn vset_union2<T: Clone + Eq + Hash>(a: &HashSet<T>, b: &HashSet<T>) -> (r: HashSet<T>)
    ensures forall|x: T| r@.contains(x) <==> (a@.contains(x) || b@.contains(x)),
{ a.union(b).cloned().collect() }

// x is known and justified as a member of the current level: it is the start (nothing listed yet) or one step from a listed name
pub open spec fn justified<T: Eq + PartialOrd + Send + Sync, A: Clone>(g: Graph<T, A>, start: T, rv: Seq<T>, x: T) -> bool {
    &&& g.knows(x)
    &&& if rv.len() == 0 { x == start } else { exists|j: int| 0 <= j < rv.len() && steps_to(g, #[trigger] rv[j], x) }
}
// the part of bfs_rel that holds of the list built so far
pub open spec fn bfs_prefix<T: Eq + PartialOrd + Send + Sync, A: Clone>(g: Graph<T, A>, start: T, rv: Seq<T>) -> bool {
    &&& rv.no_duplicates()
    &&& rv.len() > 0 ==> rv[0] == start
    &&& forall|i: int| 1 <= i < rv.len() ==> #[trigger] earlier_step(g, rv, i)
    &&& forall|x: T| #[trigger] rv.contains(x) ==> g.knows(x)
}


impl<T, A> Graph<T, A>
where
    T: Eq + Clone + PartialOrd + Ord + Hash + Send + Sync + Display,
    A: Clone,
{
//@ extract fn src/graph/query.rs breadth_first_search props=C10,C20 ty=Graph
//@ rewrite
-> Vec<T>
//@ with
-> (r: Vec<T>)
//@ rewrite
let mut seen = HashSet::new();
//@ with
let mut seen: HashSet<T> = HashSet::new();
//@ rewrite
let mut return_vec = vec![];
//@ with
let mut return_vec: Vec<T> = vec![];
//@ rewrite
vec![node_name.clone()].to_hashset();
//@ with
vsingleton_set(node_name.clone());
//@ rewrite
for v in this_level
//@ with
let ghost tlset = this_level@;
            let ghost rvs = return_vec@;
            let tlv = vset_into_vec(this_level);
            let ghost tl = tlv@;
            proof {
                assert forall|k: int| 0 <= k < tl.len() implies justified(*self, *node_name, return_vec@, #[trigger] tl[k]) by {
                    assert(tl.contains(tl[k]));
                    assert(tlset.contains(tl[k]));
                }
                assert forall|a: T, x: T| return_vec@.contains(a) && #[trigger] steps_to(*self, a, x) implies
                        return_vec@.contains(x) || next_level@.contains(x) || exists|k: int| 0 <= k < tl.len() && #[trigger] tl[k] == x by {
                    if !return_vec@.contains(x) {
                        assert(tlset.contains(x));
                        assert(tl.contains(x));
                        let k = choose|k: int| 0 <= k < tl.len() && tl[k] == x;
                        assert(tl[k] == x);
                    }
                }
                if return_vec@.len() == 0 {
                    assert(tlset =~= set![*node_name]);
                    assert(set![*node_name].len() == 1);
                }
            }
            for v in itv: tlv
//@ rewrite
let next: HashSet<T> = self
                        .get_successors_or_neighbors(v)
                        .into_iter()
                        .map(|n|
//@ with
let nbrs = self.get_successors_or_neighbors(v);
                    let ghost nv = nbrs@;
                    let name_fn = |n: &Arc<Node<T, A>>| -> (o: T) ensures o == n.name {
//@ rewrite
)
                        .collect();
                    next_level =
//@ with
 };
                    let next: HashSet<T> = vmap_collect_set(nbrs, name_fn);
                    proof {
                        let outs = choose|outs: Seq<T>| #[trigger] map_set_rel(nv, outs, next@, name_fn);
                        assert(map_set_rel(nv, outs, next@, name_fn));
                        assert forall|x: T| #[trigger] next@.contains(x) <==> steps_to(*self, vname, x) by {
                            if next@.contains(x) {
                                assert(outs.contains(x));
                                let k = choose|k: int| 0 <= k < outs.len() && outs[k] == x;
                                assert(call_ensures(name_fn, (nv[k],), outs[k]));
                                assert(nv[k].name == x);
                            }
                            if steps_to(*self, vname, x) {
                                let k = choose|k: int| 0 <= k < nv.len() && (#[trigger] nv[k]).name == x;
                                assert(call_ensures(name_fn, (nv[k],), outs[k]));
                                assert(outs[k] == x);
                                assert(outs.contains(x));
                            }
                        }
                    }
                    next_level =
//@ rewrite
next_level.union(&next).cloned().collect();
//@ with
vset_union2(&next_level, &next);
//@ spec
    requires
        self.wf_nodes(), self.wf_rows(), self.wf_index_members(),
        self.knows(*node_name),
    ensures
        r@.contains(*node_name),
        // [C10.bfs.start_first_each_reachable_node_exactly_once]
        bfs_rel(*self, *node_name, r@),
//@ loop 1
        invariant
            self.wf_nodes(), self.wf_rows(), self.wf_index_members(),
            self.knows(*node_name),
            forall|x: T| #![trigger seen@.contains(x)] #![trigger return_vec@.contains(x)] seen@.contains(x) <==> return_vec@.contains(x),
            bfs_prefix(*self, *node_name, return_vec@),
            return_vec@.len() == 0 ==> next_level@ =~= set![*node_name],
            forall|x: T| #[trigger] next_level@.contains(x) ==> justified(*self, *node_name, return_vec@, x),
            // [C10.bfs.nothing_reachable_is_dropped]
            forall|a: T, x: T| return_vec@.contains(a) && #[trigger] steps_to(*self, a, x) ==> return_vec@.contains(x) || next_level@.contains(x),
            return_vec@.len() <= self.n(),
        // [C20.bfs.terminates] a round lists a new node (there are at most n) or leaves the next level empty
        decreases self.n() - return_vec@.len(), (if next_level@.len() > 0 { 1int } else { 0int }),
//@ loop 2
                invariant
                    self.wf_nodes(), self.wf_rows(), self.wf_index_members(),
                    self.knows(*node_name),
                    tl == tlv@ && tl.no_duplicates(),
                    return_vec@.len() >= rvs.len(), return_vec@.len() == rvs.len() ==> next_level@.len() == 0,
                    forall|x: T| #![trigger seen@.contains(x)] #![trigger return_vec@.contains(x)] seen@.contains(x) <==> return_vec@.contains(x),
                    bfs_prefix(*self, *node_name, return_vec@),
                    return_vec@.len() == 0 ==> tl.len() == 1 && itv.index@ == 0,
                    forall|k: int| itv.index@ <= k < tl.len() ==> justified(*self, *node_name, return_vec@, #[trigger] tl[k]),
                    forall|x: T| #[trigger] next_level@.contains(x) ==> justified(*self, *node_name, return_vec@, x) && return_vec@.len() > 0,
                    forall|a: T, x: T| return_vec@.contains(a) && #[trigger] steps_to(*self, a, x) ==>
                        return_vec@.contains(x) || next_level@.contains(x) || exists|k: int| itv.index@ <= k < tl.len() && #[trigger] tl[k] == x,
//@ bodyend 1
            proof { lemma_distinct_known_len(*self, return_vec@); }
//@ before if !seen.contains(&v) {
                let ghost vname = v;
                let ghost rv0 = return_vec@;
                let ghost nl0 = next_level@;
                proof {
                    assert(tl[itv.index@ as int] == vname);
                    assert(justified(*self, *node_name, rv0, vname));
                    if rv0.len() == 0 { assert(!seen@.contains(vname)); }
                }
//@ after return_vec.push(v.clone());
                    proof {
                        // v was not listed: the list stays duplicate-free, v is justified by an earlier name (or is the start)
                        assert(!rv0.contains(vname));
                        assert(return_vec@ == rv0.push(vname));
                        assert forall|x: T| #[trigger] return_vec@.contains(x) <==> (rv0.contains(x) || x == vname) by {
                            if rv0.contains(x) {
                                let j = choose|j: int| 0 <= j < rv0.len() && rv0[j] == x;
                                assert(return_vec@[j] == x);
                            }
                            if x == vname { assert(return_vec@[rv0.len() as int] == x); }
                            if return_vec@.contains(x) {
                                let j = choose|j: int| 0 <= j < return_vec@.len() && return_vec@[j] == x;
                                if j < rv0.len() { assert(rv0[j] == x); }
                            }
                        }
                        assert(return_vec@.no_duplicates()) by {
                            assert forall|i: int, j: int| 0 <= i < return_vec@.len() && 0 <= j < return_vec@.len() && i != j implies return_vec@[i] != return_vec@[j] by {
                                if i < rv0.len() && j < rv0.len() { assert(rv0[i] != rv0[j]); }
                                else if i < rv0.len() { assert(rv0.contains(rv0[i])); }
                                else if j < rv0.len() { assert(rv0.contains(rv0[j])); }
                            }
                        }
                        assert forall|i: int| 1 <= i < return_vec@.len() implies #[trigger] earlier_step(*self, return_vec@, i) by {
                            if i < rv0.len() {
                                assert(earlier_step(*self, rv0, i));
                                let j = choose|j: int| 0 <= j < i && steps_to(*self, #[trigger] rv0[j], rv0[i]);
                                assert(return_vec@[j] == rv0[j] && return_vec@[i] == rv0[i]);
                            } else {
                                // i is the new position: rv0 is non-empty (i >= 1), so v was justified by a listed name
                                let j = choose|j: int| 0 <= j < rv0.len() && steps_to(*self, #[trigger] rv0[j], vname);
                                assert(return_vec@[j] == rv0[j]);
                            }
                        }
                        assert(bfs_prefix(*self, *node_name, return_vec@));
                        // justification is monotone once the list is non-empty; an empty list held only the start in this level
                        assert forall|x: T| justified(*self, *node_name, rv0, x) && (rv0.len() > 0) implies #[trigger] justified(*self, *node_name, return_vec@, x) by {
                            let j = choose|j: int| 0 <= j < rv0.len() && steps_to(*self, #[trigger] rv0[j], x);
                            assert(return_vec@[j] == rv0[j]);
                        }
                    }
//@ after =next_level = next_level.union(&next).cloned().collect();
                    proof {
                        assert forall|x: T| #[trigger] next_level@.contains(x) implies justified(*self, *node_name, return_vec@, x) && return_vec@.len() > 0 by {
                            if !nl0.contains(x) {
                                assert(steps_to(*self, vname, x));
                                assert(return_vec@[rv0.len() as int] == vname);
                            }
                        }
                    }
//@ end
}
