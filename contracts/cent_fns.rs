// ---- C05: scaling rule, rescale, dependency accumulation (betweenness.rs) ----
//@ extract struct src/algorithms/centrality/betweenness.rs SingleSourceResults pubfields
//@ rewrite
struct SingleSourceResults
//@ with
pub struct SingleSourceResults
//@ end

//@ extract fn src/algorithms/centrality/betweenness.rs get_scale props=C05,C20
//@ rewrite
-> Option<f64>
//@ with
-> (r: Option<f64>)
//@ rewrite count=2
num_nodes as f64
//@ with
vcast_usize_f64(num_nodes)
//@ spec
    ensures
        // [C05.scale.rule]
        normalized && num_nodes <= 2 ==> r.is_none(),
        normalized && num_nodes > 2 ==> r == Some(fdiv(1.0f64, fmul(fsub(usize_to_f64(num_nodes), 1.0f64), fsub(usize_to_f64(num_nodes), 2.0f64)))),
        !normalized && directed ==> r.is_none(),
        !normalized && !directed ==> r == Some(0.5f64),
//@ end

//@ extract fn src/algorithms/centrality/betweenness.rs rescale props=C05,C20
//@ rewrite
betweeneess[i] *= scale;
//@ with
betweeneess[i] = betweeneess[i] * scale;
//@ spec
    requires
        old(betweeneess)@.len() >= num_nodes,
    ensures
        // [C05.rescale.each_entry_once]
        final(betweeneess)@.len() == old(betweeneess)@.len(),
        forall|i: int| num_nodes <= i < old(betweeneess)@.len() ==> final(betweeneess)@[i] == old(betweeneess)@[i],
        get_scale_spec(num_nodes, normalized, directed).is_none() ==> final(betweeneess)@ == old(betweeneess)@,
        get_scale_spec(num_nodes, normalized, directed).is_some() ==> forall|i: int| 0 <= i < num_nodes ==>
            final(betweeneess)@[i] == fmul(old(betweeneess)@[i], get_scale_spec(num_nodes, normalized, directed).unwrap()),
//@ loop 1
            invariant
                betweeneess@.len() == old(betweeneess)@.len(),
                old(betweeneess)@.len() >= num_nodes,
                scale == get_scale_spec(num_nodes, normalized, directed).unwrap(),
                get_scale_spec(num_nodes, normalized, directed).is_some(),
                forall|j: int| 0 <= j < i ==> betweeneess@[j] == fmul(old(betweeneess)@[j], scale),
                forall|j: int| i <= j < old(betweeneess)@.len() ==> betweeneess@[j] == old(betweeneess)@[j],
//@ end


// the single-source results are well-formed for a graph of n nodes: exactly what accumulate_betweenness needs
pub open spec fn ssr_wf(r: SingleSourceResults, n: nat) -> bool {
    &&& r.source < n
    &&& r.sigma@.len() == n
    &&& r.P@.len() == n
    &&& forall|k: int| 0 <= k < r.S@.len() ==> #[trigger] r.S@[k] < n
    &&& forall|w: int, k: int| 0 <= w < n && 0 <= k < r.P@[w]@.len() ==> #[trigger] r.P@[w]@[k] < n
}

//@ extract fn src/algorithms/centrality/betweenness.rs accumulate_betweenness props=C05,C20
//@ rewrite
delta[*v] += result.sigma[*v] * coeff;
//@ with
delta[*v] = delta[*v] + result.sigma[*v] * coeff;
//@ rewrite
betweenness[*w] += delta[*w];
//@ with
betweenness[*w] = betweenness[*w] + delta[*w];
//@ rewrite
for v in result.P[*w].iter()
//@ with
for v in itp: result.P[*w].iter()
//@ spec
    requires
        ssr_wf(*result, old(betweenness)@.len()),
    ensures
        final(betweenness)@.len() == old(betweenness)@.len(),
        // [C05.accumulate.source_excluded]
        final(betweenness)@[result.source as int] == old(betweenness)@[result.source as int],
        // [C05.accumulate.only_order_nodes_touched]
        forall|i: int| 0 <= i < old(betweenness)@.len() && !result.S@.contains(i as usize) ==> final(betweenness)@[i] == old(betweenness)@[i],
//@ loop 1
        invariant
            ssr_wf(*result, old(betweenness)@.len()),
            betweenness@.len() == old(betweenness)@.len(),
            delta@.len() == betweenness@.len(),
            betweenness@[result.source as int] == old(betweenness)@[result.source as int],
            forall|i: int| 0 <= i < old(betweenness)@.len() && !result.S@.contains(i as usize) ==> betweenness@[i] == old(betweenness)@[i],
            forall|k: int| 0 <= k < S.remaining().len() ==> result.S@.contains(*#[trigger] S.remaining()[k]),
            S.obeys_prophetic_iter_laws(),
            S.decrease() is Some,
        decreases S.decrease().unwrap(),
//@ loop 2
            invariant
                ssr_wf(*result, old(betweenness)@.len()),
                delta@.len() == betweenness@.len(),
                betweenness@.len() == old(betweenness)@.len(),
                *w < betweenness@.len(),
//@ end


// the scaling rule as a spec function (what get_scale is proved to return)
pub open spec fn get_scale_spec(num_nodes: usize, normalized: bool, directed: bool) -> Option<f64> {
    if normalized {
        if num_nodes <= 2 { None } else { Some(fdiv(1.0f64, fmul(fsub(usize_to_f64(num_nodes), 1.0f64), fsub(usize_to_f64(num_nodes), 2.0f64)))) }
    } else {
        if directed { None } else { Some(0.5f64) }
    }
}

// ---- C06 ----
// R-ext: `shortest_paths.iter().map(|(_, sp)| sp).sum::<f64>()` (tuple-pattern closure + Iterator::sum are outside Verus):
// ASSUMED (A5) to return the fold of f64 `+` over the second components; the only fact used is that the sum of an empty list
// is not greater than 0.0 (std starts the fold from a zero: 0.0 or -0.0 depending on the toolchain)
pub uninterp spec fn fsum_snd(s: Seq<(usize, f64)>) -> f64;
pub broadcast axiom fn axiom_fsum_snd_empty(s: Seq<(usize, f64)>)
    ensures s.len() == 0 ==> !flt(0.0f64, #[trigger] fsum_snd(s));
#[verifier::external_body]
pub fn vsum_snd(v: &Vec<(usize, f64)>) -> (r: f64)
    ensures r == fsum_snd(v@)
{ v.iter().map(|(_, sp)| sp).sum::<f64>() }

// the closeness value of a node from the list of (node, distance) pairs of the nodes that reach it (itself included)
pub open spec fn node_centrality_spec(sp: Seq<(usize, f64)>, num_nodes: usize, wf_improved: bool) -> f64 {
    if flt(0.0f64, fsum_snd(sp)) && num_nodes > 1 {
        let s = usize_to_f64((sp.len() - 1) as usize);
        let cc = fdiv(s, fsum_snd(sp));
        if wf_improved { fmul(cc, fdiv(s, usize_to_f64((num_nodes - 1) as usize))) } else { cc }
    } else {
        0.0f64
    }
}

//@ extract fn src/algorithms/centrality/closeness.rs get_node_centrality props=C06,C20
//@ rewrite
) -> f64
//@ with
) -> (r: f64)
//@ rewrite
shortest_paths.iter().map(|(_, sp)| sp).sum::<f64>()
//@ with
vsum_snd(shortest_paths)
//@ rewrite
(shortest_paths.len() - 1) as f64
//@ with
vcast_usize_f64(shortest_paths.len() - 1)
//@ rewrite
(num_nodes - 1) as f64
//@ with
vcast_usize_f64(num_nodes - 1)
//@ rewrite
cc *= s;
//@ with
cc = cc * s;
//@ spec
    ensures
        // [C06.centrality.formula]
        flt(0.0f64, fsum_snd(shortest_paths@)) && num_nodes > 1 ==> shortest_paths@.len() >= 1 && ({
            let s = usize_to_f64((shortest_paths@.len() - 1) as usize);
            let cc = fdiv(s, fsum_snd(shortest_paths@));
            &&& wf_improved ==> r == fmul(cc, fdiv(s, usize_to_f64((num_nodes - 1) as usize)))
            &&& !wf_improved ==> r == cc
        }),
        // [C06.centrality.zero_when_nothing_reaches]
        !(flt(0.0f64, fsum_snd(shortest_paths@)) && num_nodes > 1) ==> r == 0.0f64,
        // [C06.centrality.is_spec_function]
        r == node_centrality_spec(shortest_paths@, num_nodes, wf_improved),
//@ body
    broadcast use axiom_fsum_snd_empty;
//@ end
