// ---- soundness of the distance-only kernel: every assigned distance is the length (left fold of f64 `+`) of a walk
//      along stored traversal entries that starts at the source ----
pub open spec fn step_cost<T: Eq + PartialOrd + Send + Sync, A: Clone>(g: Graph<T, A>, weighted: bool, v: int, k: int) -> f64 {
    if weighted { g.successors_vec@[v]@[k].weight } else { 1.0f64 }
}
// (u, d) extends the walk that reached hist[i]: there is a traversal entry hist[i].0 -> u and d = hist[i].1 + cost
pub open spec fn extends<T: Eq + PartialOrd + Send + Sync, A: Clone>(g: Graph<T, A>, weighted: bool, hist: Seq<(usize, f64)>, i: int, u: usize, d: f64) -> bool {
    &&& 0 <= i < hist.len()
    &&& exists|k: int| 0 <= k < g.successors_vec@[hist[i].0 as int]@.len()
            && (#[trigger] g.successors_vec@[hist[i].0 as int]@[k]).node_index == u
            && d == fadd(hist[i].1, step_cost(g, weighted, hist[i].0 as int, k))
}
// hist is the sequence of (node, distance) assignments in the order they were made: each one is the source at 0.0 or
// extends an EARLIER one, so by induction each is the length of a walk from the source
pub open spec fn chain_ok<T: Eq + PartialOrd + Send + Sync, A: Clone>(g: Graph<T, A>, weighted: bool, source: usize, hist: Seq<(usize, f64)>) -> bool {
    forall|j: int| 0 <= j < hist.len() ==> (#[trigger] hist[j]).0 < g.n() && (
        (hist[j].0 == source && hist[j].1 == 0.0f64) || exists|i: int| 0 <= i < j && #[trigger] extends(g, weighted, hist, i, hist[j].0, hist[j].1))
}
pub open spec fn reported(dist: Seq<f64>, u: int) -> bool {
    0 <= u < dist.len() && !feq(dist[u], f64_max())
}

pub proof fn lemma_chain_push<T: Eq + PartialOrd + Send + Sync, A: Clone>(g: Graph<T, A>, weighted: bool, source: usize, h0: Seq<(usize, f64)>, v: usize, d: f64)
    requires
        chain_ok(g, weighted, source, h0),
        v < g.n(),
        (v == source && d == 0.0f64) || exists|i: int| #[trigger] extends(g, weighted, h0, i, v, d),
    ensures
        chain_ok(g, weighted, source, h0.push((v, d))),
{
    let hist = h0.push((v, d));
    assert forall|j: int| 0 <= j < hist.len() implies (#[trigger] hist[j]).0 < g.n() && (
        (hist[j].0 == source && hist[j].1 == 0.0f64) || exists|i: int| 0 <= i < j && #[trigger] extends(g, weighted, hist, i, hist[j].0, hist[j].1)) by {
        if j < h0.len() {
            assert(hist[j] == h0[j]);
            assert(h0[j].0 < g.n());
            if !(h0[j].0 == source && h0[j].1 == 0.0f64) {
                let i = choose|i: int| 0 <= i < j && #[trigger] extends(g, weighted, h0, i, h0[j].0, h0[j].1);
                assert(0 <= i < j && extends(g, weighted, h0, i, h0[j].0, h0[j].1));
                lemma_extends_mono(g, weighted, h0, (v, d), i, h0[j].0, h0[j].1);
                assert(extends(g, weighted, hist, i, hist[j].0, hist[j].1));
            }
        } else {
            assert(hist[j] == (v, d));
            if !(v == source && d == 0.0f64) {
                let i = choose|i: int| #[trigger] extends(g, weighted, h0, i, v, d);
                assert(extends(g, weighted, h0, i, v, d));
                lemma_extends_mono(g, weighted, h0, (v, d), i, v, d);
                assert(0 <= i < j);
                assert(extends(g, weighted, hist, i, hist[j].0, hist[j].1));
            }
        }
    }
}

pub proof fn lemma_reported_push(dist0: Seq<f64>, dist1: Seq<f64>, h0: Seq<(usize, f64)>, v: usize, d: f64)
    requires
        v < dist0.len(),
        dist1 == dist0.update(v as int, d),
        forall|u: int| reported(dist0, u) ==> h0.contains((u as usize, #[trigger] dist0[u])),
    ensures
        forall|u: int| reported(dist1, u) ==> h0.push((v, d)).contains((u as usize, #[trigger] dist1[u])),
{
    let hist = h0.push((v, d));
    assert forall|u: int| reported(dist1, u) implies hist.contains((u as usize, #[trigger] dist1[u])) by {
        if u == v as int {
            assert(hist[h0.len() as int] == (v, d));
        } else {
            assert(dist1[u] == dist0[u]);
            assert(reported(dist0, u));
            assert(h0.contains((u as usize, dist0[u])));
            let j = choose|j: int| 0 <= j < h0.len() && h0[j] == (u as usize, dist0[u]);
            assert(hist[j] == h0[j]);
        }
    }
}

pub proof fn lemma_extends_mono<T: Eq + PartialOrd + Send + Sync, A: Clone>(g: Graph<T, A>, weighted: bool, hist: Seq<(usize, f64)>, x: (usize, f64), i: int, u: usize, d: f64)
    requires extends(g, weighted, hist, i, u, d),
    ensures extends(g, weighted, hist.push(x), i, u, d),
{
    assert(hist.push(x)[i] == hist[i]);
}
