// ---- C02: the per-node edge lists read the name-keyed stores; their agreement with the position-keyed store follows from
//      the coherence invariants proved in u_coh (wf_index_sets, wf_name_sets, wf_name_store) ----

// R-ext (A5): `set.iter().flat_map(f).collect()` targets a local declaration ASSUMED to visit every element of the set exactly once
// (in some order) and to concatenate the lists f returns; the closure f stays in place and is verified
pub open spec fn flat_lists<'s, 'e, K: 's, E: 'e, F: FnMut(&'s K) -> &'e Vec<E>>(s: Set<K>, order: Seq<K>, lists: Seq<Seq<E>>, f: F) -> bool {
    &&& order.no_duplicates()
    &&& forall|x: K| s.contains(x) <==> #[trigger] order.contains(x)
    &&& lists.len() == order.len()
    &&& forall|i: int| 0 <= i < order.len() ==> exists|o: &'e Vec<E>| call_ensures(f, (&order[i],), o) && o@ == #[trigger] lists[i]
}
#[verifier::external_body]
pub fn vset_flat_map_collect<'s, 'e, K: 's, E: 'e, F: FnMut(&'s K) -> &'e Vec<E>>(s: &'s HashSet<K>, f: F) -> (r: Vec<&'e E>)
    requires forall|x: K| s@.contains(x) ==> call_requires(f, (&x,)),
    ensures exists|order: Seq<K>, lists: Seq<Seq<E>>| #[trigger] flat_lists(s@, order, lists, f) && Seq::new(r@.len(), |i: int| *r@[i]) == lists.flatten(),
{ s.iter().flat_map(f).collect() }

// (a, b) from two references (closure specifications may only borrow the captured names)
pub open spec fn pair_of<T>(a: &T, b: &T) -> (T, T) { (*a, *b) }

// `out` is the concatenation of `lists`, one list per name of `names`, each name exactly once (`order`)
pub open spec fn lists_edges_of<T: PartialOrd + Send, A>(names: Set<T>, order: Seq<T>, lists: Seq<Seq<Arc<Edge<T, A>>>>, out: Seq<&Arc<Edge<T, A>>>) -> bool {
    &&& order.no_duplicates()
    &&& forall|x: T| names.contains(x) <==> #[trigger] order.contains(x)
    &&& Seq::new(out.len(), |i: int| *out[i]) == lists.flatten()
}
// the lists stored under (p, name) for the names p of `order` / under (name, s) for the names s of `order`
pub open spec fn in_edge_lists<T: Eq + PartialOrd + Send + Sync, A: Clone>(g: Graph<T, A>, name: T, order: Seq<T>) -> Seq<Seq<Arc<Edge<T, A>>>> {
    Seq::new(order.len(), |i: int| g.name_list((order[i], name)))
}
pub open spec fn out_edge_lists<T: Eq + PartialOrd + Send + Sync, A: Clone>(g: Graph<T, A>, name: T, order: Seq<T>) -> Seq<Seq<Arc<Edge<T, A>>>> {
    Seq::new(order.len(), |i: int| g.name_list((name, order[i])))
}

impl<T: Eq + PartialOrd + Send + Sync, A: Clone> Graph<T, A> {
    // the name key under which get_edges_for_node looks up the edges between `name` and its successor / neighbour `s`:
    // (name, s) as given when directed, name-ordered when undirected
    pub open spec fn both_key(&self, name: &T, s: &T) -> (T, T) {
        if !self.specs.directed && tgt(*name, *s) { (*s, *name) } else { (*name, *s) }
    }
}
pub open spec fn both_edge_lists<T: Eq + PartialOrd + Send + Sync, A: Clone>(g: Graph<T, A>, name: T, order: Seq<T>) -> Seq<Seq<Arc<Edge<T, A>>>> {
    Seq::new(order.len(), |i: int| g.name_list(g.both_key(&name, &order[i])))
}
pub open spec fn node_edges_rel<T: Eq + PartialOrd + Send + Sync, A: Clone>(g: Graph<T, A>, name: T, op: Seq<T>, os: Seq<T>, out: Seq<&Arc<Edge<T, A>>>) -> bool {
    &&& op.no_duplicates() && (forall|x: T| g.pred_names(name).contains(x) <==> #[trigger] op.contains(x))
    &&& os.no_duplicates() && (forall|x: T| g.succ_names(name).contains(x) <==> #[trigger] os.contains(x))
    &&& Seq::new(out.len(), |i: int| *out[i]) == in_edge_lists(g, name, op).flatten() + both_edge_lists(g, name, os).flatten()
}
// R-ext (A5): `a.into_iter().chain(b).collect()`: ASSUMED to be the concatenation
#[verifier::external_body]
pub fn vchain_collect<X>(a: Vec<X>, b: Vec<X>) -> (r: Vec<X>)
    ensures r@ == a@ + b@,
{ a.into_iter().chain(b).collect() }

impl<T, A> Graph<T, A>
where
    T: Eq + Clone + PartialOrd + Ord + Hash + Send + Sync + Display,
    A: Clone,
{
//@ extract fn src/graph/query.rs get_in_edges_for_node props=C02,C20 ty=Graph
//@ rewrite
-> Result<Vec<&Arc<Edge<T, A>>>, Error>
//@ with
-> (r: Result<Vec<&Arc<Edge<T, A>>>, Error>)
//@ rewrite
let empty = HashSet::new();
//@ with
let empty: HashSet<T> = HashSet::new();
//@ rewrite
Ok(pred_node_names
            .iter()
            .flat_map(|pnn|
//@ with
let flat_fn = |pnn: &T| -> (o: &Vec<Arc<Edge<T, A>>>)
                requires self.edges@.contains_key(pair_of(pnn, &name)), key_model_ok::<T>(),
                ensures o@ == self.name_list(pair_of(pnn, &name)),
            {
//@ rewrite
)
            .collect())
//@ with
 };
        let out = vset_flat_map_collect(pred_node_names, flat_fn);
        proof {
            let (order, lists) = choose|order: Seq<T>, lists: Seq<Seq<Arc<Edge<T, A>>>>| #[trigger] flat_lists(pred_node_names@, order, lists, flat_fn)
                && Seq::new(out@.len(), |i: int| *out@[i]) == lists.flatten();
            assert(flat_lists(pred_node_names@, order, lists, flat_fn));
            assert(lists =~= in_edge_lists(*self, name, order));
            assert(lists_edges_of(self.pred_names(name), order, in_edge_lists(*self, name, order), out@));
            assert(exists|ord: Seq<T>| #[trigger] lists_edges_of(self.pred_names(name), ord, in_edge_lists(*self, name, ord), out@));
        }
        let res: Result<Vec<&Arc<Edge<T, A>>>, Error> = Ok(out);
        proof { assert(res.unwrap()@ == out@); }
        res
//@ spec
    requires
        self.wf_nodes(), self.wf_estore(),
        self.wf_index_sets(), self.wf_name_sets(), self.wf_name_store(),
    ensures
        // [C02.edges.in_edges_guards]
        !self.specs.directed ==> is_err_kind(r, ErrorKind::WrongMethod),
        self.specs.directed && !self.knows(name) ==> is_err_kind(r, ErrorKind::NodeNotFound),
        // [C02.edges.in_edges_are_the_stored_lists_of_the_predecessors]
        // for every predecessor name p of `name` exactly once, the whole list stored under (p, name)
        self.specs.directed && self.knows(name) ==> r.is_ok()
            && exists|order: Seq<T>| #[trigger] lists_edges_of(self.pred_names(name), order, in_edge_lists(*self, name, order), r.unwrap()@),
//@ before Ok(pred_node_names
        proof {
            assert(pred_node_names@ == self.pred_names(name));
            assert forall|x: T| pred_node_names@.contains(x) implies self.edges@.contains_key((x, name)) by {
                lemma_pred_name_has_key(*self, name, x);
            }
        }
//@ end

//@ extract fn src/graph/query.rs get_out_edges_for_node props=C02,C20 ty=Graph
//@ rewrite
-> Result<Vec<&Arc<Edge<T, A>>>, Error>
//@ with
-> (r: Result<Vec<&Arc<Edge<T, A>>>, Error>)
//@ rewrite
let empty = HashSet::new();
//@ with
let empty: HashSet<T> = HashSet::new();
//@ rewrite
Ok(succ_node_names
            .iter()
            .flat_map(|snn|
//@ with
let flat_fn = |snn: &T| -> (o: &Vec<Arc<Edge<T, A>>>)
                requires self.edges@.contains_key(pair_of(&name, snn)), key_model_ok::<T>(),
                ensures o@ == self.name_list(pair_of(&name, snn)),
            {
//@ rewrite
)
            .collect())
//@ with
 };
        let out = vset_flat_map_collect(succ_node_names, flat_fn);
        proof {
            let (order, lists) = choose|order: Seq<T>, lists: Seq<Seq<Arc<Edge<T, A>>>>| #[trigger] flat_lists(succ_node_names@, order, lists, flat_fn)
                && Seq::new(out@.len(), |i: int| *out@[i]) == lists.flatten();
            assert(flat_lists(succ_node_names@, order, lists, flat_fn));
            assert(lists =~= out_edge_lists(*self, name, order));
            assert(lists_edges_of(self.succ_names(name), order, out_edge_lists(*self, name, order), out@));
            assert(exists|ord: Seq<T>| #[trigger] lists_edges_of(self.succ_names(name), ord, out_edge_lists(*self, name, ord), out@));
        }
        let res: Result<Vec<&Arc<Edge<T, A>>>, Error> = Ok(out);
        proof { assert(res.unwrap()@ == out@); }
        res
//@ spec
    requires
        self.wf_nodes(), self.wf_estore(),
        self.wf_index_sets(), self.wf_name_sets(), self.wf_name_store(),
    ensures
        // [C02.edges.out_edges_guards]
        !self.specs.directed ==> is_err_kind(r, ErrorKind::WrongMethod),
        self.specs.directed && !self.knows(name) ==> is_err_kind(r, ErrorKind::NodeNotFound),
        // [C02.edges.out_edges_are_the_stored_lists_of_the_successors]
        // for every successor name s of `name` exactly once, the whole list stored under (name, s)
        self.specs.directed && self.knows(name) ==> r.is_ok()
            && exists|order: Seq<T>| #[trigger] lists_edges_of(self.succ_names(name), order, out_edge_lists(*self, name, order), r.unwrap()@),
//@ before Ok(succ_node_names
        proof {
            assert(succ_node_names@ == self.succ_names(name));
            assert forall|x: T| succ_node_names@.contains(x) implies self.edges@.contains_key((name, x)) by {
                if self.specs.directed { lemma_succ_name_has_key(*self, name, x); }
            }
        }
//@ end

//@ extract fn src/graph/query.rs get_edges_for_node props=C02,C20 ty=Graph
//@ rewrite
-> Result<Vec<&Arc<Edge<T, A>>>, Error>
//@ with
-> (r: Result<Vec<&Arc<Edge<T, A>>>, Error>)
//@ rewrite
let empty_set = HashSet::new();
//@ with
let empty_set: HashSet<T> = HashSet::new();
//@ rewrite
let pred_edges = pred_node_names
            .iter()
            .flat_map(|pnn|
//@ with
let pred_fn = |pnn: &T| -> (o: &Vec<Arc<Edge<T, A>>>)
                requires self.edges@.contains_key(pair_of(pnn, &name)), key_model_ok::<T>(),
                ensures o@ == self.name_list(pair_of(pnn, &name)),
            {
//@ rewrite
.unwrap());
        let succ_edges: Vec<&Arc<Edge<T, A>>> = succ_node_names
            .iter()
            .flat_map(|snn| {
//@ with
.unwrap() };
        let pred_edges = vset_flat_map_collect(pred_node_names, pred_fn);
        let succ_fn = |snn: &T| -> (o: &Vec<Arc<Edge<T, A>>>)
                requires self.edges@.contains_key(self.both_key(&name, snn)), key_model_ok::<T>(),
                ensures o@ == self.name_list(self.both_key(&name, snn)),
            {
//@ rewrite
            })
            .collect();
        Ok(pred_edges.into_iter().chain(succ_edges).collect())
//@ with
            };
        let succ_edges: Vec<&Arc<Edge<T, A>>> = vset_flat_map_collect(succ_node_names, succ_fn);
        let ghost pe = pred_edges@;
        let ghost se = succ_edges@;
        let out = vchain_collect(pred_edges, succ_edges);
        proof {
            let (op, lp) = choose|op: Seq<T>, lp: Seq<Seq<Arc<Edge<T, A>>>>| #[trigger] flat_lists(pred_node_names@, op, lp, pred_fn)
                && Seq::new(pe.len(), |i: int| *pe[i]) == lp.flatten();
            let (os, ls) = choose|os: Seq<T>, ls: Seq<Seq<Arc<Edge<T, A>>>>| #[trigger] flat_lists(succ_node_names@, os, ls, succ_fn)
                && Seq::new(se.len(), |i: int| *se[i]) == ls.flatten();
            assert(flat_lists(pred_node_names@, op, lp, pred_fn));
            assert(flat_lists(succ_node_names@, os, ls, succ_fn));
            assert(lp =~= in_edge_lists(*self, name, op));
            assert(ls =~= both_edge_lists(*self, name, os));
            assert(Seq::new(out@.len(), |i: int| *out@[i]) =~= Seq::new(pe.len(), |i: int| *pe[i]) + Seq::new(se.len(), |i: int| *se[i]));
            assert(node_edges_rel(*self, name, op, os, out@));
        }
        let res: Result<Vec<&Arc<Edge<T, A>>>, Error> = Ok(out);
        proof { assert(res.unwrap()@ == out@); }
        res
//@ spec
    requires
        self.wf_nodes(), self.wf_estore(),
        self.wf_index_sets(), self.wf_name_sets(), self.wf_name_store(),
        name_order_total::<T>(),
    ensures
        // [C02.edges.edges_of_node_guard]
        !self.knows(name) ==> is_err_kind(r, ErrorKind::NodeNotFound),
        // [C02.edges.edges_of_node_are_the_stored_lists_of_predecessors_then_successors]
        // the stored list under (p, name) for every predecessor name p exactly once, followed by the stored list under the
        // (name-ordered when undirected) key of (name, s) for every successor / neighbour name s exactly once
        self.knows(name) ==> r.is_ok() && exists|op: Seq<T>, os: Seq<T>| #[trigger] node_edges_rel(*self, name, op, os, r.unwrap()@),
//@ before let pred_edges = pred_node_names
        proof {
            assert(pred_node_names@ == self.pred_names(name));
            assert(succ_node_names@ == self.succ_names(name));
            assert forall|x: T| pred_node_names@.contains(x) implies self.edges@.contains_key((x, name)) by {
                lemma_pred_name_has_key(*self, name, x);
            }
            assert forall|x: T| succ_node_names@.contains(x) implies self.edges@.contains_key(self.both_key(&name, &x)) by {
                lemma_succ_name_has_both_key(*self, name, x);
            }
        }
//@ end
}

// a predecessor name of `a` on a directed graph: the pair is stored, and its name key is (x, a)
pub proof fn lemma_pred_name_has_key<T: Eq + PartialOrd + Send + Sync, A: Clone>(g: Graph<T, A>, a: T, x: T)
    requires
        g.wf_nodes(), g.wf_estore(), g.wf_index_sets(), g.wf_name_sets(), g.wf_name_store(),
        g.pred_names(a).contains(x),
    ensures
        g.specs.directed,
        g.edges@.contains_key((x, a)),
{
    assert(g.knows(a) && g.knows(x) && g.pred_set(g.pos(a)).contains(g.pos(x)));
    assert(g.specs.directed && g.has_pair(g.pos(x), g.pos(a)));
    assert(g.edges@.contains_key(g.form_key(g.pos(x), g.pos(a))));
}

// a successor name of `a` on a directed graph: the pair is stored, and its name key is (a, x)
pub proof fn lemma_succ_name_has_key<T: Eq + PartialOrd + Send + Sync, A: Clone>(g: Graph<T, A>, a: T, x: T)
    requires
        g.wf_nodes(), g.wf_estore(), g.wf_index_sets(), g.wf_name_sets(), g.wf_name_store(),
        g.specs.directed,
        g.succ_names(a).contains(x),
    ensures
        g.edges@.contains_key((a, x)),
{
    assert(g.knows(a) && g.knows(x) && g.succ_set(g.pos(a)).contains(g.pos(x)));
    assert(g.linked(g.pos(a), g.pos(x)));
    assert(g.has_pair(g.pos(a), g.pos(x)));
    assert(g.edges@.contains_key(g.form_key(g.pos(a), g.pos(x))));
}

// a successor / neighbour name of `a`: the canonical pair is stored and filed under the key get_edges_for_node computes
pub proof fn lemma_succ_name_has_both_key<T: Eq + PartialOrd + Send + Sync, A: Clone>(g: Graph<T, A>, a: T, x: T)
    requires
        g.wf_nodes(), g.wf_estore(), g.wf_index_sets(), g.wf_name_sets(), g.wf_name_store(),
        name_order_total::<T>(),
        g.succ_names(a).contains(x),
    ensures
        g.edges@.contains_key(g.both_key(&a, &x)),
{
    assert(g.knows(a) && g.knows(x) && g.succ_set(g.pos(a)).contains(g.pos(x)));
    assert(g.linked(g.pos(a), g.pos(x)));
    let c = g.canon(g.pos(a), g.pos(x));
    assert(g.has_pair(c.0, c.1));
    assert(g.edges@.contains_key(g.form_key(c.0, c.1)));
    assert(g.name_of(g.pos(a)) == a && g.name_of(g.pos(x)) == x);
    assert(g.form_key(c.0, c.1) == g.both_key(&a, &x));
}
