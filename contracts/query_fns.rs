// ---- C02: the per-node edge lists read the name-keyed stores; their agreement with the position-keyed store follows from
//      the coherence invariants proved in u_coh (wf_index_sets, wf_name_sets, wf_name_store) ----

// R-ext (A5): `set.iter().flat_map(f).collect()` targets a local declaration ASSUMED to visit every element of the set exactly once
// (in some order) and to concatenate the lists f returns; the closure f stays in place and is verified
pub open spec fn flat_lists<'s, 'e, K: 's, E: 'e, F: FnMut(&'s K) -> &'e Vec<E>>(s: Set<K>, order: Seq<K>, lists: Seq<Seq<E>>, f: F) -> bool {
    &&& order.no_duplicates()
    &&& forall|x: K| s.contains(x) <==> #[trigger] order.contains(x)
    &&& lists.len() == order.len()
    &&& forall|i: int| 0 <= i < order.len() ==> exists|o: &'e Vec<E>| call_ensures(f, (&order[i],), o) && o@ == #[trigger] lists[i]
}
#[verifier::external_body]
pub fn vset_flat_map_collect<'s, 'e, K: 's, E: 'e, F: FnMut(&'s K) -> &'e Vec<E>>(s: &'s HashSet<K>, f: F) -> (r: Vec<&'e E>)
    requires forall|x: K| s@.contains(x) ==> call_requires(f, (&x,)),
    ensures exists|order: Seq<K>, lists: Seq<Seq<E>>| #[trigger] flat_lists(s@, order, lists, f) && Seq::new(r@.len(), |i: int| *r@[i]) == lists.flatten(),
{ s.iter().flat_map(f).collect() }

// (a, b) from two references (closure specifications may only borrow the captured names)
pub open spec fn pair_of<T>(a: &T, b: &T) -> (T, T) { (*a, *b) }

// `out` is the concatenation of `lists`, one list per name of `names`, each name exactly once (`order`)
pub open spec fn lists_edges_of<T: PartialOrd + Send, A>(names: Set<T>, order: Seq<T>, lists: Seq<Seq<Arc<Edge<T, A>>>>, out: Seq<&Arc<Edge<T, A>>>) -> bool {
    &&& order.no_duplicates()
    &&& forall|x: T| names.contains(x) <==> #[trigger] order.contains(x)
    &&& Seq::new(out.len(), |i: int| *out[i]) == lists.flatten()
}
// the lists stored under (p, name) for the names p of `order` / under (name, s) for the names s of `order`
pub open spec fn in_edge_lists<T: Eq + PartialOrd + Send + Sync, A: Clone>(g: Graph<T, A>, name: T, order: Seq<T>) -> Seq<Seq<Arc<Edge<T, A>>>> {
    Seq::new(order.len(), |i: int| g.name_list((order[i], name)))
}
pub open spec fn out_edge_lists<T: Eq + PartialOrd + Send + Sync, A: Clone>(g: Graph<T, A>, name: T, order: Seq<T>) -> Seq<Seq<Arc<Edge<T, A>>>> {
    Seq::new(order.len(), |i: int| g.name_list((name, order[i])))
}

impl<T: Eq + PartialOrd + Send + Sync, A: Clone> Graph<T, A> {
    // the name key under which get_edges_for_node looks up the edges between `name` and its successor / neighbour `s`:
    // (name, s) as given when directed, name-ordered when undirected
    pub open spec fn both_key(&self, name: &T, s: &T) -> (T, T) {
        if !self.specs.directed && tgt(*name, *s) { (*s, *name) } else { (*name, *s) }
    }
}
pub open spec fn both_edge_lists<T: Eq + PartialOrd + Send + Sync, A: Clone>(g: Graph<T, A>, name: T, order: Seq<T>) -> Seq<Seq<Arc<Edge<T, A>>>> {
    Seq::new(order.len(), |i: int| g.name_list(g.both_key(&name, &order[i])))
}
pub open spec fn node_edges_rel<T: Eq + PartialOrd + Send + Sync, A: Clone>(g: Graph<T, A>, name: T, op: Seq<T>, os: Seq<T>, out: Seq<&Arc<Edge<T, A>>>) -> bool {
    &&& op.no_duplicates() && (forall|x: T| g.pred_names(name).contains(x) <==> #[trigger] op.contains(x))
    &&& os.no_duplicates() && (forall|x: T| g.succ_names(name).contains(x) <==> #[trigger] os.contains(x))
    &&& Seq::new(out.len(), |i: int| *out[i]) == in_edge_lists(g, name, op).flatten() + both_edge_lists(g, name, os).flatten()
}
// R-ext (A5): `a.into_iter().chain(b).collect()`: ASSUMED to be the concatenation
#[verifier::external_body]
pub fn vchain_collect<X>(a: Vec<X>, b: Vec<X>) -> (r: Vec<X>)
    ensures r@ == a@ + b@,
{ a.into_iter().chain(b).collect() }

impl<T, A> Graph<T, A>
where
    T: Eq + Clone + PartialOrd + Ord + Hash + Send + Sync + Display,
    A: Clone,
{
//@ extract fn src/graph/query.rs get_in_edges_for_node props=C02,C20 ty=Graph
//@ rewrite
-> Result<Vec<&Arc<Edge<T, A>>>, Error>
//@ with
-> (r: Result<Vec<&Arc<Edge<T, A>>>, Error>)
//@ rewrite
let empty = HashSet::new();
//@ with
let empty: HashSet<T> = HashSet::new();
//@ rewrite
Ok(pred_node_names
            .iter()
            .flat_map(|pnn|
//@ with
let flat_fn = |pnn: &T| -> (o: &Vec<Arc<Edge<T, A>>>)
                requires self.edges@.contains_key(pair_of(pnn, &name)), key_model_ok::<T>(),
                ensures o@ == self.name_list(pair_of(pnn, &name)),
            {
//@ rewrite
)
            .collect())
//@ with
 };
        let out = vset_flat_map_collect(pred_node_names, flat_fn);
        proof {
            let (order, lists) = choose|order: Seq<T>, lists: Seq<Seq<Arc<Edge<T, A>>>>| #[trigger] flat_lists(pred_node_names@, order, lists, flat_fn)
                && Seq::new(out@.len(), |i: int| *out@[i]) == lists.flatten();
            assert(flat_lists(pred_node_names@, order, lists, flat_fn));
            assert(lists =~= in_edge_lists(*self, name, order));
            assert(lists_edges_of(self.pred_names(name), order, in_edge_lists(*self, name, order), out@));
            assert(exists|ord: Seq<T>| #[trigger] lists_edges_of(self.pred_names(name), ord, in_edge_lists(*self, name, ord), out@));
        }
        let res: Result<Vec<&Arc<Edge<T, A>>>, Error> = Ok(out);
        proof { assert(res.unwrap()@ == out@); }
        res
//@ spec
    requires
        self.wf_nodes(), self.wf_estore(),
        self.wf_index_sets(), self.wf_name_sets(), self.wf_name_store(),
    ensures
        // [C02.edges.in_edges_guards]
        !self.specs.directed ==> is_err_kind(r, ErrorKind::WrongMethod),
        self.specs.directed && !self.knows(name) ==> is_err_kind(r, ErrorKind::NodeNotFound),
        // [C02.edges.in_edges_are_the_stored_lists_of_the_predecessors]
        // for every predecessor name p of `name` exactly once, the whole list stored under (p, name)
        self.specs.directed && self.knows(name) ==> r.is_ok()
            && exists|order: Seq<T>| #[trigger] lists_edges_of(self.pred_names(name), order, in_edge_lists(*self, name, order), r.unwrap()@),
//@ before Ok(pred_node_names
        proof {
            assert(pred_node_names@ == self.pred_names(name));
            assert forall|x: T| pred_node_names@.contains(x) implies self.edges@.contains_key((x, name)) by {
                lemma_pred_name_has_key(*self, name, x);
            }
        }
//@ end

//@ extract fn src/graph/query.rs get_out_edges_for_node props=C02,C20 ty=Graph
//@ rewrite
-> Result<Vec<&Arc<Edge<T, A>>>, Error>
//@ with
-> (r: Result<Vec<&Arc<Edge<T, A>>>, Error>)
//@ rewrite
let empty = HashSet::new();
//@ with
let empty: HashSet<T> = HashSet::new();
//@ rewrite
Ok(succ_node_names
            .iter()
            .flat_map(|snn|
//@ with
let flat_fn = |snn: &T| -> (o: &Vec<Arc<Edge<T, A>>>)
                requires self.edges@.contains_key(pair_of(&name, snn)), key_model_ok::<T>(),
                ensures o@ == self.name_list(pair_of(&name, snn)),
            {
//@ rewrite
)
            .collect())
//@ with
 };
        let out = vset_flat_map_collect(succ_node_names, flat_fn);
        proof {
            let (order, lists) = choose|order: Seq<T>, lists: Seq<Seq<Arc<Edge<T, A>>>>| #[trigger] flat_lists(succ_node_names@, order, lists, flat_fn)
                && Seq::new(out@.len(), |i: int| *out@[i]) == lists.flatten();
            assert(flat_lists(succ_node_names@, order, lists, flat_fn));
            assert(lists =~= out_edge_lists(*self, name, order));
            assert(lists_edges_of(self.succ_names(name), order, out_edge_lists(*self, name, order), out@));
            assert(exists|ord: Seq<T>| #[trigger] lists_edges_of(self.succ_names(name), ord, out_edge_lists(*self, name, ord), out@));
        }
        let res: Result<Vec<&Arc<Edge<T, A>>>, Error> = Ok(out);
        proof { assert(res.unwrap()@ == out@); }
        res
//@ spec
    requires
        self.wf_nodes(), self.wf_estore(),
        self.wf_index_sets(), self.wf_name_sets(), self.wf_name_store(),
    ensures
        // [C02.edges.out_edges_guards]
        !self.specs.directed ==> is_err_kind(r, ErrorKind::WrongMethod),
        self.specs.directed && !self.knows(name) ==> is_err_kind(r, ErrorKind::NodeNotFound),
        // [C02.edges.out_edges_are_the_stored_lists_of_the_successors]
        // for every successor name s of `name` exactly once, the whole list stored under (name, s)
        self.specs.directed && self.knows(name) ==> r.is_ok()
            && exists|order: Seq<T>| #[trigger] lists_edges_of(self.succ_names(name), order, out_edge_lists(*self, name, order), r.unwrap()@),
//@ before Ok(succ_node_names
        proof {
            assert(succ_node_names@ == self.succ_names(name));
            assert forall|x: T| succ_node_names@.contains(x) implies self.edges@.contains_key((name, x)) by {
                if self.specs.directed { lemma_succ_name_has_key(*self, name, x); }
            }
        }
//@ end

//@ extract fn src/graph/query.rs get_edges_for_node props=C02,C20 ty=Graph
//@ rewrite
-> Result<Vec<&Arc<Edge<T, A>>>, Error>
//@ with
-> (r: Result<Vec<&Arc<Edge<T, A>>>, Error>)
//@ rewrite
let empty_set = HashSet::new();
//@ with
let empty_set: HashSet<T> = HashSet::new();
//@ rewrite
let pred_edges = pred_node_names
            .iter()
            .flat_map(|pnn|
//@ with
let pred_fn = |pnn: &T| -> (o: &Vec<Arc<Edge<T, A>>>)
                requires self.edges@.contains_key(pair_of(pnn, &name)), key_model_ok::<T>(),
                ensures o@ == self.name_list(pair_of(pnn, &name)),
            {
//@ rewrite
.unwrap());
        let succ_edges: Vec<&Arc<Edge<T, A>>> = succ_node_names
            .iter()
            .flat_map(|snn| {
//@ with
.unwrap() };
        let pred_edges = vset_flat_map_collect(pred_node_names, pred_fn);
        let succ_fn = |snn: &T| -> (o: &Vec<Arc<Edge<T, A>>>)
                requires self.edges@.contains_key(self.both_key(&name, snn)), key_model_ok::<T>(),
                ensures o@ == self.name_list(self.both_key(&name, snn)),
            {
//@ rewrite
            })
            .collect();
        Ok(pred_edges.into_iter().chain(succ_edges).collect())
//@ with
            };
        let succ_edges: Vec<&Arc<Edge<T, A>>> = vset_flat_map_collect(succ_node_names, succ_fn);
        let ghost pe = pred_edges@;
        let ghost se = succ_edges@;
        let out = vchain_collect(pred_edges, succ_edges);
        proof {
            let (op, lp) = choose|op: Seq<T>, lp: Seq<Seq<Arc<Edge<T, A>>>>| #[trigger] flat_lists(pred_node_names@, op, lp, pred_fn)
                && Seq::new(pe.len(), |i: int| *pe[i]) == lp.flatten();
            let (os, ls) = choose|os: Seq<T>, ls: Seq<Seq<Arc<Edge<T, A>>>>| #[trigger] flat_lists(succ_node_names@, os, ls, succ_fn)
                && Seq::new(se.len(), |i: int| *se[i]) == ls.flatten();
            assert(flat_lists(pred_node_names@, op, lp, pred_fn));
            assert(flat_lists(succ_node_names@, os, ls, succ_fn));
            assert(lp =~= in_edge_lists(*self, name, op));
            assert(ls =~= both_edge_lists(*self, name, os));
            assert(Seq::new(out@.len(), |i: int| *out@[i]) =~= Seq::new(pe.len(), |i: int| *pe[i]) + Seq::new(se.len(), |i: int| *se[i]));
            assert(node_edges_rel(*self, name, op, os, out@));
        }
        let res: Result<Vec<&Arc<Edge<T, A>>>, Error> = Ok(out);
        proof { assert(res.unwrap()@ == out@); }
        res
//@ spec
    requires
        self.wf_nodes(), self.wf_estore(),
        self.wf_index_sets(), self.wf_name_sets(), self.wf_name_store(),
        name_order_total::<T>(),
    ensures
        // [C02.edges.edges_of_node_guard]
        !self.knows(name) ==> is_err_kind(r, ErrorKind::NodeNotFound),
        // [C02.edges.edges_of_node_are_the_stored_lists_of_predecessors_then_successors]
        // the stored list under (p, name) for every predecessor name p exactly once, followed by the stored list under the
        // (name-ordered when undirected) key of (name, s) for every successor / neighbour name s exactly once
        self.knows(name) ==> r.is_ok() && exists|op: Seq<T>, os: Seq<T>| #[trigger] node_edges_rel(*self, name, op, os, r.unwrap()@),
//@ before let pred_edges = pred_node_names
        proof {
            assert(pred_node_names@ == self.pred_names(name));
            assert(succ_node_names@ == self.succ_names(name));
            assert forall|x: T| pred_node_names@.contains(x) implies self.edges@.contains_key((x, name)) by {
                lemma_pred_name_has_key(*self, name, x);
            }
            assert forall|x: T| succ_node_names@.contains(x) implies self.edges@.contains_key(self.both_key(&name, &x)) by {
                lemma_succ_name_has_both_key(*self, name, x);
            }
        }
//@ end
}

// a predecessor name of `a` on a directed graph: the pair is stored, and its name key is (x, a)
pub proof fn lemma_pred_name_has_key<T: Eq + PartialOrd + Send + Sync, A: Clone>(g: Graph<T, A>, a: T, x: T)
    requires
        g.wf_nodes(), g.wf_estore(), g.wf_index_sets(), g.wf_name_sets(), g.wf_name_store(),
        g.pred_names(a).contains(x),
    ensures
        g.specs.directed,
        g.edges@.contains_key((x, a)),
{
    assert(g.knows(a) && g.knows(x) && g.pred_set(g.pos(a)).contains(g.pos(x)));
    assert(g.specs.directed && g.has_pair(g.pos(x), g.pos(a)));
    assert(g.edges@.contains_key(g.form_key(g.pos(x), g.pos(a))));
}

// a successor name of `a` on a directed graph: the pair is stored, and its name key is (a, x)
pub proof fn lemma_succ_name_has_key<T: Eq + PartialOrd + Send + Sync, A: Clone>(g: Graph<T, A>, a: T, x: T)
    requires
        g.wf_nodes(), g.wf_estore(), g.wf_index_sets(), g.wf_name_sets(), g.wf_name_store(),
        g.specs.directed,
        g.succ_names(a).contains(x),
    ensures
        g.edges@.contains_key((a, x)),
{
    assert(g.knows(a) && g.knows(x) && g.succ_set(g.pos(a)).contains(g.pos(x)));
    assert(g.linked(g.pos(a), g.pos(x)));
    assert(g.has_pair(g.pos(a), g.pos(x)));
    assert(g.edges@.contains_key(g.form_key(g.pos(a), g.pos(x))));
}

// a successor / neighbour name of `a`: the canonical pair is stored and filed under the key get_edges_for_node computes
pub proof fn lemma_succ_name_has_both_key<T: Eq + PartialOrd + Send + Sync, A: Clone>(g: Graph<T, A>, a: T, x: T)
    requires
        g.wf_nodes(), g.wf_estore(), g.wf_index_sets(), g.wf_name_sets(), g.wf_name_store(),
        name_order_total::<T>(),
        g.succ_names(a).contains(x),
    ensures
        g.edges@.contains_key(g.both_key(&a, &x)),
{
    assert(g.knows(a) && g.knows(x) && g.succ_set(g.pos(a)).contains(g.pos(x)));
    assert(g.linked(g.pos(a), g.pos(x)));
    let c = g.canon(g.pos(a), g.pos(x));
    assert(g.has_pair(c.0, c.1));
    assert(g.edges@.contains_key(g.form_key(c.0, c.1)));
    assert(g.name_of(g.pos(a)) == a && g.name_of(g.pos(x)) == x);
    assert(g.form_key(c.0, c.1) == g.both_key(&a, &x));
}

// ---- C09: degrees of one node, computed from the per-node edge lists above ----
// positions of `list` holding a self-loop on `name`
pub open spec fn loop_positions<T: PartialOrd + Send, A>(list: Seq<Arc<Edge<T, A>>>, name: T) -> Set<int> {
    Set::range(0, list.len() as int).filter(|i: int| list[i].u == name && list[i].v == name)
}
// the edges listed for `name` (get_edges_for_node): stored lists of the predecessors `op`, then of the successors / neighbours `os`
pub open spec fn node_edge_list<T: Eq + PartialOrd + Send + Sync, A: Clone>(g: Graph<T, A>, name: T, op: Seq<T>, os: Seq<T>) -> Seq<Arc<Edge<T, A>>> {
    in_edge_lists(g, name, op).flatten() + both_edge_lists(g, name, os).flatten()
}
pub open spec fn orders_ok<T: Eq + PartialOrd + Send + Sync, A: Clone>(g: Graph<T, A>, name: T, op: Seq<T>, os: Seq<T>) -> bool {
    &&& op.no_duplicates() && (forall|x: T| g.pred_names(name).contains(x) <==> #[trigger] op.contains(x))
    &&& os.no_duplicates() && (forall|x: T| g.succ_names(name).contains(x) <==> #[trigger] os.contains(x))
}
// the degree the property asks for: on a directed graph in-degree + out-degree (= the length of the list, where a self-loop already
// appears twice), on an undirected graph the length of the list plus one more for every self-loop (a self-loop adds two)
pub open spec fn degree_of_list<T: Eq + PartialOrd + Send + Sync, A: Clone>(g: Graph<T, A>, name: T, list: Seq<Arc<Edge<T, A>>>) -> int {
    if g.specs.directed { list.len() as int } else { (list.len() + loop_positions(list, name).len()) as int }
}
pub open spec fn edge_is_loop_on<T: PartialOrd + Send, A>(e: &Arc<Edge<T, A>>, name: &T) -> bool { e.u == *name && e.v == *name }
// R-ext (A5): `v.iter().filter(f).count()`: ASSUMED to count the elements for which f answers true (`keep` = their positions)
pub open spec fn count_picks<X, F: FnMut(&&X) -> bool>(v: Seq<X>, keep: Set<int>, f: F) -> bool {
    &&& forall|i: int| #[trigger] keep.contains(i) ==> 0 <= i < v.len() && call_ensures(f, (&&v[i],), true)
    &&& forall|i: int| 0 <= i < v.len() && !keep.contains(i) ==> call_ensures(f, (&&#[trigger] v[i],), false)
}
#[verifier::external_body]
pub fn vcount_filter<X, F: FnMut(&&X) -> bool>(v: &Vec<X>, f: F) -> (r: usize)
    requires forall|i: int| 0 <= i < v@.len() ==> call_requires(f, (&&#[trigger] v@[i],)),
    ensures exists|keep: Set<int>| #[trigger] count_picks(v@, keep, f) && r == keep.len(),
{ v.iter().filter(f).count() }
// R-ext (A5): float sums of edge weights (Iterator::sum over f64 is outside Verus): uninterpreted folds
pub uninterp spec fn wsum<T: PartialOrd + Send, A>(list: Seq<Arc<Edge<T, A>>>) -> f64;
pub uninterp spec fn wsum_at<T: PartialOrd + Send, A>(list: Seq<Arc<Edge<T, A>>>, keep: Set<int>) -> f64;
#[verifier::external_body]
pub fn vsum_weights<T: PartialOrd + Send, A>(v: &Vec<&Arc<Edge<T, A>>>) -> (r: f64)
    ensures r == wsum(Seq::new(v@.len(), |i: int| *v@[i])),
{ v.iter().map(|e| e.weight).sum() }
#[verifier::external_body]
pub fn vsum_weights_filter<T: PartialOrd + Send, A, F: FnMut(&&&Arc<Edge<T, A>>) -> bool>(v: &Vec<&Arc<Edge<T, A>>>, f: F) -> (r: f64)
    requires forall|i: int| 0 <= i < v@.len() ==> call_requires(f, (&&#[trigger] v@[i],)),
    ensures exists|keep: Set<int>| #[trigger] count_picks(v@, keep, f) && r == wsum_at(Seq::new(v@.len(), |i: int| *v@[i]), keep),
{ v.iter().filter(f).map(|e| e.weight).sum() }

impl<T, A> Graph<T, A>
where
    T: Eq + Clone + PartialOrd + Ord + Hash + Send + Sync + Display,
    A: Clone,
{
//@ extract fn src/graph/degree.rs get_node_in_degree props=C09,C20 ty=Graph
//@ rewrite
-> Option<usize>
//@ with
-> (r: Option<usize>)
//@ spec
    requires
        self.wf_nodes(), self.wf_estore(),
        self.wf_index_sets(), self.wf_name_sets(), self.wf_name_store(),
    ensures
        // [C09.degree.in_degree_counts_the_stored_in_edges]
        !(self.specs.directed && self.knows(node_name)) ==> r.is_none(),
        self.specs.directed && self.knows(node_name) ==> r.is_some() && is_in_degree_of(*self, node_name, r.unwrap()),
//@ end

//@ extract fn src/graph/degree.rs get_node_out_degree props=C09,C20 ty=Graph
//@ rewrite
-> Option<usize>
//@ with
-> (r: Option<usize>)
//@ spec
    requires
        self.wf_nodes(), self.wf_estore(),
        self.wf_index_sets(), self.wf_name_sets(), self.wf_name_store(),
    ensures
        // [C09.degree.out_degree_counts_the_stored_out_edges]
        !(self.specs.directed && self.knows(node_name)) ==> r.is_none(),
        self.specs.directed && self.knows(node_name) ==> r.is_some() && is_out_degree_of(*self, node_name, r.unwrap()),
//@ end

//@ extract fn src/graph/degree.rs get_node_degree props=C09,C20 ty=Graph
//@ rewrite
-> Option<usize>
//@ with
-> (r: Option<usize>)
//@ rewrite
edges
                        .iter()
                        .filter(|e|
//@ with
vcount_filter(&edges, |e: &&&Arc<Edge<T, A>>| -> (b: bool)
                    requires key_model_ok::<T>(),
                    ensures b == edge_is_loop_on(**e, &node_name),
                {
//@ rewrite
)
                        .count(),
//@ with
 }),
//@ after let total_count = edges.len();
                let ghost ev = edges@;
//@ before Some(total_count + self_loops_count)
                proof {
                    let (op, os) = choose|op: Seq<T>, os: Seq<T>| #[trigger] node_edges_rel(*self, node_name, op, os, ev);
                    assert(node_edges_rel(*self, node_name, op, os, ev));
                    let list = node_edge_list(*self, node_name, op, os);
                    assert(Seq::new(ev.len(), |i: int| *ev[i]) == list);
                    assert(orders_ok(*self, node_name, op, os));
                    if !self.specs.directed {
                        // the closure passed to vcount_filter is anonymous: its postcondition is restated through call_ensures
                        let keep = choose|keep: Set<int>| self_loops_count == keep.len()
                            && (forall|i: int| #[trigger] keep.contains(i) ==> 0 <= i < ev.len() && edge_is_loop_on(ev[i], &node_name))
                            && (forall|i: int| 0 <= i < ev.len() && !keep.contains(i) ==> !edge_is_loop_on(#[trigger] ev[i], &node_name));
                        assert(keep =~= loop_positions(list, node_name)) by {
                            assert forall|i: int| keep.contains(i) <==> loop_positions(list, node_name).contains(i) by {
                                if 0 <= i < ev.len() { assert(*ev[i] == list[i]); }
                            }
                        }
                        assert(keep.subset_of(Set::range(0, ev.len() as int)));
                        vstd::set_lib::lemma_len_subset(keep, Set::range(0, ev.len() as int));
                    }
                }
                // allocation bound treated as given: a Vec of pointers holds at most isize::MAX / 8 elements, so twice its length fits a usize
                assume(2 * edges@.len() <= usize::MAX);
//@ spec
    requires
        self.wf_nodes(), self.wf_estore(),
        self.wf_index_sets(), self.wf_name_sets(), self.wf_name_store(),
        name_order_total::<T>(),
    ensures
        !self.knows(node_name) ==> r.is_none(),
        // [C09.degree.degree_is_in_plus_out_when_directed_and_a_self_loop_adds_two]
        self.knows(node_name) ==> r.is_some() && is_degree_of(*self, node_name, r.unwrap()),
//@ end

//@ extract fn src/graph/degree.rs get_node_weighted_degree props=C09,C20 ty=Graph
//@ rewrite
-> Option<f64>
//@ with
-> (r: Option<f64>)
//@ rewrite
edges.iter().map(|e| e.weight).sum();
//@ with
vsum_weights(&edges);
//@ rewrite
edges
                            .iter()
                            .filter(|e|
//@ with
vsum_weights_filter(&edges, |e: &&&Arc<Edge<T, A>>| -> (b: bool)
                    requires key_model_ok::<T>(),
                    ensures b == edge_is_loop_on(**e, &node_name),
                {
//@ rewrite
)
                            .map(|e| e.weight)
                            .sum();
                        Some(total_weight + self_loops_weight)
//@ with
 });
                        proof {
                            let list = node_edge_list(*self, node_name, op, os);
                            let keep = choose|keep: Set<int>| self_loops_weight == wsum_at(list, keep)
                                && (forall|i: int| #[trigger] keep.contains(i) ==> 0 <= i < ev.len() && edge_is_loop_on(ev[i], &node_name))
                                && (forall|i: int| 0 <= i < ev.len() && !keep.contains(i) ==> !edge_is_loop_on(#[trigger] ev[i], &node_name));
                            assert(keep =~= loop_positions(list, node_name)) by {
                                assert forall|i: int| keep.contains(i) <==> loop_positions(list, node_name).contains(i) by {
                                    if 0 <= i < ev.len() { assert(*ev[i] == list[i]); }
                                }
                            }
                        }
                        Some(total_weight + self_loops_weight)
//@ before let total_weight: f64 =
                let ghost ev = edges@;
//@ before match self.specs.directed {
                let ghost (op, os) = choose|op: Seq<T>, os: Seq<T>| #[trigger] node_edges_rel(*self, node_name, op, os, ev);
                proof {
                    assert(node_edges_rel(*self, node_name, op, os, ev));
                    assert(Seq::new(ev.len(), |i: int| *ev[i]) == node_edge_list(*self, node_name, op, os));
                    assert(orders_ok(*self, node_name, op, os));
                }
//@ spec
    requires
        self.wf_nodes(), self.wf_estore(),
        self.wf_index_sets(), self.wf_name_sets(), self.wf_name_store(),
        name_order_total::<T>(),
    ensures
        !self.knows(node_name) ==> r.is_none(),
        // [C09.degree.weighted_degree_is_the_weight_sum_and_an_undirected_self_loop_counts_twice]
        self.knows(node_name) ==> r.is_some() && exists|op: Seq<T>, os: Seq<T>| #[trigger] orders_ok(*self, node_name, op, os) && ({
            let list = node_edge_list(*self, node_name, op, os);
            &&& self.specs.directed ==> r.unwrap() == wsum(list)
            &&& !self.specs.directed ==> r.unwrap() == fadd(wsum(list), wsum_at(list, loop_positions(list, node_name)))
        }),
//@ end

//@ extract fn src/graph/degree.rs get_node_weighted_in_degree props=C09,C20 ty=Graph
//@ rewrite
-> Option<f64>
//@ with
-> (r: Option<f64>)
//@ rewrite
edges.iter().map(|e| e.weight).sum()
//@ with
vsum_weights(&edges)
//@ spec
    requires
        self.wf_nodes(), self.wf_estore(),
        self.wf_index_sets(), self.wf_name_sets(), self.wf_name_store(),
    ensures
        // [C09.degree.weighted_in_degree_sums_the_stored_in_edges]
        !(self.specs.directed && self.knows(node_name)) ==> r.is_none(),
        self.specs.directed && self.knows(node_name) ==> r.is_some() && exists|op: Seq<T>| #[trigger] op.no_duplicates()
            && (forall|x: T| self.pred_names(node_name).contains(x) <==> #[trigger] op.contains(x))
            && r.unwrap() == wsum(in_edge_lists(*self, node_name, op).flatten()),
//@ end

//@ extract fn src/graph/degree.rs get_node_weighted_out_degree props=C09,C20 ty=Graph
//@ rewrite
-> Option<f64>
//@ with
-> (r: Option<f64>)
//@ rewrite
edges.iter().map(|e| e.weight).sum()
//@ with
vsum_weights(&edges)
//@ spec
    requires
        self.wf_nodes(), self.wf_estore(),
        self.wf_index_sets(), self.wf_name_sets(), self.wf_name_store(),
    ensures
        // [C09.degree.weighted_out_degree_sums_the_stored_out_edges]
        !(self.specs.directed && self.knows(node_name)) ==> r.is_none(),
        self.specs.directed && self.knows(node_name) ==> r.is_some() && exists|os: Seq<T>| #[trigger] os.no_duplicates()
            && (forall|x: T| self.succ_names(node_name).contains(x) <==> #[trigger] os.contains(x))
            && r.unwrap() == wsum(out_edge_lists(*self, node_name, os).flatten()),
//@ end
}

// ---- C09: degree centrality = degree / (n - 1) for every node ----
// R-ext (A5): `v.iter().map(f).collect::<HashMap<K, V>>()` targets a local declaration ASSUMED to insert f(x) for every element in
// order (a later pair with an equal key replaces the earlier one); the closure f stays in place and is verified
pub open spec fn map_of_pairs<K, V>(pairs: Seq<(K, V)>) -> Map<K, V>
    decreases pairs.len()
{
    if pairs.len() == 0 { Map::empty() } else { map_of_pairs(pairs.drop_last()).insert(pairs.last().0, pairs.last().1) }
}
#[verifier::external_body]
pub fn viter_map_collect_map<X, K: Eq + Hash, V, F: FnMut(&X) -> (K, V)>(v: Vec<X>, f: F) -> (r: HashMap<K, V>)
    requires forall|i: int| 0 <= i < v@.len() ==> call_requires(f, (&#[trigger] v@[i],)),
    ensures exists|pairs: Seq<(K, V)>| pairs.len() == v@.len() && (forall|i: int| 0 <= i < v@.len() ==> call_ensures(f, (&v@[i],), #[trigger] pairs[i]))
        && r@ == map_of_pairs(pairs),
{ v.iter().map(f).collect() }

// the degree get_node_degree reports for `name` (any admissible enumeration order of the adjacent names gives the same list length)
pub open spec fn is_degree_of<T: Eq + PartialOrd + Send + Sync, A: Clone>(g: Graph<T, A>, name: T, d: usize) -> bool {
    exists|op: Seq<T>, os: Seq<T>| #[trigger] orders_ok(g, name, op, os) && d == degree_of_list(g, name, node_edge_list(g, name, op, os))
}
// the map has exactly one entry per node; for n >= 2 it holds degree * (1 / (n - 1)), for n <= 1 it holds 1.0
pub open spec fn degree_centrality_map<T: Eq + PartialOrd + Send + Sync, A: Clone>(g: Graph<T, A>, m: Map<T, f64>) -> bool {
    &&& forall|k: T| #[trigger] m.contains_key(k) <==> g.knows(k)
    &&& g.n() <= 1 ==> forall|k: T| #[trigger] m.contains_key(k) ==> m[k] == 1.0f64
    &&& g.n() > 1 ==> forall|k: T| #[trigger] m.contains_key(k) ==> exists|d: usize| #[trigger] is_degree_of(g, k, d)
            && m[k] == fmul(usize_to_f64(d), fdiv(1.0f64, fsub(usize_to_f64(g.n() as usize), 1.0f64)))
}
pub proof fn lemma_map_of_pairs_keys<K, V>(pairs: Seq<(K, V)>, k: K)
    ensures map_of_pairs(pairs).contains_key(k) <==> exists|i: int| 0 <= i < pairs.len() && (#[trigger] pairs[i]).0 == k,
    decreases pairs.len()
{
    if pairs.len() > 0 {
        lemma_map_of_pairs_keys(pairs.drop_last(), k);
        if map_of_pairs(pairs).contains_key(k) {
            if pairs.last().0 == k {
                assert(pairs[pairs.len() - 1].0 == k);
            } else {
                let i = choose|i: int| 0 <= i < pairs.drop_last().len() && (#[trigger] pairs.drop_last()[i]).0 == k;
                assert(pairs[i].0 == k);
            }
        }
        if exists|i: int| 0 <= i < pairs.len() && (#[trigger] pairs[i]).0 == k {
            let i = choose|i: int| 0 <= i < pairs.len() && (#[trigger] pairs[i]).0 == k;
            if i < pairs.len() - 1 { assert(pairs.drop_last()[i].0 == k); }
        }
    }
}
// with pairwise different keys the map holds, under the key of pair i, the value of pair i
pub proof fn lemma_map_of_pairs_value<K, V>(pairs: Seq<(K, V)>, i: int)
    requires
        0 <= i < pairs.len(),
        forall|a: int, b: int| 0 <= a < b < pairs.len() ==> (#[trigger] pairs[a]).0 != (#[trigger] pairs[b]).0,
    ensures
        map_of_pairs(pairs).contains_key(pairs[i].0) && map_of_pairs(pairs)[pairs[i].0] == pairs[i].1,
    decreases pairs.len()
{
    if i < pairs.len() - 1 {
        assert forall|a: int, b: int| 0 <= a < b < pairs.drop_last().len() implies (#[trigger] pairs.drop_last()[a]).0 != (#[trigger] pairs.drop_last()[b]).0 by {
            assert(pairs.drop_last()[a] == pairs[a] && pairs.drop_last()[b] == pairs[b]);
        }
        lemma_map_of_pairs_value(pairs.drop_last(), i);
        assert(pairs.drop_last()[i] == pairs[i]);
        assert(pairs[i].0 != pairs[pairs.len() - 1].0);
    }
}

//@ extract fn src/algorithms/centrality/degree.rs degree_centrality props=C09,C20
//@ rewrite
-> HashMap<T, f64>
//@ with
-> (r: HashMap<T, f64>)
//@ rewrite
return graph
            .get_all_nodes()
            .iter()
            .map(|n|
//@ with
let all_v1 = graph.get_all_nodes();
        let ghost av1 = all_v1@;
        let one_fn = |n: &&Arc<Node<T, A>>| -> (o: (T, f64)) ensures o.0 == n.name, o.1 == 1.0f64 {
//@ rewrite
)
            .collect();
    }
//@ with
 };
        let out1 = viter_map_collect_map(all_v1, one_fn);
        proof {
            let pairs = choose|pairs: Seq<(T, f64)>| pairs.len() == av1.len() && (forall|i: int| 0 <= i < av1.len() ==> call_ensures(one_fn, (&av1[i],), #[trigger] pairs[i]))
                && out1@ == map_of_pairs(pairs);
            assert forall|k: T| #[trigger] out1@.contains_key(k) <==> graph.knows(k) by {
                lemma_map_of_pairs_keys(pairs, k);
                if graph.knows(k) {
                    let i = graph.nodes_map@[k] as int;
                    assert(call_ensures(one_fn, (&av1[i],), pairs[i]));
                    assert(pairs[i].0 == k);
                }
                if out1@.contains_key(k) {
                    let i = choose|i: int| 0 <= i < pairs.len() && (#[trigger] pairs[i]).0 == k;
                    assert(call_ensures(one_fn, (&av1[i],), pairs[i]));
                }
            }
            assert forall|k: T| #[trigger] out1@.contains_key(k) implies out1@[k] == 1.0f64 by {
                // at most one node: the only pair is pair 0
                let i = graph.nodes_map@[k] as int;
                assert(i == 0 && pairs.len() == 1);
                assert(call_ensures(one_fn, (&av1[0],), pairs[0]));
                assert(pairs.drop_last() =~= Seq::<(T, f64)>::empty());
                assert(map_of_pairs(pairs) == map_of_pairs(pairs.drop_last()).insert(pairs[0].0, pairs[0].1));
            }
            assert(degree_centrality_map(*graph, out1@));
        }
        return out1;
    }
//@ rewrite
(num_nodes as f64 - 1.0)
//@ with
(vcast_usize_f64(num_nodes) - 1.0)
//@ rewrite
    graph
        .get_all_nodes()
        .iter()
        .map(|n| {
//@ with
    let all_v = graph.get_all_nodes();
    let ghost av = all_v@;
    let cent_fn = |n: &&Arc<Node<T, A>>| -> (o: (T, f64))
        requires graph.knows(n.name), graph.wf_nodes(), graph.wf_estore(), graph.wf_index_sets(), graph.wf_name_sets(), graph.wf_name_store(), name_order_total::<T>(),
        ensures o.0 == n.name, exists|d: usize| #[trigger] is_degree_of(*graph, n.name, d) && o.1 == fmul(usize_to_f64(d), s),
    {
//@ rewrite
* s,
            )
        })
        .collect()
//@ with
* s,
            )
        };
    let out = viter_map_collect_map(all_v, cent_fn);
    proof {
        let pairs = choose|pairs: Seq<(T, f64)>| pairs.len() == av.len() && (forall|i: int| 0 <= i < av.len() ==> call_ensures(cent_fn, (&av[i],), #[trigger] pairs[i]))
            && out@ == map_of_pairs(pairs);
        assert forall|a: int, b: int| 0 <= a < b < pairs.len() implies (#[trigger] pairs[a]).0 != (#[trigger] pairs[b]).0 by {
            assert(call_ensures(cent_fn, (&av[a],), pairs[a]) && call_ensures(cent_fn, (&av[b],), pairs[b]));
            assert(graph.nodes_map@[graph.nodes_vec@[a].name] == a && graph.nodes_map@[graph.nodes_vec@[b].name] == b);
        }
        assert forall|k: T| #[trigger] out@.contains_key(k) <==> graph.knows(k) by {
            lemma_map_of_pairs_keys(pairs, k);
            if graph.knows(k) {
                let i = graph.nodes_map@[k] as int;
                assert(call_ensures(cent_fn, (&av[i],), pairs[i]));
                assert(pairs[i].0 == k);
            }
            if out@.contains_key(k) {
                let i = choose|i: int| 0 <= i < pairs.len() && (#[trigger] pairs[i]).0 == k;
                assert(call_ensures(cent_fn, (&av[i],), pairs[i]));
            }
        }
        assert forall|k: T| #[trigger] out@.contains_key(k) implies exists|d: usize| #[trigger] is_degree_of(*graph, k, d)
                && out@[k] == fmul(usize_to_f64(d), fdiv(1.0f64, fsub(usize_to_f64(graph.n() as usize), 1.0f64))) by {
            let i = graph.nodes_map@[k] as int;
            assert(call_ensures(cent_fn, (&av[i],), pairs[i]));
            lemma_map_of_pairs_value(pairs, i);
        }
        assert(degree_centrality_map(*graph, out@));
    }
    out
//@ rewrite
graph.get_node_degree(n.name.clone()).unwrap() as f64
//@ with
vcast_usize_f64(graph.get_node_degree(n.name.clone()).unwrap())
//@ spec
    requires
        graph.wf_nodes(), graph.wf_estore(),
        graph.wf_index_sets(), graph.wf_name_sets(), graph.wf_name_store(),
        name_order_total::<T>(),
    ensures
        // [C09.degree_centrality.one_entry_per_node_degree_over_n_minus_1]
        degree_centrality_map(*graph, r@),
//@ end

// pairs (name of node i, value i) for i = 0..n make a map with exactly the node names as keys, node i's name carrying value i
pub proof fn lemma_pairs_to_node_map<T: Eq + PartialOrd + Send + Sync, A: Clone, V>(g: Graph<T, A>, pairs: Seq<(T, V)>)
    requires
        g.wf_nodes(),
        pairs.len() == g.n(),
        forall|i: int| 0 <= i < pairs.len() ==> (#[trigger] pairs[i]).0 == g.nodes_vec@[i].name,
    ensures
        forall|k: T| #[trigger] map_of_pairs(pairs).contains_key(k) <==> g.knows(k),
        forall|i: int| 0 <= i < pairs.len() ==> map_of_pairs(pairs)[g.nodes_vec@[i].name] == (#[trigger] pairs[i]).1,
{
    assert forall|a: int, b: int| 0 <= a < b < pairs.len() implies (#[trigger] pairs[a]).0 != (#[trigger] pairs[b]).0 by {
        assert(g.nodes_map@[g.nodes_vec@[a].name] == a && g.nodes_map@[g.nodes_vec@[b].name] == b);
    }
    assert forall|k: T| #[trigger] map_of_pairs(pairs).contains_key(k) <==> g.knows(k) by {
        lemma_map_of_pairs_keys(pairs, k);
        if g.knows(k) {
            let i = g.nodes_map@[k] as int;
            assert(pairs[i].0 == k);
        }
        if map_of_pairs(pairs).contains_key(k) {
            let i = choose|i: int| 0 <= i < pairs.len() && (#[trigger] pairs[i]).0 == k;
            assert(g.nodes_map@.contains_key(g.nodes_vec@[i].name));
        }
    }
    assert forall|i: int| 0 <= i < pairs.len() implies map_of_pairs(pairs)[g.nodes_vec@[i].name] == (#[trigger] pairs[i]).1 by {
        lemma_map_of_pairs_value(pairs, i);
    }
}
pub open spec fn is_in_degree_of<T: Eq + PartialOrd + Send + Sync, A: Clone>(g: Graph<T, A>, name: T, d: usize) -> bool {
    exists|op: Seq<T>| #[trigger] op.no_duplicates() && (forall|x: T| g.pred_names(name).contains(x) <==> #[trigger] op.contains(x))
        && d == in_edge_lists(g, name, op).flatten().len()
}
pub open spec fn is_out_degree_of<T: Eq + PartialOrd + Send + Sync, A: Clone>(g: Graph<T, A>, name: T, d: usize) -> bool {
    exists|os: Seq<T>| #[trigger] os.no_duplicates() && (forall|x: T| g.succ_names(name).contains(x) <==> #[trigger] os.contains(x))
        && d == out_edge_lists(g, name, os).flatten().len()
}
pub open spec fn in_degree_map<T: Eq + PartialOrd + Send + Sync, A: Clone>(g: Graph<T, A>, m: Map<T, usize>) -> bool {
    &&& forall|k: T| #[trigger] m.contains_key(k) <==> g.knows(k)
    &&& forall|k: T| #[trigger] m.contains_key(k) ==> is_in_degree_of(g, k, m[k])
}
pub open spec fn out_degree_map<T: Eq + PartialOrd + Send + Sync, A: Clone>(g: Graph<T, A>, m: Map<T, usize>) -> bool {
    &&& forall|k: T| #[trigger] m.contains_key(k) <==> g.knows(k)
    &&& forall|k: T| #[trigger] m.contains_key(k) ==> is_out_degree_of(g, k, m[k])
}
// the map has exactly one entry per node and node k carries its degree
pub open spec fn degree_map<T: Eq + PartialOrd + Send + Sync, A: Clone>(g: Graph<T, A>, m: Map<T, usize>) -> bool {
    &&& forall|k: T| #[trigger] m.contains_key(k) <==> g.knows(k)
    &&& forall|k: T| #[trigger] m.contains_key(k) ==> is_degree_of(g, k, m[k])
}
// the weighted degrees get_node_weighted_degree / _in_degree / _out_degree report for `name` (sums over uninterpreted f64 +, A1)
pub open spec fn is_weighted_degree_of<T: Eq + PartialOrd + Send + Sync, A: Clone>(g: Graph<T, A>, name: T, d: f64) -> bool {
    exists|op: Seq<T>, os: Seq<T>| #[trigger] orders_ok(g, name, op, os) && ({
        let list = node_edge_list(g, name, op, os);
        &&& g.specs.directed ==> d == wsum(list)
        &&& !g.specs.directed ==> d == fadd(wsum(list), wsum_at(list, loop_positions(list, name)))
    })
}
pub open spec fn is_weighted_in_degree_of<T: Eq + PartialOrd + Send + Sync, A: Clone>(g: Graph<T, A>, name: T, d: f64) -> bool {
    exists|op: Seq<T>| #[trigger] op.no_duplicates() && (forall|x: T| g.pred_names(name).contains(x) <==> #[trigger] op.contains(x))
        && d == wsum(in_edge_lists(g, name, op).flatten())
}
pub open spec fn is_weighted_out_degree_of<T: Eq + PartialOrd + Send + Sync, A: Clone>(g: Graph<T, A>, name: T, d: f64) -> bool {
    exists|os: Seq<T>| #[trigger] os.no_duplicates() && (forall|x: T| g.succ_names(name).contains(x) <==> #[trigger] os.contains(x))
        && d == wsum(out_edge_lists(g, name, os).flatten())
}

impl<T, A> Graph<T, A>
where
    T: Eq + Clone + PartialOrd + Ord + Hash + Send + Sync + Display,
    A: Clone,
{
//@ extract fn src/graph/degree.rs get_degree_for_all_nodes props=C09,C20 ty=Graph
//@ rewrite
-> HashMap<T, usize>
//@ with
-> (r: HashMap<T, usize>)
//@ rewrite
self.get_all_nodes()
            .iter()
            .map(|n| {
//@ with
let all_v = self.get_all_nodes();
        let ghost av = all_v@;
        let deg_fn = |n: &&Arc<Node<T, A>>| -> (o: (T, usize))
            requires self.knows(n.name), self.wf_nodes(), self.wf_estore(), self.wf_index_sets(), self.wf_name_sets(), self.wf_name_store(), name_order_total::<T>(),
            ensures o.0 == n.name, is_degree_of(*self, n.name, o.1),
        {
//@ rewrite
            })
            .collect()
//@ with
            };
        let out = viter_map_collect_map(all_v, deg_fn);
        proof {
            let pairs = choose|pairs: Seq<(T, usize)>| pairs.len() == av.len() && (forall|i: int| 0 <= i < av.len() ==> call_ensures(deg_fn, (&av[i],), #[trigger] pairs[i]))
                && out@ == map_of_pairs(pairs);
            assert forall|i: int| 0 <= i < pairs.len() implies (#[trigger] pairs[i]).0 == self.nodes_vec@[i].name && is_degree_of(*self, self.nodes_vec@[i].name, pairs[i].1) by {
                assert(call_ensures(deg_fn, (&av[i],), pairs[i]));
            }
            lemma_pairs_to_node_map(*self, pairs);
            assert forall|k: T| #[trigger] out@.contains_key(k) implies is_degree_of(*self, k, out@[k]) by {
                let i = self.nodes_map@[k] as int;
                assert(out@[self.nodes_vec@[i].name] == pairs[i].1);
            }
        }
        out
//@ spec
    requires
        self.wf_nodes(), self.wf_estore(),
        self.wf_index_sets(), self.wf_name_sets(), self.wf_name_store(),
        name_order_total::<T>(),
    ensures
        // [C09.degree.all_nodes_map_has_each_node_with_its_degree]
        degree_map(*self, r@),
//@ end

//@ extract fn src/graph/degree.rs get_in_degree_for_all_nodes props=C09,C20 ty=Graph
//@ rewrite
-> Result<HashMap<T, usize>, Error>
//@ with
-> (r: Result<HashMap<T, usize>, Error>)
//@ rewrite
Ok(self
            .get_all_nodes()
            .iter()
            .map(|n| {
//@ with
let all_v = self.get_all_nodes();
        let ghost av = all_v@;
        let deg_fn = |n: &&Arc<Node<T, A>>| -> (o: (T, usize))
            requires self.knows(n.name), self.specs.directed, self.wf_nodes(), self.wf_estore(), self.wf_index_sets(), self.wf_name_sets(), self.wf_name_store(),
            ensures o.0 == n.name, is_in_degree_of(*self, n.name, o.1),
        {
//@ rewrite
            })
            .collect())
//@ with
            };
        let out = viter_map_collect_map(all_v, deg_fn);
        proof {
            let pairs = choose|pairs: Seq<(T, usize)>| pairs.len() == av.len() && (forall|i: int| 0 <= i < av.len() ==> call_ensures(deg_fn, (&av[i],), #[trigger] pairs[i]))
                && out@ == map_of_pairs(pairs);
            assert forall|i: int| 0 <= i < pairs.len() implies (#[trigger] pairs[i]).0 == self.nodes_vec@[i].name && is_in_degree_of(*self, self.nodes_vec@[i].name, pairs[i].1) by {
                assert(call_ensures(deg_fn, (&av[i],), pairs[i]));
            }
            lemma_pairs_to_node_map(*self, pairs);
            assert forall|k: T| #[trigger] out@.contains_key(k) implies is_in_degree_of(*self, k, out@[k]) by {
                let i = self.nodes_map@[k] as int;
                assert(out@[self.nodes_vec@[i].name] == pairs[i].1);
            }
        }
        let res: Result<HashMap<T, usize>, Error> = Ok(out);
        proof { assert(res.unwrap()@ == out@); }
        res
//@ spec
    requires
        self.wf_nodes(), self.wf_estore(),
        self.wf_index_sets(), self.wf_name_sets(), self.wf_name_store(),
    ensures
        // [C09.degree.all_nodes_in_degree_map]
        !self.specs.directed ==> is_err_kind(r, ErrorKind::WrongMethod),
        self.specs.directed ==> r.is_ok() && in_degree_map(*self, r.unwrap()@),
//@ end

//@ extract fn src/graph/degree.rs get_out_degree_for_all_nodes props=C09,C20 ty=Graph
//@ rewrite
-> Result<HashMap<T, usize>, Error>
//@ with
-> (r: Result<HashMap<T, usize>, Error>)
//@ rewrite
Ok(self
            .get_all_nodes()
            .iter()
            .map(|n| {
//@ with
let all_v = self.get_all_nodes();
        let ghost av = all_v@;
        let deg_fn = |n: &&Arc<Node<T, A>>| -> (o: (T, usize))
            requires self.knows(n.name), self.specs.directed, self.wf_nodes(), self.wf_estore(), self.wf_index_sets(), self.wf_name_sets(), self.wf_name_store(),
            ensures o.0 == n.name, is_out_degree_of(*self, n.name, o.1),
        {
//@ rewrite
            })
            .collect())
//@ with
            };
        let out = viter_map_collect_map(all_v, deg_fn);
        proof {
            let pairs = choose|pairs: Seq<(T, usize)>| pairs.len() == av.len() && (forall|i: int| 0 <= i < av.len() ==> call_ensures(deg_fn, (&av[i],), #[trigger] pairs[i]))
                && out@ == map_of_pairs(pairs);
            assert forall|i: int| 0 <= i < pairs.len() implies (#[trigger] pairs[i]).0 == self.nodes_vec@[i].name && is_out_degree_of(*self, self.nodes_vec@[i].name, pairs[i].1) by {
                assert(call_ensures(deg_fn, (&av[i],), pairs[i]));
            }
            lemma_pairs_to_node_map(*self, pairs);
            assert forall|k: T| #[trigger] out@.contains_key(k) implies is_out_degree_of(*self, k, out@[k]) by {
                let i = self.nodes_map@[k] as int;
                assert(out@[self.nodes_vec@[i].name] == pairs[i].1);
            }
        }
        let res: Result<HashMap<T, usize>, Error> = Ok(out);
        proof { assert(res.unwrap()@ == out@); }
        res
//@ spec
    requires
        self.wf_nodes(), self.wf_estore(),
        self.wf_index_sets(), self.wf_name_sets(), self.wf_name_store(),
    ensures
        // [C09.degree.all_nodes_out_degree_map]
        !self.specs.directed ==> is_err_kind(r, ErrorKind::WrongMethod),
        self.specs.directed ==> r.is_ok() && out_degree_map(*self, r.unwrap()@),
//@ end

//@ extract fn src/graph/query.rs size props=C09,C20 ty=Graph
//@ rewrite
-> f64
//@ with
-> (r: f64)
//@ rewrite
self.get_all_edges().len() as f64,
//@ with
vcast_usize_f64(self.get_all_edges().len()),
//@ rewrite
self.get_all_edges().iter().map(|e| e.weight).sum(),
//@ with
vsum_weights(&self.get_all_edges()),
//@ spec
    ensures
        // [C09.count.size_unweighted_is_the_edge_count_weighted_is_the_weight_sum]
        !weighted ==> r == usize_to_f64(self.stored_edge_count() as usize),
        weighted ==> exists|l: Seq<Arc<Edge<T, A>>>| l.len() == self.all_edges_seq().len()
            && (forall|i: int| 0 <= i < l.len() ==> *(#[trigger] l[i]) == self.all_edges_seq()[i]) && r == wsum(l),
//@ end

//@ extract fn src/graph/degree.rs get_weighted_degree_for_all_nodes props=C09,C20 ty=Graph
//@ rewrite
-> HashMap<T, f64>
//@ with
-> (r: HashMap<T, f64>)
//@ rewrite
self.get_all_nodes()
            .iter()
            .map(|n| {
//@ with
let all_v = self.get_all_nodes();
        let ghost av = all_v@;
        let deg_fn = |n: &&Arc<Node<T, A>>| -> (o: (T, f64))
            requires self.knows(n.name), self.wf_nodes(), self.wf_estore(), self.wf_index_sets(), self.wf_name_sets(), self.wf_name_store(), name_order_total::<T>(),
            ensures o.0 == n.name, is_weighted_degree_of(*self, n.name, o.1),
        {
//@ rewrite
            })
            .collect()
//@ with
            };
        let out = viter_map_collect_map(all_v, deg_fn);
        proof {
            let pairs = choose|pairs: Seq<(T, f64)>| pairs.len() == av.len() && (forall|i: int| 0 <= i < av.len() ==> call_ensures(deg_fn, (&av[i],), #[trigger] pairs[i]))
                && out@ == map_of_pairs(pairs);
            assert forall|i: int| 0 <= i < pairs.len() implies (#[trigger] pairs[i]).0 == self.nodes_vec@[i].name && is_weighted_degree_of(*self, self.nodes_vec@[i].name, pairs[i].1) by {
                assert(call_ensures(deg_fn, (&av[i],), pairs[i]));
            }
            lemma_pairs_to_node_map(*self, pairs);
            assert forall|k: T| #[trigger] out@.contains_key(k) implies is_weighted_degree_of(*self, k, out@[k]) by {
                let i = self.nodes_map@[k] as int;
                assert(out@[self.nodes_vec@[i].name] == pairs[i].1);
            }
        }
        out
//@ spec
    requires
        self.wf_nodes(), self.wf_estore(),
        self.wf_index_sets(), self.wf_name_sets(), self.wf_name_store(), name_order_total::<T>(),
    ensures
        // [C09.degree.all_nodes_weighted_degree_map]
        forall|k: T| #[trigger] r@.contains_key(k) <==> self.knows(k),
        forall|k: T| #[trigger] r@.contains_key(k) ==> is_weighted_degree_of(*self, k, r@[k]),
//@ end

//@ extract fn src/graph/degree.rs get_weighted_in_degree_for_all_nodes props=C09,C20 ty=Graph
//@ rewrite
-> Result<HashMap<T, f64>, Error>
//@ with
-> (r: Result<HashMap<T, f64>, Error>)
//@ rewrite
Ok(self
            .get_all_nodes()
            .iter()
            .map(|n| {
//@ with
let all_v = self.get_all_nodes();
        let ghost av = all_v@;
        let deg_fn = |n: &&Arc<Node<T, A>>| -> (o: (T, f64))
            requires self.knows(n.name), self.specs.directed, self.wf_nodes(), self.wf_estore(), self.wf_index_sets(), self.wf_name_sets(), self.wf_name_store(),
            ensures o.0 == n.name, is_weighted_in_degree_of(*self, n.name, o.1),
        {
//@ rewrite
            })
            .collect())
//@ with
            };
        let out = viter_map_collect_map(all_v, deg_fn);
        proof {
            let pairs = choose|pairs: Seq<(T, f64)>| pairs.len() == av.len() && (forall|i: int| 0 <= i < av.len() ==> call_ensures(deg_fn, (&av[i],), #[trigger] pairs[i]))
                && out@ == map_of_pairs(pairs);
            assert forall|i: int| 0 <= i < pairs.len() implies (#[trigger] pairs[i]).0 == self.nodes_vec@[i].name && is_weighted_in_degree_of(*self, self.nodes_vec@[i].name, pairs[i].1) by {
                assert(call_ensures(deg_fn, (&av[i],), pairs[i]));
            }
            lemma_pairs_to_node_map(*self, pairs);
            assert forall|k: T| #[trigger] out@.contains_key(k) implies is_weighted_in_degree_of(*self, k, out@[k]) by {
                let i = self.nodes_map@[k] as int;
                assert(out@[self.nodes_vec@[i].name] == pairs[i].1);
            }
        }
        let res: Result<HashMap<T, f64>, Error> = Ok(out);
        proof { assert(res.unwrap()@ == out@); }
        res
//@ spec
    requires
        self.wf_nodes(), self.wf_estore(),
        self.wf_index_sets(), self.wf_name_sets(), self.wf_name_store(),
    ensures
        // [C09.degree.all_nodes_weighted_in_degree_map]
        !self.specs.directed ==> is_err_kind(r, ErrorKind::WrongMethod),
        self.specs.directed ==> r.is_ok() && (forall|k: T| #[trigger] r.unwrap()@.contains_key(k) <==> self.knows(k))
            && (forall|k: T| #[trigger] r.unwrap()@.contains_key(k) ==> is_weighted_in_degree_of(*self, k, r.unwrap()@[k])),
//@ end

//@ extract fn src/graph/degree.rs get_weighted_out_degree_for_all_nodes props=C09,C20 ty=Graph
//@ rewrite
-> Result<HashMap<T, f64>, Error>
//@ with
-> (r: Result<HashMap<T, f64>, Error>)
//@ rewrite
Ok(self
            .get_all_nodes()
            .iter()
            .map(|n| {
//@ with
let all_v = self.get_all_nodes();
        let ghost av = all_v@;
        let deg_fn = |n: &&Arc<Node<T, A>>| -> (o: (T, f64))
            requires self.knows(n.name), self.specs.directed, self.wf_nodes(), self.wf_estore(), self.wf_index_sets(), self.wf_name_sets(), self.wf_name_store(),
            ensures o.0 == n.name, is_weighted_out_degree_of(*self, n.name, o.1),
        {
//@ rewrite
            })
            .collect())
//@ with
            };
        let out = viter_map_collect_map(all_v, deg_fn);
        proof {
            let pairs = choose|pairs: Seq<(T, f64)>| pairs.len() == av.len() && (forall|i: int| 0 <= i < av.len() ==> call_ensures(deg_fn, (&av[i],), #[trigger] pairs[i]))
                && out@ == map_of_pairs(pairs);
            assert forall|i: int| 0 <= i < pairs.len() implies (#[trigger] pairs[i]).0 == self.nodes_vec@[i].name && is_weighted_out_degree_of(*self, self.nodes_vec@[i].name, pairs[i].1) by {
                assert(call_ensures(deg_fn, (&av[i],), pairs[i]));
            }
            lemma_pairs_to_node_map(*self, pairs);
            assert forall|k: T| #[trigger] out@.contains_key(k) implies is_weighted_out_degree_of(*self, k, out@[k]) by {
                let i = self.nodes_map@[k] as int;
                assert(out@[self.nodes_vec@[i].name] == pairs[i].1);
            }
        }
        let res: Result<HashMap<T, f64>, Error> = Ok(out);
        proof { assert(res.unwrap()@ == out@); }
        res
//@ spec
    requires
        self.wf_nodes(), self.wf_estore(),
        self.wf_index_sets(), self.wf_name_sets(), self.wf_name_store(),
    ensures
        // [C09.degree.all_nodes_weighted_out_degree_map]
        !self.specs.directed ==> is_err_kind(r, ErrorKind::WrongMethod),
        self.specs.directed ==> r.is_ok() && (forall|k: T| #[trigger] r.unwrap()@.contains_key(k) <==> self.knows(k))
            && (forall|k: T| #[trigger] r.unwrap()@.contains_key(k) ==> is_weighted_out_degree_of(*self, k, r.unwrap()@[k])),
//@ end
}

// ---- C02: edge lists for node SETS: a filter of get_all_edges() by membership of an endpoint ----
// R-ext (A5): `v.into_iter().filter(f).collect()` (references kept): ASSUMED to keep, in order, exactly the elements for which f
// answers true; `names.iter().collect::<HashSet<&T>>()`: ASSUMED to be the set of the slice's elements
pub open spec fn ref_filter_picks<'a, Y: 'a, F: FnMut(&&'a Arc<Y>) -> bool>(v: Seq<&'a Arc<Y>>, r: Seq<&'a Arc<Y>>, keep: Seq<int>, f: F) -> bool {
    &&& keep.len() == r.len()
    &&& forall|a: int, b: int| 0 <= a < b < keep.len() ==> keep[a] < keep[b]
    &&& forall|k: int| 0 <= k < keep.len() ==> 0 <= #[trigger] keep[k] < v.len() && **r[k] == **v[keep[k]] && call_ensures(f, (&v[keep[k]],), true)
    &&& forall|i: int| 0 <= i < v.len() ==> keep.contains(i) || call_ensures(f, (&#[trigger] v[i],), false)
}
#[verifier::external_body]
pub fn vfilter_collect<'a, Y: 'a, F: FnMut(&&'a Arc<Y>) -> bool>(v: Vec<&'a Arc<Y>>, f: F) -> (r: Vec<&'a Arc<Y>>)
    requires forall|i: int| 0 <= i < v@.len() ==> call_requires(f, (&#[trigger] v@[i],)),
    ensures exists|keep: Seq<int>| #[trigger] ref_filter_picks(v@, r@, keep, f),
{ v.into_iter().filter(f).collect() }
// A4: HashSet<&T>::contains(&T) is membership (vstd states this for owned and boxed keys only)
pub broadcast axiom fn axiom_set_ref_contains<T>(m: Set<&T>, k: &T)
    ensures #[trigger] vstd::std_specs::hash::set_contains_borrowed_key::<&T, T>(m, k) <==> m.contains(k);
#[verifier::external_body]
pub fn vslice_to_ref_hashset<'a, T: Eq + Hash>(v: &'a [T]) -> (r: HashSet<&'a T>)
    ensures forall|x: T| r@.contains(&x) <==> v@.contains(x),
{ v.iter().collect() }
// an endpoint of e is named in `names`: either endpoint (mode 0), the target (mode 1, in-edges), the source (mode 2, out-edges)
pub open spec fn end_in<T: PartialOrd + Send, A>(names: Seq<T>, mode: int, e: Edge<T, A>) -> bool {
    if mode == 0 { names.contains(e.u) || names.contains(e.v) } else if mode == 1 { names.contains(e.v) } else { names.contains(e.u) }
}
// `out` is the subsequence of get_all_edges() (kept positions `keep`, in order) of exactly the edges with an endpoint in `names`
pub open spec fn edges_selected<T: Eq + PartialOrd + Send + Sync, A: Clone>(g: Graph<T, A>, names: Seq<T>, mode: int, keep: Seq<int>, out: Seq<&Arc<Edge<T, A>>>) -> bool {
    &&& forall|a: int, b: int| 0 <= a < b < keep.len() ==> keep[a] < keep[b]
    &&& forall|k: int| 0 <= k < keep.len() ==> 0 <= #[trigger] keep[k] < g.all_edges_seq().len() && end_in(names, mode, g.all_edges_seq()[keep[k]])
    &&& forall|i: int| 0 <= i < g.all_edges_seq().len() && end_in(names, mode, #[trigger] g.all_edges_seq()[i]) ==> keep.contains(i)
    &&& out.len() == keep.len()
    &&& forall|k: int| 0 <= k < keep.len() ==> **#[trigger] out[k] == g.all_edges_seq()[keep[k]]
}

impl<T, A> Graph<T, A>
where
    T: Eq + Clone + PartialOrd + Ord + Hash + Send + Sync + Display,
    A: Clone,
{
//@ extract fn src/graph/query.rs get_edges_for_nodes props=C02,C20 ty=Graph
//@ rewrite
-> Result<Vec<&Arc<Edge<T, A>>>, Error>
//@ with
-> (r: Result<Vec<&Arc<Edge<T, A>>>, Error>)
//@ rewrite
names.iter().collect();
//@ with
vslice_to_ref_hashset(names);
//@ rewrite
Ok(self
            .get_all_edges()
            .into_iter()
            .filter(|e|
//@ with
let all_v = self.get_all_edges();
        let ghost av = all_v@;
        let sel_fn = |e: &&Arc<Edge<T, A>>| -> (b: bool)
            requires key_model_ok::<T>(), vstd::std_specs::hash::obeys_key_model::<&T>(),
            ensures b == (names_set@.contains(&e.u) || names_set@.contains(&e.v)),
        { broadcast use axiom_set_ref_contains;
//@ rewrite
)
            .collect())
//@ with
 };
        let out = vfilter_collect(all_v, sel_fn);
        proof {
            let keep = choose|keep: Seq<int>| #[trigger] ref_filter_picks(av, out@, keep, sel_fn);
            assert(ref_filter_picks(av, out@, keep, sel_fn));
            let alle = self.all_edges_seq();
            assert forall|k: int| 0 <= k < keep.len() implies 0 <= #[trigger] keep[k] < alle.len() && (names@.contains(alle[keep[k]].u) || names@.contains(alle[keep[k]].v)) by {
                assert(call_ensures(sel_fn, (&av[keep[k]],), true));
                assert(**av[keep[k]] == alle[keep[k]]);
            }
            assert forall|i: int| 0 <= i < alle.len() && (names@.contains(alle[i].u) || names@.contains(alle[i].v)) implies keep.contains(i) by {
                assert(keep.contains(i) || call_ensures(sel_fn, (&av[i],), false));
                assert(**av[i] == alle[i]);
            }
            assert(edges_selected(*self, names@, 0, keep, out@));
        }
        let res: Result<Vec<&Arc<Edge<T, A>>>, Error> = Ok(out);
        proof { assert(res.unwrap()@ == out@); }
        res
//@ spec
    requires
        self.wf_nodes(),
        key_model_ok::<T>(),
        // A2, extended: a reference to a node name obeys the key model like the name itself
        vstd::std_specs::hash::obeys_key_model::<&T>(),
    ensures
        // [C02.edges.edges_of_node_set_guards]
        !(forall|i: int| 0 <= i < names@.len() ==> self.knows(#[trigger] names@[i])) ==> is_err_kind(r, ErrorKind::NodeNotFound),
        // [C02.edges.edges_of_node_set_is_the_filter_of_all_edges]
        (forall|i: int| 0 <= i < names@.len() ==> self.knows(#[trigger] names@[i])) ==> r.is_ok()
            && exists|keep: Seq<int>| #[trigger] edges_selected(*self, names@, 0, keep, r.unwrap()@),
//@ end

//@ extract fn src/graph/query.rs get_in_edges_for_nodes props=C02,C20 ty=Graph
//@ rewrite
-> Result<Vec<&Arc<Edge<T, A>>>, Error>
//@ with
-> (r: Result<Vec<&Arc<Edge<T, A>>>, Error>)
//@ rewrite
names.iter().collect();
//@ with
vslice_to_ref_hashset(names);
//@ rewrite
Ok(self
            .get_all_edges()
            .into_iter()
            .filter(|e|
//@ with
let all_v = self.get_all_edges();
        let ghost av = all_v@;
        let sel_fn = |e: &&Arc<Edge<T, A>>| -> (b: bool)
            requires key_model_ok::<T>(), vstd::std_specs::hash::obeys_key_model::<&T>(),
            ensures b == (names_set@.contains(&e.v)),
        { broadcast use axiom_set_ref_contains;
//@ rewrite
)
            .collect())
//@ with
 };
        let out = vfilter_collect(all_v, sel_fn);
        proof {
            let keep = choose|keep: Seq<int>| #[trigger] ref_filter_picks(av, out@, keep, sel_fn);
            assert(ref_filter_picks(av, out@, keep, sel_fn));
            let alle = self.all_edges_seq();
            assert forall|k: int| 0 <= k < keep.len() implies 0 <= #[trigger] keep[k] < alle.len() && (names@.contains(alle[keep[k]].v)) by {
                assert(call_ensures(sel_fn, (&av[keep[k]],), true));
                assert(**av[keep[k]] == alle[keep[k]]);
            }
            assert forall|i: int| 0 <= i < alle.len() && (names@.contains(alle[i].v)) implies keep.contains(i) by {
                assert(keep.contains(i) || call_ensures(sel_fn, (&av[i],), false));
                assert(**av[i] == alle[i]);
            }
            assert(edges_selected(*self, names@, 1, keep, out@));
        }
        let res: Result<Vec<&Arc<Edge<T, A>>>, Error> = Ok(out);
        proof { assert(res.unwrap()@ == out@); }
        res
//@ spec
    requires
        self.wf_nodes(),
        key_model_ok::<T>(),
        // A2, extended: a reference to a node name obeys the key model like the name itself
        vstd::std_specs::hash::obeys_key_model::<&T>(),
    ensures
        // [C02.edges.in_edges_of_node_set_guards]
        !self.specs.directed ==> is_err_kind(r, ErrorKind::WrongMethod),
        self.specs.directed && !(forall|i: int| 0 <= i < names@.len() ==> self.knows(#[trigger] names@[i])) ==> is_err_kind(r, ErrorKind::NodeNotFound),
        // [C02.edges.in_edges_of_node_set_is_the_filter_of_all_edges]
        self.specs.directed && (forall|i: int| 0 <= i < names@.len() ==> self.knows(#[trigger] names@[i])) ==> r.is_ok()
            && exists|keep: Seq<int>| #[trigger] edges_selected(*self, names@, 1, keep, r.unwrap()@),
//@ end

//@ extract fn src/graph/query.rs get_out_edges_for_nodes props=C02,C20 ty=Graph
//@ rewrite
-> Result<Vec<&Arc<Edge<T, A>>>, Error>
//@ with
-> (r: Result<Vec<&Arc<Edge<T, A>>>, Error>)
//@ rewrite
names.iter().collect();
//@ with
vslice_to_ref_hashset(names);
//@ rewrite
Ok(self
            .get_all_edges()
            .into_iter()
            .filter(|e|
//@ with
let all_v = self.get_all_edges();
        let ghost av = all_v@;
        let sel_fn = |e: &&Arc<Edge<T, A>>| -> (b: bool)
            requires key_model_ok::<T>(), vstd::std_specs::hash::obeys_key_model::<&T>(),
            ensures b == (names_set@.contains(&e.u)),
        { broadcast use axiom_set_ref_contains;
//@ rewrite
)
            .collect())
//@ with
 };
        let out = vfilter_collect(all_v, sel_fn);
        proof {
            let keep = choose|keep: Seq<int>| #[trigger] ref_filter_picks(av, out@, keep, sel_fn);
            assert(ref_filter_picks(av, out@, keep, sel_fn));
            let alle = self.all_edges_seq();
            assert forall|k: int| 0 <= k < keep.len() implies 0 <= #[trigger] keep[k] < alle.len() && (names@.contains(alle[keep[k]].u)) by {
                assert(call_ensures(sel_fn, (&av[keep[k]],), true));
                assert(**av[keep[k]] == alle[keep[k]]);
            }
            assert forall|i: int| 0 <= i < alle.len() && (names@.contains(alle[i].u)) implies keep.contains(i) by {
                assert(keep.contains(i) || call_ensures(sel_fn, (&av[i],), false));
                assert(**av[i] == alle[i]);
            }
            assert(edges_selected(*self, names@, 2, keep, out@));
        }
        let res: Result<Vec<&Arc<Edge<T, A>>>, Error> = Ok(out);
        proof { assert(res.unwrap()@ == out@); }
        res
//@ spec
    requires
        self.wf_nodes(),
        key_model_ok::<T>(),
        // A2, extended: a reference to a node name obeys the key model like the name itself
        vstd::std_specs::hash::obeys_key_model::<&T>(),
    ensures
        // [C02.edges.out_edges_of_node_set_guards]
        !self.specs.directed ==> is_err_kind(r, ErrorKind::WrongMethod),
        self.specs.directed && !(forall|i: int| 0 <= i < names@.len() ==> self.knows(#[trigger] names@[i])) ==> is_err_kind(r, ErrorKind::NodeNotFound),
        // [C02.edges.out_edges_of_node_set_is_the_filter_of_all_edges]
        self.specs.directed && (forall|i: int| 0 <= i < names@.len() ==> self.knows(#[trigger] names@[i])) ==> r.is_ok()
            && exists|keep: Seq<int>| #[trigger] edges_selected(*self, names@, 2, keep, r.unwrap()@),
//@ end
}
