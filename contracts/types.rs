// ---- graphrs type definitions, extracted (E3: fields pub, derives normalised) ----
pub type IntMap<K, V> = HashMap<K, V>;   // R-alias: nohash::IntMap is std HashMap with a pass-through hasher
pub type IntSet<K> = HashSet<K>;         // R-alias: nohash::IntSet likewise

//@ extract struct src/graph/adjacent_node.rs AdjacentNode pubfields
//@ rewrite
pub(crate) struct
//@ with
pub struct
//@ end

//@ extract enum src/graph_specs.rs EdgeDedupeStrategy
//@ head
#[derive(Clone, PartialEq, Eq, Structural)]
//@ end
//@ extract enum src/graph_specs.rs MissingNodeStrategy
//@ head
#[derive(Clone, PartialEq, Eq, Structural)]
//@ end
//@ extract enum src/graph_specs.rs SelfLoopsFalseStrategy
//@ head
#[derive(Clone, PartialEq, Eq, Structural)]
//@ end
//@ extract struct src/graph_specs.rs GraphSpecs
//@ head
#[derive(Clone)]
//@ end

//@ extract enum src/error.rs ErrorKind
//@ head
#[derive(Clone, Debug)]
//@ end
//@ extract struct src/error.rs Error
//@ head
#[derive(Clone, Debug)]
//@ end

//@ extract struct src/node.rs Node
//@ head
#[derive(Clone)]
//@ end
//@ extract struct src/edge.rs Edge
//@ head
#[derive(Clone)]
//@ end
// Display for Edge (used only to build error messages): outside verification, trusted not to panic (A6)
#[verifier::external]
impl<T: Display + PartialOrd + Send + Sync, A> std::fmt::Display for Edge<T, A> {
//@ extract fn src/edge.rs fmt nth=2
//@ rewrite
f: &mut fmt::Formatter<'_>) -> fmt::Result
//@ with
f: &mut std::fmt::Formatter<'_>) -> std::fmt::Result
//@ end
}

//@ extract struct src/graph/mod.rs Graph pubfields
//@ end
