// ---- coherence of the adjacency stores ----
impl<T: Eq + PartialOrd + Send + Sync, A: Clone> Graph<T, A> {
    pub open spec fn pos(&self, a: T) -> usize {
        self.nodes_map@[a]
    }

    pub open spec fn linked(&self, i: usize, j: usize) -> bool {
        self.has_pair(self.canon(i, j).0, self.canon(i, j).1)
    }

    pub open spec fn wf_index_sets(&self) -> bool {
        &&& forall|i: usize, j: usize| #[trigger] self.succ_set(i).contains(j) <==> self.linked(i, j)
        &&& forall|i: usize, j: usize| #[trigger] self.pred_set(j).contains(i) <==> (self.specs.directed && self.has_pair(i, j))
    }

    pub open spec fn wf_name_sets(&self) -> bool {
        &&& forall|a: T, x: T| #[trigger] self.succ_names(a).contains(x) <==>
                (self.knows(a) && self.knows(x) && self.succ_set(self.pos(a)).contains(self.pos(x)))
        &&& forall|a: T, x: T| #[trigger] self.pred_names(a).contains(x) <==>
                (self.knows(a) && self.knows(x) && self.pred_set(self.pos(a)).contains(self.pos(x)))
    }
}

// [C02.coherence.index_members_in_range] what the successor / predecessor node queries require follows from the coherence invariant
pub proof fn lemma_index_members_from_coherence<T: Eq + PartialOrd + Send + Sync, A: Clone>(g: Graph<T, A>)
    requires
        g.wf_estore(), g.wf_index_sets(),
    ensures
        g.wf_index_members(),
{
    assert forall|i: usize, j: usize| #[trigger] g.succ_set(i).contains(j) implies j < g.n() by {
        assert(g.linked(i, j));
        let c = g.canon(i, j);
        assert(g.has_pair(c.0, c.1));
        assert(c == (i, j) || c == (j, i));
    }
    assert forall|i: usize, j: usize| #[trigger] g.pred_set(i).contains(j) implies j < g.n() by {
        assert(g.has_pair(j, i));
    }
}

// [C20.wsteps.lead_to_node_names] with coherent adjacency maps a weak step leads to a node name
pub proof fn lemma_wsteps_known<T: Eq + PartialOrd + Send + Sync, A: Clone>(g: Graph<T, A>)
    requires
        g.wf_name_sets(),
    ensures
        wsteps_known(g),
{
    assert forall|a: T, x: T| #[trigger] wsteps(g, a, x) implies g.knows(x) by {
        if g.succ_names(a).contains(x) { } else { assert(g.pred_names(a).contains(x)); }
    }
}

// [C10.wsteps.symmetric_on_directed_graphs] with coherent adjacency maps a weak step (successor or predecessor name) can be taken back
pub proof fn lemma_wsteps_symmetric<T: Eq + PartialOrd + Send + Sync, A: Clone>(g: Graph<T, A>)
    requires
        g.wf_nodes(), g.wf_estore(), g.wf_index_sets(), g.wf_name_sets(), g.specs.directed,
    ensures
        wsteps_symmetric(g),
{
    assert forall|a: T, x: T| #[trigger] wsteps(g, a, x) implies wsteps(g, x, a) by {
        if g.succ_names(a).contains(x) {
            assert(g.knows(a) && g.knows(x) && g.succ_set(g.pos(a)).contains(g.pos(x)));
            assert(g.linked(g.pos(a), g.pos(x)));
            assert(g.has_pair(g.pos(a), g.pos(x)));
            assert(g.pred_set(g.pos(x)).contains(g.pos(a)));
            assert(g.pred_names(x).contains(a));
        } else {
            assert(g.knows(a) && g.knows(x) && g.pred_set(g.pos(a)).contains(g.pos(x)));
            assert(g.has_pair(g.pos(x), g.pos(a)));
            assert(g.linked(g.pos(x), g.pos(a)));
            assert(g.succ_set(g.pos(x)).contains(g.pos(a)));
            assert(g.succ_names(x).contains(a));
        }
    }
}

// [C20.steps.backed_by_a_stored_edge_on_directed_graphs] a successor listed by the index set has a stored edge list under the canonical key
pub proof fn lemma_steps_are_stored_directed<T: Eq + PartialOrd + Send + Sync, A: Clone>(g: Graph<T, A>)
    requires
        g.wf_index_sets(), g.specs.directed,
    ensures
        steps_are_stored(g),
{
    assert forall|a: T, x: T| #[trigger] steps_to(g, a, x) implies
            g.has_pair(g.canon(g.nodes_map@[a], g.nodes_map@[x]).0, g.canon(g.nodes_map@[a], g.nodes_map@[x]).1) by {
        assert(g.linked(g.nodes_map@[a], g.nodes_map@[x]));
    }
}

// [C02.coherence.index_sets_preserved_by_add_edge]
pub proof fn lemma_index_sets_preserved_by_add_edge<T: Eq + PartialOrd + Send + Sync, A: Clone>(pre: Graph<T, A>, e: Edge<T, A>, post: Graph<T, A>, r: Result<(), Error>)
    requires
        pre.wf_nodes(), pre.wf_estore(), pre.wf_index_sets(),
        add_edge_rel(pre, e, post, r),
    ensures
        post.wf_index_sets(),
{
    if !pre.stores(e) {
        assert(post == pre);
    } else {
        lemma_existed_is_pair(pre, e, post, r);
        let iu = post.nodes_map@[e.u];
        let iv = post.nodes_map@[e.v];
        let c = stored_key(post, e);
        lemma_canon_fix(post, c.0, c.1);
        assert forall|i: usize, j: usize| #[trigger] post.succ_set(i).contains(j) <==> post.linked(i, j) by {
            let cj = post.canon(i, j);
            assert(pre.canon(i, j) == cj);
            assert(pre.succ_set(i).contains(j) <==> pre.linked(i, j));
            if cj == c {
                // (i, j) is the stored pair, in one of its orientations
                assert((i == iu && j == iv) || (!pre.specs.directed && i == iv && j == iu));
            } else {
                assert(post.has_pair(cj.0, cj.1) == pre.has_pair(cj.0, cj.1));
                assert(!(i == iu && j == iv));
                assert(!(!pre.specs.directed && i == iv && j == iu));
            }
        }
        assert forall|i: usize, j: usize| #[trigger] post.pred_set(j).contains(i) <==> (post.specs.directed && post.has_pair(i, j)) by {
            assert(pre.pred_set(j).contains(i) <==> (pre.specs.directed && pre.has_pair(i, j)));
            if pre.specs.directed {
                if i == iu && j == iv {
                } else {
                    assert(post.has_pair(i, j) == pre.has_pair(i, j));
                }
            } else {
                if i != c.0 || j != c.1 {
                    assert(post.has_pair(i, j) == pre.has_pair(i, j));
                }
            }
        }
    }
}

// [C02.coherence.name_sets_preserved_by_add_edge]
pub proof fn lemma_name_sets_preserved_by_add_edge<T: Eq + PartialOrd + Send + Sync, A: Clone>(pre: Graph<T, A>, e: Edge<T, A>, post: Graph<T, A>, r: Result<(), Error>)
    requires
        pre.wf_nodes(), pre.wf_estore(), pre.wf_index_sets(), pre.wf_name_sets(),
        add_edge_rel(pre, e, post, r),
    ensures
        post.wf_name_sets(),
{
    if !pre.stores(e) {
        assert(post == pre);
    } else {
        lemma_existed_is_pair(pre, e, post, r);
        lemma_positions_kept(pre, e, post, r, e.u);
        lemma_positions_kept(pre, e, post, r, e.v);
        let iu = post.nodes_map@[e.u];
        let iv = post.nodes_map@[e.v];
        assert(post.name_of(iu) == e.u && post.name_of(iv) == e.v);
        assert forall|a: T, x: T| #[trigger] post.succ_names(a).contains(x) <==>
                (post.knows(a) && post.knows(x) && post.succ_set(post.pos(a)).contains(post.pos(x))) by {
            assert(pre.succ_names(a).contains(x) <==> (pre.knows(a) && pre.knows(x) && pre.succ_set(pre.pos(a)).contains(pre.pos(x))));
            if post.knows(a) && post.knows(x) {
                lemma_positions_kept(pre, e, post, r, a);
                lemma_positions_kept(pre, e, post, r, x);
                let ia = post.pos(a);
                let ix = post.pos(x);
                assert(post.name_of(ia) == a && post.name_of(ix) == x);
                // positions determine names: (ia, ix) is the new adjacency iff (a, x) is
                assert((ia == iu && ix == iv) <==> (a == e.u && x == e.v));
                assert((ia == iv && ix == iu) <==> (a == e.v && x == e.u));
                if !(pre.knows(a) && pre.knows(x)) {
                    // a created node had no adjacency before: index sets only hold positions < pre.n
                    if pre.succ_set(ia).contains(ix) {
                        assert(pre.linked(ia, ix));
                        assert(ia < pre.n() && ix < pre.n());
                    }
                }
            } else {
                // an unknown name has no adjacency, before or after
                if post.succ_names(a).contains(x) {
                    assert(pre.succ_names(a).contains(x) || (a == e.u && x == e.v) || (!pre.specs.directed && a == e.v && x == e.u));
                    if pre.succ_names(a).contains(x) {
                        lemma_pre_known_stays_known(pre, e, post, r, a);
                        lemma_pre_known_stays_known(pre, e, post, r, x);
                    }
                }
            }
        }
        assert forall|a: T, x: T| #[trigger] post.pred_names(a).contains(x) <==>
                (post.knows(a) && post.knows(x) && post.pred_set(post.pos(a)).contains(post.pos(x))) by {
            assert(pre.pred_names(a).contains(x) <==> (pre.knows(a) && pre.knows(x) && pre.pred_set(pre.pos(a)).contains(pre.pos(x))));
            if post.knows(a) && post.knows(x) {
                lemma_positions_kept(pre, e, post, r, a);
                lemma_positions_kept(pre, e, post, r, x);
                let ia = post.pos(a);
                let ix = post.pos(x);
                assert(post.name_of(ia) == a && post.name_of(ix) == x);
                assert((ia == iv && ix == iu) <==> (a == e.v && x == e.u));
                if !(pre.knows(a) && pre.knows(x)) {
                    if pre.pred_set(ia).contains(ix) {
                        assert(pre.has_pair(ix, ia));
                        assert(ia < pre.n() && ix < pre.n());
                    }
                }
            } else {
                if post.pred_names(a).contains(x) {
                    if pre.pred_names(a).contains(x) {
                        lemma_pre_known_stays_known(pre, e, post, r, a);
                        lemma_pre_known_stays_known(pre, e, post, r, x);
                    }
                }
            }
        }
    }
}

// a name known before a storing add_edge is known afterwards
pub proof fn lemma_pre_known_stays_known<T: Eq + PartialOrd + Send + Sync, A: Clone>(pre: Graph<T, A>, e: Edge<T, A>, post: Graph<T, A>, r: Result<(), Error>, x: T)
    requires
        pre.wf_nodes(), pre.wf_estore(),
        add_edge_rel(pre, e, post, r),
        pre.stores(e),
        pre.knows(x),
    ensures
        post.knows(x),
{
    let i = pre.nodes_map@[x];
    assert(pre.nodes_vec@[i as int].name == x);
    assert(post.n() == names_after(pre.names(), pre.knows(e.u), pre.knows(e.v), e.u, e.v).len());
    assert(post.nodes_vec@[i as int] == pre.nodes_vec@[i as int]);
    assert(post.nodes_map@.contains_key(post.nodes_vec@[i as int].name));
}

// [C02.coherence.preserved_by_add_node]
// add_node (its proved contract): name maps, index sets, store and specs unchanged; known names keep their positions
pub proof fn lemma_coherence_preserved_by_add_node<T: Eq + PartialOrd + Send + Sync, A: Clone>(pre: Graph<T, A>, post: Graph<T, A>)
    requires
        pre.wf_nodes(), pre.wf_estore(), pre.wf_index_sets(), pre.wf_name_sets(),
        post.wf_nodes(),
        post.edges_map@ == pre.edges_map@,
        post.specs == pre.specs,
        post.successors@ == pre.successors@,
        post.predecessors@ == pre.predecessors@,
        forall|i: usize| #[trigger] post.succ_set(i) == pre.succ_set(i),
        forall|i: usize| #[trigger] post.pred_set(i) == pre.pred_set(i),
        // the two outcomes of add_node's contract (C01.add_node.name_index_frame): name index unchanged, or one name appended at n
        post.nodes_map@ == pre.nodes_map@
            || exists|name: T| !pre.knows(name) && #[trigger] pre.nodes_map@.insert(name, pre.n() as usize) == post.nodes_map@,
    ensures
        post.wf_index_sets(), post.wf_name_sets(),
{
    assert forall|k: T| pre.knows(k) implies post.knows(k) && #[trigger] post.nodes_map@[k] == pre.nodes_map@[k] by {}
    assert forall|k: T| post.knows(k) && !pre.knows(k) implies #[trigger] post.nodes_map@[k] >= pre.n() by {
        if post.nodes_map@ != pre.nodes_map@ {
            let name = choose|name: T| !pre.knows(name) && #[trigger] pre.nodes_map@.insert(name, pre.n() as usize) == post.nodes_map@;
            assert(post.nodes_map@ == pre.nodes_map@.insert(name, pre.n() as usize));
            assert(k == name);
            assert(pre.n() <= usize::MAX) by { assert(pre.nodes_vec.len() == pre.nodes_vec@.len()); }
        }
    }
    assert forall|i: usize, j: usize| #[trigger] post.has_pair(i, j) == pre.has_pair(i, j) by {}
    assert forall|i: usize, j: usize| #[trigger] post.succ_set(i).contains(j) <==> post.linked(i, j) by {
        assert(pre.succ_set(i).contains(j) <==> pre.linked(i, j));
        assert(post.canon(i, j) == pre.canon(i, j));
    }
    assert forall|i: usize, j: usize| #[trigger] post.pred_set(j).contains(i) <==> (post.specs.directed && post.has_pair(i, j)) by {
        assert(pre.pred_set(j).contains(i) <==> (pre.specs.directed && pre.has_pair(i, j)));
    }
    assert forall|a: T, x: T| #[trigger] post.succ_names(a).contains(x) <==>
            (post.knows(a) && post.knows(x) && post.succ_set(post.pos(a)).contains(post.pos(x))) by {
        assert(pre.succ_names(a).contains(x) <==> (pre.knows(a) && pre.knows(x) && pre.succ_set(pre.pos(a)).contains(pre.pos(x))));
        if post.knows(a) && post.knows(x) && !(pre.knows(a) && pre.knows(x)) {
            if pre.succ_set(post.pos(a)).contains(post.pos(x)) {
                assert(pre.linked(post.pos(a), post.pos(x)));
                assert(post.pos(a) < pre.n() && post.pos(x) < pre.n());
            }
        }
    }
    assert forall|a: T, x: T| #[trigger] post.pred_names(a).contains(x) <==>
            (post.knows(a) && post.knows(x) && post.pred_set(post.pos(a)).contains(post.pos(x))) by {
        assert(pre.pred_names(a).contains(x) <==> (pre.knows(a) && pre.knows(x) && pre.pred_set(pre.pos(a)).contains(pre.pos(x))));
        if post.knows(a) && post.knows(x) && !(pre.knows(a) && pre.knows(x)) {
            if pre.pred_set(post.pos(a)).contains(post.pos(x)) {
                assert(pre.has_pair(post.pos(x), post.pos(a)));
                assert(post.pos(a) < pre.n() && post.pos(x) < pre.n());
            }
        }
    }
}

// [C02.coherence.empty_graph]
pub proof fn lemma_coherence_empty<T: Eq + PartialOrd + Send + Sync, A: Clone>(g: Graph<T, A>)
    requires
        g.edges_map@.len() == 0,
        g.successors@.len() == 0,
        g.predecessors@.len() == 0,
        g.successors_map@.len() == 0,
        g.predecessors_map@.len() == 0,
    ensures
        g.wf_index_sets(), g.wf_name_sets(),
{
    assert forall|u: usize, v: usize| !#[trigger] g.has_pair(u, v) by {
        if g.edges_map@.contains_key(u) {
            assert(g.edges_map@.dom().contains(u));
        }
    }
    assert forall|i: usize| #[trigger] g.succ_set(i) == Set::<usize>::empty() && g.pred_set(i) == Set::<usize>::empty() by {
        if g.successors_map@.contains_key(i) { assert(g.successors_map@.dom().contains(i)); }
        if g.predecessors_map@.contains_key(i) { assert(g.predecessors_map@.dom().contains(i)); }
    }
    assert forall|a: T| #[trigger] g.succ_names(a) == Set::<T>::empty() && g.pred_names(a) == Set::<T>::empty() by {
        if g.successors@.contains_key(a) { assert(g.successors@.dom().contains(a)); }
        if g.predecessors@.contains_key(a) { assert(g.predecessors@.dom().contains(a)); }
    }
}

// [C02.coherence.holds_after_every_batch]
pub proof fn lemma_coherence_along_history<T: Eq + PartialOrd + Send + Sync, A: Clone>(pre: Graph<T, A>, es: Seq<Edge<T, A>>, h: Seq<Graph<T, A>>, k: int, cur: Graph<T, A>)
    requires
        pre.wf_nodes(), pre.wf_estore(), pre.wf_index_sets(), pre.wf_name_sets(),
        prefix_applied(pre, es, h, k, cur),
    ensures
        cur.wf_nodes(), cur.wf_estore(), cur.wf_index_sets(), cur.wf_name_sets(),
    decreases k
{
    if k > 0 {
        let prev = h[k - 1];
        assert(prefix_applied(pre, es, h.subrange(0, k), k - 1, prev)) by {
            let h2 = h.subrange(0, k);
            assert(h2[0] == h[0]);
            assert forall|j: int| 0 <= j < k - 1 implies add_edge_rel(h2[j], es[j], #[trigger] h2[j + 1], Ok(())) by {
                assert(h2[j] == h[j] && h2[j + 1] == h[j + 1]);
            }
        }
        lemma_coherence_along_history(pre, es, h.subrange(0, k), k - 1, prev);
        assert(add_edge_rel(h[k - 1], es[k - 1], h[k - 1 + 1], Ok(())));
        lemma_index_sets_preserved_by_add_edge(prev, es[k - 1], cur, Ok(()));
        lemma_name_sets_preserved_by_add_edge(prev, es[k - 1], cur, Ok(()));
    }
}

// ---- the name-keyed edge store `edges` (read by get_all_edges, per-node edge lists, size, degrees) mirrors the position-keyed one ----
// assumption on the node-name type used only here (true for every lawful Ord): of two different names exactly one is greater
pub open spec fn name_order_total<T: Eq + PartialOrd>() -> bool {
    forall|a: T, b: T| a != b ==> (#[trigger] tgt(a, b) != tgt(b, a))
}

impl<T: Eq + PartialOrd + Send + Sync, A: Clone> Graph<T, A> {
    // the name key under which the edges between positions (u, v) are filed: as given when directed, name-ordered when undirected
    pub open spec fn form_key(&self, u: usize, v: usize) -> (T, T) {
        let a = self.name_of(u);
        let b = self.name_of(v);
        if !self.specs.directed && tgt(a, b) { (b, a) } else { (a, b) }
    }

    pub open spec fn wf_name_store(&self) -> bool {
        // every stored pair: all its edges carry the names of form_key, and `edges` holds the same list under that key
        &&& forall|u: usize, v: usize| #[trigger] self.has_pair(u, v) ==> ({
                &&& forall|k: int| 0 <= k < self.pair_list(u, v).len() ==>
                        ((#[trigger] self.pair_list(u, v)[k]).u, self.pair_list(u, v)[k].v) == self.form_key(u, v)
                &&& self.edges@.contains_key(self.form_key(u, v))
                &&& self.name_list(self.form_key(u, v)) == self.pair_list(u, v)
            })
        // no orphan key in `edges`
        &&& forall|k: (T, T)| #[trigger] self.edges@.contains_key(k) ==> ({
                &&& self.knows(k.0) && self.knows(k.1)
                &&& self.linked(self.pos(k.0), self.pos(k.1))
                &&& self.form_key(self.canon(self.pos(k.0), self.pos(k.1)).0, self.canon(self.pos(k.0), self.pos(k.1)).1) == k
            })
    }
}

// the name key of the edge being stored is the form_key of its canonical position pair
pub proof fn lemma_stored_key_names<T: Eq + PartialOrd + Send + Sync, A: Clone>(pre: Graph<T, A>, e: Edge<T, A>, post: Graph<T, A>, r: Result<(), Error>)
    requires
        pre.wf_nodes(), pre.wf_estore(),
        add_edge_rel(pre, e, post, r),
        pre.stores(e),
        name_order_total::<T>(),
    ensures
        ({
            let c = stored_key(post, e);
            let se = pre.stored_form(e);
            (se.u, se.v) == post.form_key(c.0, c.1)
        }),
{
    lemma_existed_is_pair(pre, e, post, r);
    lemma_positions_kept(pre, e, post, r, e.u);
    lemma_positions_kept(pre, e, post, r, e.v);
    let iu = post.nodes_map@[e.u];
    let iv = post.nodes_map@[e.v];
    assert(post.name_of(iu) == e.u && post.name_of(iv) == e.v);
    let c = stored_key(post, e);
    if !pre.specs.directed && iu > iv {
        assert(c == (iv, iu));
        if e.u != e.v {
            assert(tgt(e.u, e.v) != tgt(e.v, e.u));
        }
    }
}

// form_key determines the canonical pair
pub proof fn lemma_form_key_injective<T: Eq + PartialOrd + Send + Sync, A: Clone>(g: Graph<T, A>, u: usize, v: usize, u2: usize, v2: usize)
    requires
        g.wf_nodes(),
        u < g.n() && v < g.n() && u2 < g.n() && v2 < g.n(),
        !g.specs.directed ==> u <= v && u2 <= v2,
        g.form_key(u, v) == g.form_key(u2, v2),
    ensures
        u == u2 && v == v2,
{
    assert(g.nodes_map@[g.nodes_vec@[u as int].name] == u);
    assert(g.nodes_map@[g.nodes_vec@[v as int].name] == v);
    assert(g.nodes_map@[g.nodes_vec@[u2 as int].name] == u2);
    assert(g.nodes_map@[g.nodes_vec@[v2 as int].name] == v2);
}

// [C02.coherence.name_store_preserved_by_add_edge]
pub proof fn lemma_name_store_preserved_by_add_edge<T: Eq + PartialOrd + Send + Sync, A: Clone>(pre: Graph<T, A>, e: Edge<T, A>, post: Graph<T, A>, r: Result<(), Error>)
    requires
        pre.wf_nodes(), pre.wf_estore(), pre.wf_name_store(),
        name_order_total::<T>(),
        add_edge_rel(pre, e, post, r),
    ensures
        post.wf_name_store(),
{
    if !pre.stores(e) {
        assert(post == pre);
    } else {
        lemma_existed_is_pair(pre, e, post, r);
        lemma_stored_key_names(pre, e, post, r);
        let c = stored_key(post, e);
        let se = pre.stored_form(e);
        let k = (se.u, se.v);
        let ex = pre.existed(e);
        lemma_canon_fix(post, c.0, c.1);
        assert(post.n() >= pre.n());
        // names of old positions are unchanged, so form_key of an old pair is unchanged
        assert forall|u: usize, v: usize| u < pre.n() && v < pre.n() implies #[trigger] post.form_key(u, v) == pre.form_key(u, v) by {
            assert(post.nodes_vec@[u as int] == pre.nodes_vec@[u as int]);
            assert(post.nodes_vec@[v as int] == pre.nodes_vec@[v as int]);
        }
        assert forall|u: usize, v: usize| #[trigger] post.has_pair(u, v) implies ({
                &&& forall|j: int| 0 <= j < post.pair_list(u, v).len() ==>
                        ((#[trigger] post.pair_list(u, v)[j]).u, post.pair_list(u, v)[j].v) == post.form_key(u, v)
                &&& post.edges@.contains_key(post.form_key(u, v))
                &&& post.name_list(post.form_key(u, v)) == post.pair_list(u, v)
            }) by {
            if u != c.0 || v != c.1 {
                assert(pre.has_pair(u, v));
                assert(u < pre.n() && v < pre.n());
                assert(post.pair_list(u, v) == pre.pair_list(u, v));
                assert(post.form_key(u, v) == pre.form_key(u, v));
                // a different pair is filed under a different name key
                if post.form_key(u, v) == k {
                    assert(post.wf_estore());
                    lemma_form_key_injective(post, u, v, c.0, c.1);
                }
                assert(post.name_list(pre.form_key(u, v)) == pre.name_list(pre.form_key(u, v)));
                assert(pre.edges@.contains_key(pre.form_key(u, v)));
                assert(post.name_list(pre.form_key(u, v)).len() > 0);
            } else {
                assert(post.form_key(c.0, c.1) == k);
                if ex {
                    assert(pre.has_pair(c.0, c.1));
                    assert(c.0 < pre.n() && c.1 < pre.n());
                    assert(pre.form_key(c.0, c.1) == k);
                    assert(pre.name_list(k) == pre.pair_list(c.0, c.1));
                } else {
                    // the key was not in `edges` before: it would name a stored pair with this very form_key
                    if pre.edges@.contains_key(k) {
                        let p0 = pre.pos(k.0);
                        let p1 = pre.pos(k.1);
                        let cc = pre.canon(p0, p1);
                        assert(pre.has_pair(cc.0, cc.1));
                        assert(cc.0 < pre.n() && cc.1 < pre.n());
                        assert(post.form_key(cc.0, cc.1) == pre.form_key(cc.0, cc.1));
                        assert(post.has_pair(cc.0, cc.1) || (cc.0 == c.0 && cc.1 == c.1));
                        lemma_form_key_injective(post, cc.0, cc.1, c.0, c.1);
                    }
                    assert(pre.name_list(k).len() == 0);
                }
                assert(post.name_list(k) =~= post.pair_list(c.0, c.1));
            }
        }
        assert forall|k2: (T, T)| #[trigger] post.edges@.contains_key(k2) implies ({
                &&& post.knows(k2.0) && post.knows(k2.1)
                &&& post.linked(post.pos(k2.0), post.pos(k2.1))
                &&& post.form_key(post.canon(post.pos(k2.0), post.pos(k2.1)).0, post.canon(post.pos(k2.0), post.pos(k2.1)).1) == k2
            }) by {
            lemma_positions_kept(pre, e, post, r, e.u);
            lemma_positions_kept(pre, e, post, r, e.v);
            if k2 == k {
                let iu = post.nodes_map@[e.u];
                let iv = post.nodes_map@[e.v];
                assert((k.0 == e.u && k.1 == e.v) || (k.0 == e.v && k.1 == e.u));
                assert(post.canon(post.pos(k.0), post.pos(k.1)) == c);
            } else {
                assert(post.name_list(k2) == pre.name_list(k2));
                assert(pre.edges@.contains_key(k2));
                lemma_pre_known_stays_known(pre, e, post, r, k2.0);
                lemma_pre_known_stays_known(pre, e, post, r, k2.1);
                lemma_positions_kept(pre, e, post, r, k2.0);
                lemma_positions_kept(pre, e, post, r, k2.1);
                let cc = pre.canon(pre.pos(k2.0), pre.pos(k2.1));
                assert(post.canon(post.pos(k2.0), post.pos(k2.1)) == cc);
                assert(pre.has_pair(cc.0, cc.1));
                assert(cc.0 < pre.n() && cc.1 < pre.n());
                assert(post.form_key(cc.0, cc.1) == pre.form_key(cc.0, cc.1));
                if cc.0 == c.0 && cc.1 == c.1 {
                } else {
                    assert(post.has_pair(cc.0, cc.1) == pre.has_pair(cc.0, cc.1));
                }
            }
        }
    }
}

// [C02.coherence.name_store_preserved_by_add_node]
pub proof fn lemma_name_store_preserved_by_add_node<T: Eq + PartialOrd + Send + Sync, A: Clone>(pre: Graph<T, A>, post: Graph<T, A>)
    requires
        pre.wf_nodes(), pre.wf_estore(), pre.wf_name_store(),
        post.wf_nodes(),
        post.edges_map@ == pre.edges_map@,
        post.edges@ == pre.edges@,
        post.specs == pre.specs,
        // add_node's contract: a node is replaced in place (same name) or appended
        post.n() >= pre.n(),
        forall|i: int| 0 <= i < pre.n() ==> (#[trigger] post.nodes_vec@[i]).name == pre.nodes_vec@[i].name,
    ensures
        post.wf_name_store(),
{
    assert forall|u: usize, v: usize| #[trigger] post.has_pair(u, v) == pre.has_pair(u, v) by {}
    assert forall|u: usize, v: usize| u < pre.n() && v < pre.n() implies #[trigger] post.form_key(u, v) == pre.form_key(u, v) by {
        assert(post.nodes_vec@[u as int].name == pre.nodes_vec@[u as int].name);
        assert(post.nodes_vec@[v as int].name == pre.nodes_vec@[v as int].name);
    }
    assert forall|u: usize, v: usize| #[trigger] post.has_pair(u, v) implies ({
            &&& forall|j: int| 0 <= j < post.pair_list(u, v).len() ==>
                    ((#[trigger] post.pair_list(u, v)[j]).u, post.pair_list(u, v)[j].v) == post.form_key(u, v)
            &&& post.edges@.contains_key(post.form_key(u, v))
            &&& post.name_list(post.form_key(u, v)) == post.pair_list(u, v)
        }) by {
        assert(pre.has_pair(u, v));
        assert(u < pre.n() && v < pre.n());
        assert(post.form_key(u, v) == pre.form_key(u, v));
    }
    assert forall|k: (T, T)| #[trigger] post.edges@.contains_key(k) implies ({
            &&& post.knows(k.0) && post.knows(k.1)
            &&& post.linked(post.pos(k.0), post.pos(k.1))
            &&& post.form_key(post.canon(post.pos(k.0), post.pos(k.1)).0, post.canon(post.pos(k.0), post.pos(k.1)).1) == k
        }) by {
        assert(pre.edges@.contains_key(k));
        let p0 = pre.pos(k.0);
        let p1 = pre.pos(k.1);
        assert(pre.nodes_vec@[p0 as int].name == k.0 && pre.nodes_vec@[p1 as int].name == k.1);
        assert(post.nodes_vec@[p0 as int].name == k.0 && post.nodes_vec@[p1 as int].name == k.1);
        assert(post.nodes_map@[post.nodes_vec@[p0 as int].name] == p0);
        assert(post.nodes_map@[post.nodes_vec@[p1 as int].name] == p1);
        let cc = pre.canon(p0, p1);
        assert(pre.has_pair(cc.0, cc.1));
        assert(cc.0 < pre.n() && cc.1 < pre.n());
        assert(post.form_key(cc.0, cc.1) == pre.form_key(cc.0, cc.1));
    }
}

// [C02.coherence.name_store_empty_graph]
pub proof fn lemma_name_store_empty<T: Eq + PartialOrd + Send + Sync, A: Clone>(g: Graph<T, A>)
    requires
        g.edges_map@.len() == 0,
        g.edges@.len() == 0,
    ensures
        g.wf_name_store(),
{
    assert forall|u: usize, v: usize| !#[trigger] g.has_pair(u, v) by {
        if g.edges_map@.contains_key(u) { assert(g.edges_map@.dom().contains(u)); }
    }
    assert forall|k: (T, T)| !#[trigger] g.edges@.contains_key(k) by {
        if g.edges@.contains_key(k) { assert(g.edges@.dom().contains(k)); }
    }
}

// [C02.coherence.name_store_holds_after_every_batch]
pub proof fn lemma_name_store_along_history<T: Eq + PartialOrd + Send + Sync, A: Clone>(pre: Graph<T, A>, es: Seq<Edge<T, A>>, h: Seq<Graph<T, A>>, k: int, cur: Graph<T, A>)
    requires
        pre.wf_nodes(), pre.wf_estore(), pre.wf_name_store(),
        name_order_total::<T>(),
        prefix_applied(pre, es, h, k, cur),
    ensures
        cur.wf_nodes(), cur.wf_estore(), cur.wf_name_store(),
    decreases k
{
    if k > 0 {
        let prev = h[k - 1];
        assert(prefix_applied(pre, es, h.subrange(0, k), k - 1, prev)) by {
            let h2 = h.subrange(0, k);
            assert(h2[0] == h[0]);
            assert forall|j: int| 0 <= j < k - 1 implies add_edge_rel(h2[j], es[j], #[trigger] h2[j + 1], Ok(())) by {
                assert(h2[j] == h[j] && h2[j + 1] == h[j + 1]);
            }
        }
        lemma_name_store_along_history(pre, es, h.subrange(0, k), k - 1, prev);
        assert(add_edge_rel(h[k - 1], es[k - 1], h[k - 1 + 1], Ok(())));
        lemma_name_store_preserved_by_add_edge(prev, es[k - 1], cur, Ok(()));
    }
}
