// ---- coherence of the adjacency stores ----
impl<T: Eq + PartialOrd + Send + Sync, A: Clone> Graph<T, A> {
    pub open spec fn pos(&self, a: T) -> usize {
        self.nodes_map@[a]
    }

    pub open spec fn linked(&self, i: usize, j: usize) -> bool {
        self.has_pair(self.canon(i, j).0, self.canon(i, j).1)
    }

    pub open spec fn wf_index_sets(&self) -> bool {
        &&& forall|i: usize, j: usize| #[trigger] self.succ_set(i).contains(j) <==> self.linked(i, j)
        &&& forall|i: usize, j: usize| #[trigger] self.pred_set(j).contains(i) <==> (self.specs.directed && self.has_pair(i, j))
    }

    pub open spec fn wf_name_sets(&self) -> bool {
        &&& forall|a: T, x: T| #[trigger] self.succ_names(a).contains(x) <==>
                (self.knows(a) && self.knows(x) && self.succ_set(self.pos(a)).contains(self.pos(x)))
        &&& forall|a: T, x: T| #[trigger] self.pred_names(a).contains(x) <==>
                (self.knows(a) && self.knows(x) && self.pred_set(self.pos(a)).contains(self.pos(x)))
    }
}

// [C02.coherence.index_sets_preserved_by_add_edge]
pub proof fn lemma_index_sets_preserved_by_add_edge<T: Eq + PartialOrd + Send + Sync, A: Clone>(pre: Graph<T, A>, e: Edge<T, A>, post: Graph<T, A>, r: Result<(), Error>)
    requires
        pre.wf_nodes(), pre.wf_estore(), pre.wf_index_sets(),
        add_edge_rel(pre, e, post, r),
    ensures
        post.wf_index_sets(),
{
    if !pre.stores(e) {
        assert(post == pre);
    } else {
        lemma_existed_is_pair(pre, e, post, r);
        let iu = post.nodes_map@[e.u];
        let iv = post.nodes_map@[e.v];
        let c = stored_key(post, e);
        lemma_canon_fix(post, c.0, c.1);
        assert forall|i: usize, j: usize| #[trigger] post.succ_set(i).contains(j) <==> post.linked(i, j) by {
            let cj = post.canon(i, j);
            assert(pre.canon(i, j) == cj);
            assert(pre.succ_set(i).contains(j) <==> pre.linked(i, j));
            if cj == c {
                // (i, j) is the stored pair, in one of its orientations
                assert((i == iu && j == iv) || (!pre.specs.directed && i == iv && j == iu));
            } else {
                assert(post.has_pair(cj.0, cj.1) == pre.has_pair(cj.0, cj.1));
                assert(!(i == iu && j == iv));
                assert(!(!pre.specs.directed && i == iv && j == iu));
            }
        }
        assert forall|i: usize, j: usize| #[trigger] post.pred_set(j).contains(i) <==> (post.specs.directed && post.has_pair(i, j)) by {
            assert(pre.pred_set(j).contains(i) <==> (pre.specs.directed && pre.has_pair(i, j)));
            if pre.specs.directed {
                if i == iu && j == iv {
                } else {
                    assert(post.has_pair(i, j) == pre.has_pair(i, j));
                }
            } else {
                if i != c.0 || j != c.1 {
                    assert(post.has_pair(i, j) == pre.has_pair(i, j));
                }
            }
        }
    }
}

// [C02.coherence.name_sets_preserved_by_add_edge]
pub proof fn lemma_name_sets_preserved_by_add_edge<T: Eq + PartialOrd + Send + Sync, A: Clone>(pre: Graph<T, A>, e: Edge<T, A>, post: Graph<T, A>, r: Result<(), Error>)
    requires
        pre.wf_nodes(), pre.wf_estore(), pre.wf_index_sets(), pre.wf_name_sets(),
        add_edge_rel(pre, e, post, r),
    ensures
        post.wf_name_sets(),
{
    if !pre.stores(e) {
        assert(post == pre);
    } else {
        lemma_existed_is_pair(pre, e, post, r);
        lemma_positions_kept(pre, e, post, r, e.u);
        lemma_positions_kept(pre, e, post, r, e.v);
        let iu = post.nodes_map@[e.u];
        let iv = post.nodes_map@[e.v];
        assert(post.name_of(iu) == e.u && post.name_of(iv) == e.v);
        assert forall|a: T, x: T| #[trigger] post.succ_names(a).contains(x) <==>
                (post.knows(a) && post.knows(x) && post.succ_set(post.pos(a)).contains(post.pos(x))) by {
            assert(pre.succ_names(a).contains(x) <==> (pre.knows(a) && pre.knows(x) && pre.succ_set(pre.pos(a)).contains(pre.pos(x))));
            if post.knows(a) && post.knows(x) {
                lemma_positions_kept(pre, e, post, r, a);
                lemma_positions_kept(pre, e, post, r, x);
                let ia = post.pos(a);
                let ix = post.pos(x);
                assert(post.name_of(ia) == a && post.name_of(ix) == x);
                // positions determine names: (ia, ix) is the new adjacency iff (a, x) is
                assert((ia == iu && ix == iv) <==> (a == e.u && x == e.v));
                assert((ia == iv && ix == iu) <==> (a == e.v && x == e.u));
                if !(pre.knows(a) && pre.knows(x)) {
                    // a created node had no adjacency before: index sets only hold positions < pre.n
                    if pre.succ_set(ia).contains(ix) {
                        assert(pre.linked(ia, ix));
                        assert(ia < pre.n() && ix < pre.n());
                    }
                }
            } else {
                // an unknown name has no adjacency, before or after
                if post.succ_names(a).contains(x) {
                    assert(pre.succ_names(a).contains(x) || (a == e.u && x == e.v) || (!pre.specs.directed && a == e.v && x == e.u));
                    if pre.succ_names(a).contains(x) {
                        lemma_pre_known_stays_known(pre, e, post, r, a);
                        lemma_pre_known_stays_known(pre, e, post, r, x);
                    }
                }
            }
        }
        assert forall|a: T, x: T| #[trigger] post.pred_names(a).contains(x) <==>
                (post.knows(a) && post.knows(x) && post.pred_set(post.pos(a)).contains(post.pos(x))) by {
            assert(pre.pred_names(a).contains(x) <==> (pre.knows(a) && pre.knows(x) && pre.pred_set(pre.pos(a)).contains(pre.pos(x))));
            if post.knows(a) && post.knows(x) {
                lemma_positions_kept(pre, e, post, r, a);
                lemma_positions_kept(pre, e, post, r, x);
                let ia = post.pos(a);
                let ix = post.pos(x);
                assert(post.name_of(ia) == a && post.name_of(ix) == x);
                assert((ia == iv && ix == iu) <==> (a == e.v && x == e.u));
                if !(pre.knows(a) && pre.knows(x)) {
                    if pre.pred_set(ia).contains(ix) {
                        assert(pre.has_pair(ix, ia));
                        assert(ia < pre.n() && ix < pre.n());
                    }
                }
            } else {
                if post.pred_names(a).contains(x) {
                    if pre.pred_names(a).contains(x) {
                        lemma_pre_known_stays_known(pre, e, post, r, a);
                        lemma_pre_known_stays_known(pre, e, post, r, x);
                    }
                }
            }
        }
    }
}

// a name known before a storing add_edge is known afterwards
pub proof fn lemma_pre_known_stays_known<T: Eq + PartialOrd + Send + Sync, A: Clone>(pre: Graph<T, A>, e: Edge<T, A>, post: Graph<T, A>, r: Result<(), Error>, x: T)
    requires
        pre.wf_nodes(), pre.wf_estore(),
        add_edge_rel(pre, e, post, r),
        pre.stores(e),
        pre.knows(x),
    ensures
        post.knows(x),
{
    let i = pre.nodes_map@[x];
    assert(pre.nodes_vec@[i as int].name == x);
    assert(post.n() == names_after(pre.names(), pre.knows(e.u), pre.knows(e.v), e.u, e.v).len());
    assert(post.nodes_vec@[i as int] == pre.nodes_vec@[i as int]);
    assert(post.nodes_map@.contains_key(post.nodes_vec@[i as int].name));
}

// [C02.coherence.preserved_by_add_node]
// add_node (its proved contract): name maps, index sets, store and specs unchanged; known names keep their positions
pub proof fn lemma_coherence_preserved_by_add_node<T: Eq + PartialOrd + Send + Sync, A: Clone>(pre: Graph<T, A>, post: Graph<T, A>)
    requires
        pre.wf_nodes(), pre.wf_estore(), pre.wf_index_sets(), pre.wf_name_sets(),
        post.wf_nodes(),
        post.edges_map@ == pre.edges_map@,
        post.specs == pre.specs,
        post.successors@ == pre.successors@,
        post.predecessors@ == pre.predecessors@,
        forall|i: usize| #[trigger] post.succ_set(i) == pre.succ_set(i),
        forall|i: usize| #[trigger] post.pred_set(i) == pre.pred_set(i),
        // the two outcomes of add_node's contract (C01.add_node.name_index_frame): name index unchanged, or one name appended at n
        post.nodes_map@ == pre.nodes_map@
            || exists|name: T| !pre.knows(name) && #[trigger] pre.nodes_map@.insert(name, pre.n() as usize) == post.nodes_map@,
    ensures
        post.wf_index_sets(), post.wf_name_sets(),
{
    assert forall|k: T| pre.knows(k) implies post.knows(k) && #[trigger] post.nodes_map@[k] == pre.nodes_map@[k] by {}
    assert forall|k: T| post.knows(k) && !pre.knows(k) implies #[trigger] post.nodes_map@[k] >= pre.n() by {
        if post.nodes_map@ != pre.nodes_map@ {
            let name = choose|name: T| !pre.knows(name) && #[trigger] pre.nodes_map@.insert(name, pre.n() as usize) == post.nodes_map@;
            assert(post.nodes_map@ == pre.nodes_map@.insert(name, pre.n() as usize));
            assert(k == name);
            assert(pre.n() <= usize::MAX) by { assert(pre.nodes_vec.len() == pre.nodes_vec@.len()); }
        }
    }
    assert forall|i: usize, j: usize| #[trigger] post.has_pair(i, j) == pre.has_pair(i, j) by {}
    assert forall|i: usize, j: usize| #[trigger] post.succ_set(i).contains(j) <==> post.linked(i, j) by {
        assert(pre.succ_set(i).contains(j) <==> pre.linked(i, j));
        assert(post.canon(i, j) == pre.canon(i, j));
    }
    assert forall|i: usize, j: usize| #[trigger] post.pred_set(j).contains(i) <==> (post.specs.directed && post.has_pair(i, j)) by {
        assert(pre.pred_set(j).contains(i) <==> (pre.specs.directed && pre.has_pair(i, j)));
    }
    assert forall|a: T, x: T| #[trigger] post.succ_names(a).contains(x) <==>
            (post.knows(a) && post.knows(x) && post.succ_set(post.pos(a)).contains(post.pos(x))) by {
        assert(pre.succ_names(a).contains(x) <==> (pre.knows(a) && pre.knows(x) && pre.succ_set(pre.pos(a)).contains(pre.pos(x))));
        if post.knows(a) && post.knows(x) && !(pre.knows(a) && pre.knows(x)) {
            if pre.succ_set(post.pos(a)).contains(post.pos(x)) {
                assert(pre.linked(post.pos(a), post.pos(x)));
                assert(post.pos(a) < pre.n() && post.pos(x) < pre.n());
            }
        }
    }
    assert forall|a: T, x: T| #[trigger] post.pred_names(a).contains(x) <==>
            (post.knows(a) && post.knows(x) && post.pred_set(post.pos(a)).contains(post.pos(x))) by {
        assert(pre.pred_names(a).contains(x) <==> (pre.knows(a) && pre.knows(x) && pre.pred_set(pre.pos(a)).contains(pre.pos(x))));
        if post.knows(a) && post.knows(x) && !(pre.knows(a) && pre.knows(x)) {
            if pre.pred_set(post.pos(a)).contains(post.pos(x)) {
                assert(pre.has_pair(post.pos(x), post.pos(a)));
                assert(post.pos(a) < pre.n() && post.pos(x) < pre.n());
            }
        }
    }
}

// [C02.coherence.empty_graph]
pub proof fn lemma_coherence_empty<T: Eq + PartialOrd + Send + Sync, A: Clone>(g: Graph<T, A>)
    requires
        g.edges_map@.len() == 0,
        g.successors@.len() == 0,
        g.predecessors@.len() == 0,
        g.successors_map@.len() == 0,
        g.predecessors_map@.len() == 0,
    ensures
        g.wf_index_sets(), g.wf_name_sets(),
{
    assert forall|u: usize, v: usize| !#[trigger] g.has_pair(u, v) by {
        if g.edges_map@.contains_key(u) {
            assert(g.edges_map@.dom().contains(u));
        }
    }
    assert forall|i: usize| #[trigger] g.succ_set(i) == Set::<usize>::empty() && g.pred_set(i) == Set::<usize>::empty() by {
        if g.successors_map@.contains_key(i) { assert(g.successors_map@.dom().contains(i)); }
        if g.predecessors_map@.contains_key(i) { assert(g.predecessors_map@.dom().contains(i)); }
    }
    assert forall|a: T| #[trigger] g.succ_names(a) == Set::<T>::empty() && g.pred_names(a) == Set::<T>::empty() by {
        if g.successors@.contains_key(a) { assert(g.successors@.dom().contains(a)); }
        if g.predecessors@.contains_key(a) { assert(g.predecessors@.dom().contains(a)); }
    }
}

// [C02.coherence.holds_after_every_batch]
pub proof fn lemma_coherence_along_history<T: Eq + PartialOrd + Send + Sync, A: Clone>(pre: Graph<T, A>, es: Seq<Edge<T, A>>, h: Seq<Graph<T, A>>, k: int, cur: Graph<T, A>)
    requires
        pre.wf_nodes(), pre.wf_estore(), pre.wf_index_sets(), pre.wf_name_sets(),
        prefix_applied(pre, es, h, k, cur),
    ensures
        cur.wf_nodes(), cur.wf_estore(), cur.wf_index_sets(), cur.wf_name_sets(),
    decreases k
{
    if k > 0 {
        let prev = h[k - 1];
        assert(prefix_applied(pre, es, h.subrange(0, k), k - 1, prev)) by {
            let h2 = h.subrange(0, k);
            assert(h2[0] == h[0]);
            assert forall|j: int| 0 <= j < k - 1 implies add_edge_rel(h2[j], es[j], #[trigger] h2[j + 1], Ok(())) by {
                assert(h2[j] == h[j] && h2[j + 1] == h[j + 1]);
            }
        }
        lemma_coherence_along_history(pre, es, h.subrange(0, k), k - 1, prev);
        assert(add_edge_rel(h[k - 1], es[k - 1], h[k - 1 + 1], Ok(())));
        lemma_index_sets_preserved_by_add_edge(prev, es[k - 1], cur, Ok(()));
        lemma_name_sets_preserved_by_add_edge(prev, es[k - 1], cur, Ok(()));
    }
}
